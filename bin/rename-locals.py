"""rename every local variable (not parameters) of every function in a source file: x -> x_loc.  Semantics-preserving."""
import ast, sys

import os
SKIP = {"__class__"}
KEEP_DEFS = bool(os.environ.get("KEEP_DEFS"))
DEFNAMES = set()

class Scope:
    def __init__(self, node, parent, kind):
        self.node, self.parent, self.kind = node, parent, kind
        self.params, self.assigned, self.declared = set(), set(), set()

def params_of(fn):
    a = fn.args
    out = {x.arg for x in a.posonlyargs + a.args + a.kwonlyargs}
    if a.vararg: out.add(a.vararg.arg)
    if a.kwarg: out.add(a.kwarg.arg)
    return out

def build(tree):
    scopes = {}
    def visit(node, scope):
        for ch in ast.iter_child_nodes(node):
            if isinstance(ch, (ast.FunctionDef, ast.AsyncFunctionDef)):
                if scope is not None and scope.kind == "function" and not KEEP_DEFS:
                    scope.assigned.add(ch.name)  # nested def binds a local name
                # decorators/defaults evaluated in enclosing scope
                for d in ch.decorator_list: visit_expr(d, scope)
                s = Scope(ch, scope, "function"); s.params = params_of(ch); scopes[ch] = s
                for st in ch.body: visit_stmt(st, s)
            elif isinstance(ch, ast.ClassDef):
                if scope is not None and scope.kind == "function" and not KEEP_DEFS:
                    scope.assigned.add(ch.name)
                s = Scope(ch, scope, "class"); scopes[ch] = s
                for st in ch.body: visit_stmt(st, s)
            else:
                visit_stmt(ch, scope)
    def visit_stmt(node, scope):
        if isinstance(node, (ast.FunctionDef, ast.AsyncFunctionDef, ast.ClassDef)):
            wrapper = ast.Module(body=[node], type_ignores=[])
            visit(wrapper, scope); return
        if isinstance(node, (ast.Global, ast.Nonlocal)) and scope is not None:
            scope.declared.update(node.names)
        if isinstance(node, ast.Lambda):
            s = Scope(node, scope, "function"); s.params = params_of(node); scopes[node] = s
            visit_stmt(node.body, s); return
        if isinstance(node, (ast.ListComp, ast.SetComp, ast.DictComp, ast.GeneratorExp)):
            s = Scope(node, scope, "function"); scopes[node] = s
            for ch in ast.iter_child_nodes(node): visit_stmt(ch, s)
            return
        if isinstance(node, ast.Name) and isinstance(node.ctx, (ast.Store, ast.Del)) and scope is not None and scope.kind == "function":
            scope.assigned.add(node.id)
        if isinstance(node, ast.ExceptHandler) and node.name and scope is not None and scope.kind == "function":
            scope.assigned.add(node.name)
        if isinstance(node, (ast.Import, ast.ImportFrom)) and scope is not None and scope.kind == "function":
            for a in node.names: scope.assigned.add((a.asname or a.name).split(".")[0])
        for ch in ast.iter_child_nodes(node): visit_stmt(ch, scope)
    visit_expr = visit_stmt
    visit(tree, None)
    return scopes

def rename(src):
    tree = ast.parse(src)
    scopes = build(tree)
    def resolve(name, scope):
        s = scope
        while s is not None:
            if s.kind == "function":
                if name in s.declared: return None
                if name in s.params: return None
                if name in s.assigned: return s
            s = s.parent
        return None
    class T(ast.NodeTransformer):
        def __init__(self): self.stack = [None]
        def enter(self, node):
            self.stack.append(scopes.get(node, self.stack[-1]))
        def generic_scope(self, node):
            if isinstance(node, (ast.FunctionDef, ast.AsyncFunctionDef)):
                # decorators in the enclosing scope
                node.decorator_list = [self.visit(d) for d in node.decorator_list]
                outer = self.stack[-1]
                if outer is not None and resolve(node.name, outer) is not None and node.name not in SKIP and not KEEP_DEFS:
                    node.name = node.name + "_loc"
                self.stack.append(scopes[node])
                node.args = self.visit(node.args)
                node.body = [self.visit(s) for s in node.body]
                self.stack.pop()
                return node
            if isinstance(node, ast.ClassDef):
                outer = self.stack[-1]
                node.decorator_list = [self.visit(d) for d in node.decorator_list]
                node.bases = [self.visit(b) for b in node.bases]
                if outer is not None and resolve(node.name, outer) is not None and not KEEP_DEFS:
                    node.name = node.name + "_loc"
                self.stack.append(scopes[node]); node.body = [self.visit(s) for s in node.body]; self.stack.pop(); return node
            self.stack.append(scopes[node]); self.generic_visit(node); self.stack.pop(); return node
        visit_FunctionDef = visit_AsyncFunctionDef = visit_ClassDef = visit_Lambda = visit_ListComp = visit_SetComp = visit_DictComp = visit_GeneratorExp = generic_scope
        def visit_Name(self, node):
            sc = self.stack[-1]
            if sc is not None and node.id not in SKIP and resolve(node.id, sc) is not None:
                node.id = node.id + "_loc"
            return node
        def visit_ExceptHandler(self, node):
            sc = self.stack[-1]
            if node.name and sc is not None and resolve(node.name, sc) is not None:
                node.name = node.name + "_loc"
            self.generic_visit(node); return node
    new = T().visit(tree)
    ast.fix_missing_locations(new)
    return ast.unparse(new)

if __name__ == "__main__":
    for p in sys.argv[1:]:
        s = open(p).read()
        open(p, "w").write(rename(s) + "\n")
