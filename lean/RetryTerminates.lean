/-
C11, termination of the retry loop of `Server._start_passive_server`.

The deductive check (contracts/c11_ports.py, obligation
`…/iteration:each-retry-views-a-configured-port-not-viewed-before`) proves, for an arbitrary iteration of the loop that
goes round again: the port just taken was not in `viewed_ports`, it is in `viewed_ports` afterwards (nothing is ever
removed), and it is one of the configured ports.  So the successive values of `viewed_ports` form a strictly increasing
chain of subsets of the finite set of configured ports.  This file supplies the remaining step: such a chain cannot be
infinite, hence the loop cannot go round more than `card configured` times.
-/
import Mathlib.Data.Finset.Card

open Finset

/-- along a strictly increasing chain the i-th set has at least i elements -/
theorem chain_card_ge {α : Type} [DecidableEq α] (v : ℕ → Finset α)
    (hstep : ∀ i, v i ⊂ v (i + 1)) : ∀ i, i ≤ (v i).card := by
  intro i
  induction i with
  | zero => exact Nat.zero_le _
  | succ n ih =>
    have h := Finset.card_lt_card (hstep n)
    omega

/-- no infinite strictly increasing chain of subsets of a finite set: the retry loop terminates -/
theorem retry_loop_terminates {α : Type} [DecidableEq α] (configured : Finset α) (viewed : ℕ → Finset α)
    (hstep : ∀ i, viewed i ⊂ viewed (i + 1)) (hsub : ∀ i, viewed i ⊆ configured) : False := by
  have h1 := chain_card_ge viewed hstep (configured.card + 1)
  have h2 := Finset.card_le_card (hsub (configured.card + 1))
  omega

/-- the bound itself: a chain that is strictly increasing for its first n steps has n ≤ card configured -/
theorem retry_bound {α : Type} [DecidableEq α] (configured : Finset α) (viewed : ℕ → Finset α) (n : ℕ)
    (hstep : ∀ i, i < n → viewed i ⊂ viewed (i + 1)) (hsub : ∀ i, viewed i ⊆ configured) : n ≤ configured.card := by
  have key : ∀ i, i ≤ n → i ≤ (viewed i).card := by
    intro i
    induction i with
    | zero => intro _; exact Nat.zero_le _
    | succ k ih =>
      intro hk
      have h := Finset.card_lt_card (hstep k (by omega))
      have := ih (by omega)
      omega
  have h2 := Finset.card_le_card (hsub n)
  have := key n (le_refl n)
  omega
