"""Symbolic interpreter for the Python subset used by aioftp (see DESIGN.md 2.3).

Direct style: eval returns a value; Python exceptions of the interpreted program travel as PyRaise.
Symbolic branching goes through ctx.branch / ctx.choose (decision-trace replay, core.explore).
"""
from __future__ import annotations

import ast
import os

import z3

from . import strmodel
from .core import (
    SV,
    BreakSig,
    ContinueSig,
    PathEnd,
    PyRaise,
    ReturnSig,
    Unsupported,
    as_int,
    as_real,
    fresh,
    is_scalar,
    kind_of,
    simplify_bool,
    term,
)
from .values import (
    BoundMethod,
    Builtin,
    ClassM,
    ClassVal,
    Closure,
    Coro,
    EnumMember,
    Env,
    Model,
    ModuleVal,
    Obj,
    Opaque,
    Partial,
    PropertyVal,
    StaticM,
    SymSeq,
)

CALLABLE_TYPES = (Closure, BoundMethod, Builtin, Partial, ClassVal)

_PARSE_CACHE = {}


def _parse_file(path):
    """sources are re-read from /repo on every run (once per process); the parsed AST is shared by all paths"""
    key = (path, os.path.getmtime(path))
    if key not in _PARSE_CACHE:
        src = open(path, encoding="utf-8").read()
        _PARSE_CACHE[key] = (src, ast.parse(src, filename=path))
    return _PARSE_CACHE[key]


class Interp:
    def __init__(self, ctx, repo_root, pkg="aioftp", hooks=None):
        self.ctx = ctx
        self.repo_root = repo_root
        self.pkg = pkg
        self.modules = {}  # name -> ModuleVal
        self.hooks = hooks or {}
        # hooks: 'contracts': {qualname: callee-contract applier}, 'loops': {(qualname, ordinal): LoopSpec}
        #        'class_models': {qualname: builder}, 'suspend': callback at suspension points
        self.call_stack = []  # Closure frames (qualnames)
        self.loop_counters = []  # per function frame: loop ordinal counter
        self.exc_stack = []  # currently handled exceptions (for bare raise / sys.exc_info)
        self.cancel_scopes = []  # stack of active wait_for scopes
        self.cancellable = False
        self.builtins = {}
        self.model_modules = {}
        self.exc_classes = {}
        self.sink_events = []
        from . import models

        models.install(self)

    # ------------------------------------------------------------------ module loading
    def load_module(self, name):
        """name like 'aioftp.server'"""
        if name in self.modules:
            return self.modules[name]
        rel = name.split(".")
        assert rel[0] == self.pkg
        path = os.path.join(self.repo_root, "src", *rel)
        if os.path.isdir(path):
            path = os.path.join(path, "__init__.py")
        else:
            path += ".py"
        src, tree = _parse_file(path)
        mod = ModuleVal(name)
        mod.file = path
        mod.source = src
        mod.tree = tree
        self.modules[name] = mod
        env = Env(None, mod.attrs)
        mod.env = env
        mod.attrs["__name__"] = name
        self.cur_module = name
        self.exec_block(tree.body, env, qual="")
        return mod

    def source_segment(self, modname, node):
        return ast.get_source_segment(self.modules[modname].source, node)

    # ------------------------------------------------------------------ helpers
    def exc_class(self, name):
        return self.exc_classes[name]

    def make_exc(self, clsname, *args, **fields):
        cls = self.exc_classes[clsname] if isinstance(clsname, str) else clsname
        o = Obj(cls)
        o.fields["args"] = tuple(args)
        if any(c.name == "OSError" for c in cls.mro):
            o.fields["errno"] = None
        o.fields.update(fields)
        return o

    def throw(self, clsname, *args, **fields):
        raise PyRaise(self.make_exc(clsname, *args, **fields))

    def isinstance_(self, v, cls):
        if isinstance(cls, tuple):
            return any(self.isinstance_(v, c) for c in cls)
        if isinstance(cls, ClassVal):
            if isinstance(v, Obj):
                return v.cls.is_subclass(cls)
            if isinstance(v, EnumMember):
                return v.cls is cls
            pt = getattr(cls, "pytypes", None)
            if pt is not None:
                return self._is_pytype(v, pt)
            if isinstance(v, Model):
                return cls.name in getattr(v, "isa", ())
            return False
        if isinstance(cls, Builtin) and getattr(cls, "pytypes", None) is not None:
            return self._is_pytype(self.unbox(v) if isinstance(v, Obj) else v, cls.pytypes)
        raise Unsupported(f"isinstance against {cls!r}")

    def _is_pytype(self, v, kinds):
        # kinds: tuple of kind names: 'str','bytes','int','bool','tuple','list','dict','float','set'
        if isinstance(v, SV):
            k = {"real": "float"}.get(v.k, v.k)
            if k == "bool" and "int" in kinds:
                return True
            return k in kinds
        if isinstance(v, bool):
            return "bool" in kinds or "int" in kinds
        if isinstance(v, int):
            return "int" in kinds
        if isinstance(v, float):
            return "float" in kinds
        if isinstance(v, str):
            return "str" in kinds
        if isinstance(v, bytes):
            return "bytes" in kinds
        if isinstance(v, tuple):
            return "tuple" in kinds
        if isinstance(v, list):
            return "list" in kinds
        if isinstance(v, dict):
            return "dict" in kinds
        if isinstance(v, (set, frozenset)):
            return "set" in kinds
        if isinstance(v, SymSeq):
            return v.kind in kinds
        return False

    # ------------------------------------------------------------------ truthiness / comparison
    @staticmethod
    def unbox(v):
        """instances of str subclasses (client.Code) carry their value in __value__"""
        if isinstance(v, Obj) and "__value__" in v.fields:
            return v.fields["__value__"]
        if isinstance(v, (LazyOpt, LazyLinked)):
            return v.force()
        return v

    def truthy_term(self, v):
        """Return python bool or z3 Bool for truthiness of v."""
        v = self.unbox(v)
        if v is None:
            return False
        if isinstance(v, SV):
            if v.k == "bool":
                return v.t
            if v.k in ("int",):
                return v.t != 0
            if v.k == "real":
                return v.t != 0
            if v.k in ("str", "bytes"):
                return z3.Length(v.t) > 0
        if isinstance(v, (bool, int, float, str, bytes, tuple, list, dict, set, frozenset)):
            return bool(v)
        if isinstance(v, SymSeq):
            return v.length > 0
        if isinstance(v, Obj):
            f, _ = v.cls.lookup("__bool__")
            if f is not None:
                return self.truthy_term(self.call(BoundMethod(v, f), [], {}))
            f, _ = v.cls.lookup("__len__")
            if f is not None:
                return self.truthy_term(self.call(BoundMethod(v, f), [], {}))
            return True
        if isinstance(v, Model):
            tb = getattr(v, "truthy", None)
            if tb is not None:
                return tb(self)
            return True
        return True

    def truthy(self, v, label="truth"):
        t = self.truthy_term(v)
        if isinstance(t, bool):
            return t
        return self.ctx.branch(t, label)

    def eq_term(self, a, b):
        """python bool or z3 Bool for a == b"""
        a, b = self.unbox(a), self.unbox(b)
        if a is b:
            if isinstance(a, SV) and a.k == "real":
                pass  # NaN ignored (P-float)
            return True
        if a is None or b is None:
            return False  # (a is b handled above); an SV is never None
        if isinstance(a, SV) or isinstance(b, SV):
            if not (is_scalar(a) and is_scalar(b)):
                if isinstance(a, (tuple, list)) or isinstance(b, (tuple, list)):
                    return False
                if isinstance(a, Obj) and "__eq__" in dict((k, 1) for c in a.cls.mro for k in c.attrs):
                    return self.truthy_term(self.call_method(a, "__eq__", [b]))
                if isinstance(b, Obj) and "__eq__" in dict((k, 1) for c in b.cls.mro for k in c.attrs):
                    return self.truthy_term(self.call_method(b, "__eq__", [a]))
                return False
            ka, kb = kind_of(a), kind_of(b)
            num = ("int", "real", "bool")
            if ka in num and kb in num:
                if ka == kb == "bool":
                    return term(a) == term(b)
                if "real" in (ka, kb):
                    return as_real(a) == as_real(b)
                return as_int(a) == as_int(b)
            if ka == kb:
                return term(a) == term(b)
            return False
        if isinstance(a, (tuple, list)) and isinstance(b, (tuple, list)):
            if type(a) is not type(b) or len(a) != len(b):
                return False
            conj = []
            for x, y in zip(a, b):
                e = self.eq_term(x, y)
                if e is False:
                    return False
                if e is not True:
                    conj.append(e)
            if not conj:
                return True
            return z3.And(*conj) if len(conj) > 1 else conj[0]
        if isinstance(a, SymSeq) or isinstance(b, SymSeq):
            return strmodel.seq_eq(self, a, b)
        if isinstance(a, Obj):
            f, _ = a.cls.lookup("__eq__")
            if f is not None:
                return self.truthy_term(self.call(BoundMethod(a, f), [b], {}))
            return False
        if isinstance(b, Obj):
            f, _ = b.cls.lookup("__eq__")
            if f is not None:
                return self.truthy_term(self.call(BoundMethod(b, f), [a], {}))
            return False
        if isinstance(a, Model):
            f = getattr(a, "eq", None)
            if f is not None:
                return f(self, b)
            return False
        if isinstance(b, Model):
            f = getattr(b, "eq", None)
            if f is not None:
                return f(self, a)
            return False
        if isinstance(a, (EnumMember, ClassVal, Closure, Opaque, BoundMethod, Builtin, ModuleVal)) or isinstance(
            b, (EnumMember, ClassVal, Closure, Opaque, BoundMethod, Builtin, ModuleVal)
        ):
            if isinstance(a, BoundMethod) and isinstance(b, BoundMethod):
                return a.obj is b.obj and a.func is b.func
            return False
        try:
            return a == b
        except Exception as e:  # pragma: no cover
            raise Unsupported(f"eq of {type(a).__name__} and {type(b).__name__}: {e}")

    def mk_bool(self, t):
        if isinstance(t, bool):
            return t
        d = simplify_bool(t)
        if d is not None:
            return d
        return SV("bool", t)

    def not_term(self, t):
        if isinstance(t, bool):
            return not t
        return z3.Not(t)

    def compare(self, op, a, b):
        if isinstance(op, ast.Eq):
            return self.mk_bool(self.eq_term(a, b))
        if isinstance(op, ast.NotEq):
            return self.mk_bool(self.not_term(self.eq_term(a, b)))
        if isinstance(op, ast.Is):
            return self.is_(a, b)
        if isinstance(op, ast.IsNot):
            return not self.is_(a, b)
        a, b = self.unbox(a), self.unbox(b)
        if isinstance(op, (ast.In, ast.NotIn)):
            r = self.contains(b, a)
            if isinstance(op, ast.NotIn):
                r = self.mk_bool(self.not_term(r if isinstance(r, bool) else r.t))
            return r
        # ordering
        if isinstance(a, SV) or isinstance(b, SV):
            ka, kb = kind_of(a), kind_of(b)
            if ka in ("str", "bytes") and ka == kb:
                ta, tb = term(a), term(b)
                r = {ast.Lt: ta < tb, ast.LtE: ta <= tb, ast.Gt: tb < ta, ast.GtE: tb <= ta}[type(op)]
                return self.mk_bool(r)
            if "real" in (ka, kb):
                ta, tb = as_real(a), as_real(b)
            else:
                ta, tb = as_int(a), as_int(b)
            r = {ast.Lt: ta < tb, ast.LtE: ta <= tb, ast.Gt: ta > tb, ast.GtE: ta >= tb}[type(op)]
            return self.mk_bool(r)
        if isinstance(a, Obj) or isinstance(b, Obj) or isinstance(a, Model) or isinstance(b, Model):
            raise Unsupported("ordering of objects")
        try:
            return {
                ast.Lt: lambda: a < b,
                ast.LtE: lambda: a <= b,
                ast.Gt: lambda: a > b,
                ast.GtE: lambda: a >= b,
            }[type(op)]()
        except TypeError:
            self.throw("TypeError", "unorderable")

    def is_(self, a, b):
        a, b = self.unbox(a), self.unbox(b)
        if a is None or b is None:
            return a is b
        if isinstance(a, SV) and isinstance(b, SV):
            return a == b
        if isinstance(a, bool) and isinstance(b, bool):
            return a == b
        if isinstance(a, BoundMethod) and isinstance(b, BoundMethod):
            return a.obj is b.obj and a.func is b.func
        return a is b

    def contains(self, container, item):
        if isinstance(container, (tuple, list, set, frozenset)):
            disj = []
            for x in container:
                e = self.eq_term(item, x)
                if e is True:
                    return True
                if e is not False:
                    disj.append(e)
            if not disj:
                return False
            return self.mk_bool(z3.Or(*disj) if len(disj) > 1 else disj[0])
        if isinstance(container, dict):
            return self.contains(tuple(container.keys()), item)
        if isinstance(container, SV) and container.k in ("str", "bytes"):
            return self.mk_bool(z3.Contains(container.t, term(item)))
        if isinstance(container, (str, bytes)):
            if isinstance(item, SV):
                return self.mk_bool(z3.Contains(term(container), item.t))
            return item in container
        if isinstance(container, Model):
            f = getattr(container, "contains", None)
            if f is not None:
                return f(self, item)
        if isinstance(container, Obj):
            f, _ = container.cls.lookup("__contains__")
            if f is not None:
                return self.mk_bool(self.truthy_term(self.call(BoundMethod(container, f), [item], {})))
        if isinstance(container, SymSeq):
            return strmodel.seq_contains(self, container, item)
        raise Unsupported(f"'in' on {type(container).__name__}")

    # ------------------------------------------------------------------ arithmetic
    def binop(self, op, a, b):
        a, b = self.unbox(a), self.unbox(b)
        if isinstance(a, (Obj, Model)) or isinstance(b, (Obj, Model)):
            return self.obj_binop(op, a, b)
        if isinstance(a, SymSeq) or isinstance(b, SymSeq):
            return strmodel.seq_binop(self, op, a, b)
        if not (isinstance(a, SV) or isinstance(b, SV)):
            # concrete python
            try:
                return self._py_binop(op, a, b)
            except ZeroDivisionError:
                self.throw("ZeroDivisionError")
            except TypeError as e:
                self.throw("TypeError", str(e))
        ka, kb = kind_of(a), kind_of(b)
        if ka in ("str", "bytes") or kb in ("str", "bytes"):
            if isinstance(op, ast.Add) and ka == kb:
                return SV(ka, z3.Concat(term(a), term(b)))
            if isinstance(op, ast.Mult):
                return strmodel.str_repeat(self, a, b)
            if isinstance(op, ast.Mod):
                raise Unsupported("% formatting on symbolic strings")
            self.throw("TypeError", "bad operand types")
        real = "real" in (ka, kb)
        if isinstance(op, ast.Div):
            ta, tb = as_real(a), as_real(b)
            if not self.ctx.branch(tb != 0, "div0"):
                self.throw("ZeroDivisionError")
            return SV("real", ta / tb)
        if real:
            ta, tb = as_real(a), as_real(b)
        else:
            ta, tb = as_int(a), as_int(b)
        if isinstance(op, ast.Add):
            return SV("real" if real else "int", ta + tb)
        if isinstance(op, ast.Sub):
            return SV("real" if real else "int", ta - tb)
        if isinstance(op, ast.Mult):
            return SV("real" if real else "int", ta * tb)
        if isinstance(op, (ast.FloorDiv, ast.Mod)):
            if real:
                raise Unsupported("floor division / modulo on reals")
            if not self.ctx.branch(tb != 0, "div0"):
                self.throw("ZeroDivisionError")
            # python floor semantics: for positive divisor equals SMT div/mod (euclidean)
            if isinstance(b, int) and b > 0:
                return SV("int", ta / tb if isinstance(op, ast.FloorDiv) else ta % tb)
            q = z3.If(tb > 0, ta / tb, (-ta) / (-tb))
            if isinstance(op, ast.FloorDiv):
                return SV("int", q)
            return SV("int", ta - q * tb)
        if isinstance(op, (ast.LShift, ast.RShift, ast.BitAnd, ast.BitOr)):
            return strmodel.int_bitop(self, op, a, b)
        raise Unsupported(f"binop {type(op).__name__} on symbolic values")

    def _py_binop(self, op, a, b):
        import operator as o

        table = {
            ast.Add: o.add,
            ast.Sub: o.sub,
            ast.Mult: o.mul,
            ast.Div: o.truediv,
            ast.FloorDiv: o.floordiv,
            ast.Mod: o.mod,
            ast.Pow: o.pow,
            ast.LShift: o.lshift,
            ast.RShift: o.rshift,
            ast.BitOr: o.or_,
            ast.BitAnd: o.and_,
            ast.BitXor: o.xor,
        }
        if isinstance(a, (set, frozenset)) and isinstance(b, (set, frozenset)):
            return table[type(op)](a, b)
        if isinstance(a, (list, tuple)) and isinstance(op, ast.Add) and type(a) is type(b):
            return a + b
        if isinstance(a, (list, tuple, dict, set)) or isinstance(b, (list, tuple, dict, set)):
            if isinstance(op, ast.Mult):
                return table[type(op)](a, b)
            raise TypeError("unsupported operand")
        return table[type(op)](a, b)

    def obj_binop(self, op, a, b):
        names = {
            ast.Add: ("__add__", "__radd__"),
            ast.Sub: ("__sub__", "__rsub__"),
            ast.Div: ("__truediv__", "__rtruediv__"),
            ast.Mult: ("__mul__", "__rmul__"),
            ast.BitOr: ("__or__", "__ror__"),
        }.get(type(op))
        if names is None:
            raise Unsupported(f"object binop {type(op).__name__}")
        for obj, other, nm in ((a, b, names[0]), (b, a, names[1])):
            if isinstance(obj, Model):
                f = getattr(obj, "m_" + nm, None)
                if f is not None:
                    return f(self, other)
            if isinstance(obj, Obj):
                f, _ = obj.cls.lookup(nm)
                if f is not None:
                    return self.call(BoundMethod(obj, f), [other], {})
        self.throw("TypeError", "unsupported operand type(s)")

    def unaryop(self, op, v):
        if isinstance(op, ast.Not):
            t = self.truthy_term(v)
            return self.mk_bool(self.not_term(t))
        if isinstance(op, ast.USub):
            if isinstance(v, SV):
                return SV(v.k, -v.t)
            return -v
        if isinstance(op, ast.UAdd):
            return v
        raise Unsupported("unary op " + type(op).__name__)

    # ------------------------------------------------------------------ attribute access
    def getattr_(self, v, name):
        if isinstance(v, (LazyOpt, LazyLinked)):
            v = v.force()
        if isinstance(v, Obj):
            ga, _ = v.cls.lookup("__getattribute_model__")
            if name in v.fields:
                return v.fields[name]
            a, owner = v.cls.lookup(name)
            if a is not None or owner is not None:
                return self.bind(a, v, v.cls)
            if name == "__class__":
                return v.cls
            if name == "__dict__":
                return v.fields
            g, _ = v.cls.lookup("__getattr__")
            if g is not None:
                return self.call(BoundMethod(v, g), [name], {})
            if "__value__" in v.fields:
                m = strmodel.get_method(self, v.fields["__value__"], name)
                if m is not None:
                    return m
            self.throw("AttributeError", f"{v.cls.name!r} object has no attribute {name!r}")
        if isinstance(v, Model):
            return v.getattr(self, name)
        if isinstance(v, ClassVal):
            a, owner = v.lookup(name)
            if owner is not None:
                if isinstance(a, StaticM):
                    return a.func
                if isinstance(a, ClassM):
                    return BoundMethod(v, a.func)
                return a
            if name == "__name__":
                return v.name
            if name == "__slots__":
                return ()
            self.throw("AttributeError", f"type object {v.name!r} has no attribute {name!r}")
        if isinstance(v, ModuleVal):
            if name in v.attrs:
                return v.attrs[name]
            if getattr(v, "unmodelled", False):
                sub = ModuleVal(v.name + "." + name)
                sub.unmodelled = True
                return sub
            raise Unsupported(f"module attribute {v.name}.{name} is not modelled")
        if isinstance(v, EnumMember):
            if name == "name":
                return v.name
            if name == "value":
                return v.value
        if isinstance(v, Closure):
            if name == "__name__":
                return v.name
            if name == "__wrapped__":
                return v.wrapped
            if name == "__await__":
                raise Unsupported("__await__ on function")
        if isinstance(v, BoundMethod):
            if name == "__name__":
                return v.func.name
            if name == "__self__":
                return v.obj
        if isinstance(v, PropertyVal) and name == "setter":
            def setter(it2, a, k, v=v):
                return PropertyVal(v.fget, a[0])
            return Builtin("property.setter", setter)
        if isinstance(v, Coro) and name == "__await__":
            return Builtin("__await__", lambda it, a, k: v)
        m = strmodel.get_method(self, v, name)
        if m is not None:
            return m
        if isinstance(v, Opaque):
            raise Unsupported(f"attribute {name!r} of opaque value {v.name}")
        raise Unsupported(f"attribute {name!r} of {type(v).__name__}")

    def bind(self, a, obj, cls):
        if isinstance(a, (Closure,)):
            return BoundMethod(obj, a)
        if isinstance(a, Builtin) and getattr(a, "is_method", False):
            return BoundMethod(obj, a)
        if isinstance(a, StaticM):
            return a.func
        if isinstance(a, ClassM):
            return BoundMethod(cls, a.func)
        if isinstance(a, PropertyVal):
            return self.call(a.fget, [obj], {})
        return a

    def setattr_(self, v, name, value):
        if isinstance(v, Obj):
            a, owner = v.cls.lookup(name)
            if isinstance(a, PropertyVal):
                if a.fset is None:
                    self.throw("AttributeError", "can't set attribute")
                self.call(a.fset, [v, value], {})
                return
            s, _ = v.cls.lookup("__setattr__")
            if s is not None and not getattr(self, "_in_setattr", False):
                self.call(BoundMethod(v, s), [name, value], {})
                return
            self.frame_write(v, name)
            v.fields[name] = value
            return
        if isinstance(v, Model):
            v.setattr(self, name, value)
            return
        if isinstance(v, ClassVal):
            v.attrs[name] = value
            return
        if isinstance(v, Closure):
            setattr(v, "attr_" + name, value)
            return
        raise Unsupported(f"setattr on {type(v).__name__}")

    def frame_write(self, obj, name):
        cb = self.hooks.get("on_write")
        if cb:
            cb(self, obj, name)

    def delattr_(self, v, name):
        if isinstance(v, Obj):
            d, _ = v.cls.lookup("__delattr__")
            if d is not None:
                self.call(BoundMethod(v, d), [name], {})
                return
            if name in v.fields:
                del v.fields[name]
                return
            self.throw("AttributeError", name)
        if isinstance(v, Model):
            v.delattr(self, name)
            return
        raise Unsupported(f"delattr on {type(v).__name__}")

    def call_method(self, v, name, args, kwargs=None):
        return self.call(self.getattr_(v, name), list(args), kwargs or {})

    # ------------------------------------------------------------------ calls
    def call(self, f, args, kwargs):
        if isinstance(f, Builtin):
            return f.fn(self, list(args), dict(kwargs))
        if isinstance(f, BoundMethod):
            return self.call(f.func, [f.obj] + list(args), kwargs)
        if isinstance(f, Partial):
            kw = dict(f.kwargs)
            kw.update(kwargs)
            return self.call(f.func, f.args + list(args), kw)
        if isinstance(f, Closure):
            return self.call_closure(f, args, kwargs)
        if isinstance(f, ClassVal):
            return self.instantiate(f, args, kwargs)
        if isinstance(f, Obj):
            c, _ = f.cls.lookup("__call__")
            if c is not None:
                return self.call(BoundMethod(f, c), args, kwargs)
        if isinstance(f, Model):
            c = getattr(f, "m___call__", None)
            if c is not None:
                return c(self, *args, **kwargs)
        if isinstance(f, (StaticM,)):
            return self.call(f.func, args, kwargs)
        if isinstance(f, ModuleVal) and getattr(f, "unmodelled", False):
            raise Unsupported(f"call of {f.name}: module is not modelled")
        raise Unsupported(f"call of {f!r}")

    def instantiate(self, cls, args, kwargs):
        builder = getattr(cls, "builder", None)
        if builder is not None:
            return builder(self, cls, args, kwargs)
        new, _ = cls.lookup("__new_model__")
        o = Obj(cls)
        if any(c.name == "BaseException" for c in cls.mro):
            o.fields["args"] = tuple(args)
            if any(c.name == "OSError" for c in cls.mro):
                o.fields["errno"] = args[0] if len(args) >= 2 else None
        init, owner = cls.lookup("__init__")
        if init is not None:
            self.call(BoundMethod(o, init), args, kwargs)
        elif args or kwargs:
            if not any(c.name == "BaseException" for c in cls.mro):
                self.throw("TypeError", f"{cls.name}() takes no arguments")
        return o

    def bind_args(self, clo, args, kwargs):
        a = clo.node.args
        env = Env(clo.env)
        params = [p.arg for p in a.posonlyargs + a.args]
        pos_defaults, kw_defaults = clo.defaults
        args = list(args)
        kwargs = dict(kwargs)
        n = len(params)
        for i, p in enumerate(params):
            if i < len(args):
                if p in kwargs:
                    self.throw("TypeError", f"multiple values for argument {p!r}")
                env.vars[p] = args[i]
            elif p in kwargs:
                env.vars[p] = kwargs.pop(p)
            else:
                di = i - (n - len(pos_defaults))
                if di >= 0:
                    env.vars[p] = pos_defaults[di]
                else:
                    self.throw("TypeError", f"{clo.qualname}() missing required argument {p!r}")
        extra = args[n:]
        if a.vararg is not None:
            env.vars[a.vararg.arg] = tuple(extra)
        elif extra:
            self.throw("TypeError", f"{clo.qualname}() takes {n} positional arguments but {len(args)} were given")
        for p in a.kwonlyargs:
            if p.arg in kwargs:
                env.vars[p.arg] = kwargs.pop(p.arg)
            elif p.arg in kw_defaults:
                env.vars[p.arg] = kw_defaults[p.arg]
            else:
                self.throw("TypeError", f"missing keyword-only argument {p.arg!r}")
        if a.kwarg is not None:
            env.vars[a.kwarg.arg] = kwargs
        elif kwargs:
            self.throw("TypeError", f"{clo.qualname}() got an unexpected keyword argument {next(iter(kwargs))!r}")
        return env

    def call_closure(self, clo, args, kwargs):
        # contract substitution (modular verification): a callee under contract is not entered
        ch = self.hooks.get("contracts", {})
        top = self.hooks.get("unit_qualname")
        applier = ch.get((clo.module, clo.qualname))
        if applier is not None and not (self.call_stack == [] and (clo.module, clo.qualname) == top):
            if not getattr(self, "_entering_unit", False):
                return applier(self, clo, args, kwargs)
        self._entering_unit = False  # from here on, callees under contract are used through their contracts
        env = self.bind_args(clo, args, kwargs)
        if clo.is_async:
            return Coro(lambda: self.run_body(clo, env), name=clo.qualname, meta={"closure": clo, "env": env})
        return self.run_body(clo, env)

    def run_body(self, clo, env):
        node = clo.node
        if isinstance(node, ast.Lambda):
            return self.eval(node.body, env)
        if len(self.call_stack) > 60:
            raise Unsupported("recursion too deep (missing contract for a recursive callee?)")
        allow = self.hooks.get("allow_bodies")
        if allow is not None and (clo.module, clo.qualname) not in allow and clo.module is not None:
            if not allow_match(allow, clo):
                raise Unsupported(f"no contract for callee {clo.module}:{clo.qualname} (and not declared inline)")
        self.call_stack.append(clo)
        self.loop_counters.append(0)
        cb = self.hooks.get("on_enter")
        if cb:
            cb(self, clo, env)
        try:
            self.exec_block(node.body, env, qual=clo.qualname + ".<locals>")
            return None
        except ReturnSig as r:
            return r.value
        finally:
            self.call_stack.pop()
            self.loop_counters.pop()

    # ------------------------------------------------------------------ await / suspension
    def await_(self, v):
        if isinstance(v, Coro):
            if v.started:
                self.throw("RuntimeError", "cannot reuse already awaited coroutine")
            v.started = True
            return v.run()
        if isinstance(v, Model):
            f = getattr(v, "m___await__", None)
            if f is not None:
                return f(self)
        if isinstance(v, Obj):
            aw, _ = v.cls.lookup("__await__")
            if aw is not None:
                r = self.call(BoundMethod(v, aw), [], {})
                return self.await_(r)
        raise Unsupported(f"await on {v!r}")

    def suspend(self, what=""):
        """A suspension point: cancellation may be delivered, other tasks may run (rely havoc)."""
        cb = self.hooks.get("suspend")
        if cb is not None:
            cb(self, what)
        # timeouts of enclosing wait_for scopes
        for i, scope in enumerate(self.cancel_scopes):
            if scope.get("timeout_possible", True) and not scope.get("fired"):
                if self.ctx.choose(2, f"timeout@{what}") == 1:
                    scope["fired"] = True
                    exc = self.make_exc("CancelledError")
                    exc.fields["scope"] = scope
                    raise PyRaise(exc)
        if self.cancellable:
            if self.ctx.choose(2, f"cancel@{what}") == 1:
                self.ctx.event("cancelled", what)
                self.cancel_delivered = what
                cb2 = self.hooks.get("on_cancel")
                if cb2:
                    cb2(self, what)
                self.throw("CancelledError")

    # ------------------------------------------------------------------ statements
    def exec_block(self, stmts, env, qual):
        for s in stmts:
            self.exec(s, env, qual)

    def exec(self, s, env, qual):
        m = getattr(self, "x_" + type(s).__name__, None)
        if m is None:
            raise Unsupported("statement " + type(s).__name__)
        self.cur_node = s
        return m(s, env, qual)

    def x_Expr(self, s, env, qual):
        if isinstance(s.value, ast.Constant) and isinstance(s.value.value, str):
            return  # docstring
        self.eval(s.value, env)

    def x_Pass(self, s, env, qual):
        pass

    def x_Import(self, s, env, qual):
        for al in s.names:
            top = al.name.split(".")[0]
            env.vars[al.asname or top] = self.import_module(al.name if al.asname else top)

    def import_module(self, name):
        if name in self.model_modules:
            return self.model_modules[name]
        if name == self.pkg or name.startswith(self.pkg + "."):
            return self.load_module(name)
        if name.startswith("siosocks"):
            raise Unsupported(f"import of unmodelled module {name}")
        # unknown module: importing is fine, *using* it makes the using function undecided
        m = ModuleVal(name)
        m.unmodelled = True
        self.model_modules[name] = m
        return m

    def x_ImportFrom(self, s, env, qual):
        if s.level:
            base = self.cur_module.rsplit(".", s.level)[0] if s.level else ""
            modname = base + ("." + s.module if s.module else "")
        else:
            modname = s.module
        if s.level and s.module is None:
            # from . import a, b
            saved = self.cur_module
            for al in s.names:
                env.vars[al.asname or al.name] = self.import_module(modname + "." + al.name)
                self.cur_module = saved
            return
        try:
            saved = self.cur_module
            mod = self.import_module(modname)
            self.cur_module = saved
        except Unsupported:
            if modname.startswith("siosocks"):
                self.throw("ImportError", modname)
            raise
        for al in s.names:
            if al.name not in mod.attrs:
                if getattr(mod, "unmodelled", False):
                    sub = ModuleVal(mod.name + "." + al.name)
                    sub.unmodelled = True
                    env.vars[al.asname or al.name] = sub
                    continue
                raise Unsupported(f"from {modname} import {al.name}: not modelled")
            env.vars[al.asname or al.name] = mod.attrs[al.name]

    def x_Assign(self, s, env, qual):
        v = self.eval(s.value, env)
        for t in s.targets:
            self.assign(t, v, env)

    def x_AnnAssign(self, s, env, qual):
        if s.value is not None:
            self.assign(s.target, self.eval(s.value, env), env)

    def x_AugAssign(self, s, env, qual):
        t = s.target
        if isinstance(t, ast.Name):
            cur = self.load_name(t.id, env)
            if isinstance(cur, list) and isinstance(s.op, ast.Add):
                cur.extend(self.iterate(self.eval(s.value, env)))
                return
            if isinstance(cur, set) and isinstance(s.op, ast.Sub):
                other = self.eval(s.value, env)
                for x in list(self.iterate(other)):
                    cur.discard(x)
                return
            self.assign(t, self.binop(s.op, cur, self.eval(s.value, env)), env)
        elif isinstance(t, ast.Attribute):
            o = self.eval(t.value, env)
            cur = self.getattr_(o, t.attr)
            if isinstance(cur, set) and isinstance(s.op, ast.Sub):
                other = self.eval(s.value, env)
                for x in list(self.iterate(other)):
                    cur.discard(x)
                return
            if isinstance(cur, Model) and hasattr(cur, "iop"):
                r = cur.iop(self, s.op, self.eval(s.value, env))
                self.setattr_(o, t.attr, r)
                return
            self.setattr_(o, t.attr, self.binop(s.op, cur, self.eval(s.value, env)))
        elif isinstance(t, ast.Subscript):
            o = self.eval(t.value, env)
            k = self.eval_index(t.slice, env)
            cur = self.getitem(o, k)
            self.setitem(o, k, self.binop(s.op, cur, self.eval(s.value, env)))
        else:
            raise Unsupported("augassign target")

    def assign(self, t, v, env):
        if isinstance(t, ast.Name):
            self.store_name(t.id, v, env)
        elif isinstance(t, ast.Attribute):
            self.setattr_(self.eval(t.value, env), t.attr, v)
        elif isinstance(t, ast.Subscript):
            self.setitem(self.eval(t.value, env), self.eval_index(t.slice, env), v)
        elif isinstance(t, (ast.Tuple, ast.List)):
            self.unpack(t.elts, v, env)
        else:
            raise Unsupported("assign target " + type(t).__name__)

    def unpack(self, elts, v, env):
        star = [i for i, e in enumerate(elts) if isinstance(e, ast.Starred)]
        if isinstance(v, SymSeq):
            items = strmodel.seq_unpack(self, v, len(elts), star[0] if star else None)
        else:
            items = list(self.iterate(v))
            if star:
                i = star[0]
                nafter = len(elts) - i - 1
                if len(items) < len(elts) - 1:
                    self.throw("ValueError", "not enough values to unpack")
                mid = items[i : len(items) - nafter]
                items = items[:i] + [list(mid)] + items[len(items) - nafter :]
            elif len(items) != len(elts):
                self.throw("ValueError", "wrong number of values to unpack")
        for e, x in zip(elts, items):
            if isinstance(e, ast.Starred):
                self.assign(e.value, x, env)
            else:
                self.assign(e, x, env)

    def store_name(self, name, v, env):
        if name in env.globals_decl:
            env.root().vars[name] = v
        elif name in env.nonlocals_decl:
            e = env.parent.find(name)
            e.vars[name] = v
        else:
            env.vars[name] = v

    def load_name(self, name, env):
        try:
            return env.lookup(name)
        except KeyError:
            if name in self.builtins:
                return self.builtins[name]
            raise Unsupported(f"name {name!r} is not defined / not modelled")

    def x_Delete(self, s, env, qual):
        for t in s.targets:
            if isinstance(t, ast.Attribute):
                self.delattr_(self.eval(t.value, env), t.attr)
            elif isinstance(t, ast.Name):
                e = env.find(t.id)
                if e is None:
                    self.throw("NameError", t.id)
                del e.vars[t.id]
            elif isinstance(t, ast.Subscript):
                self.delitem(self.eval(t.value, env), self.eval_index(t.slice, env))
            else:
                raise Unsupported("del target")

    def x_Global(self, s, env, qual):
        env.globals_decl.update(s.names)

    def x_Nonlocal(self, s, env, qual):
        env.nonlocals_decl.update(s.names)

    def x_Return(self, s, env, qual):
        raise ReturnSig(self.eval(s.value, env) if s.value is not None else None)

    def x_Break(self, s, env, qual):
        raise BreakSig()

    def x_Continue(self, s, env, qual):
        raise ContinueSig()

    def x_If(self, s, env, qual):
        if self.truthy(self.eval(s.test, env), label=f"if@{s.lineno - self.base_line()}"):
            self.exec_block(s.body, env, qual)
        else:
            self.exec_block(s.orelse, env, qual)

    def base_line(self):
        if self.call_stack:
            return self.call_stack[-1].node.lineno
        return 0

    def x_Assert(self, s, env, qual):
        if not self.truthy(self.eval(s.test, env), "assert"):
            self.throw("AssertionError")

    def x_Raise(self, s, env, qual):
        if s.exc is None:
            if not self.exc_stack:
                self.throw("RuntimeError", "No active exception to re-raise")
            raise PyRaise(self.exc_stack[-1])
        e = self.eval(s.exc, env)
        if isinstance(e, ClassVal):
            e = self.instantiate(e, [], {})
        if not isinstance(e, Obj):
            raise Unsupported("raise of non-exception")
        if s.cause is not None:
            e.fields["__cause__"] = self.eval(s.cause, env)
        raise PyRaise(e)

    def x_FunctionDef(self, s, env, qual):
        clo = self.make_closure(s, env, qual)
        v = clo
        for d in reversed(s.decorator_list):
            dec = self.eval(d, env)
            v = self.call(dec, [v], {})
        env.vars[s.name] = v

    x_AsyncFunctionDef = x_FunctionDef

    def make_closure(self, s, env, qual):
        name = getattr(s, "name", "<lambda>")
        qn = (qual + "." + name) if qual else name
        qn = qn.lstrip(".")
        module = self.call_stack[-1].module if self.call_stack else self.cur_module
        clo = Closure(s, env, qn, module, defining_class=getattr(env, "class_being_defined", None))
        a = s.args
        pos_defaults = [self.eval(d, env) for d in a.defaults]
        kw_defaults = {}
        for p, d in zip(a.kwonlyargs, a.kw_defaults):
            if d is not None:
                kw_defaults[p.arg] = self.eval(d, env)
        clo.defaults = (pos_defaults, kw_defaults)
        return clo

    def x_ClassDef(self, s, env, qual):
        bases = [self.eval(b, env) for b in s.bases]
        bases = [getattr(b, "as_class", b) for b in bases]
        qn = ((qual + ".") if qual else "") + s.name
        qn = qn.lstrip(".")
        cm = self.hooks.get("class_models", {})
        if (self.cur_module, qn) in cm:
            env.vars[s.name] = cm[(self.cur_module, qn)](self, s, env)
            return
        for b in bases:
            if not isinstance(b, ClassVal):
                raise Unsupported(f"class {s.name}: base {b!r} is not a modelled class")
        cenv = Env(env)
        cls_placeholder = ClassVal(s.name, bases, cenv.vars, qualname=qn, module=self.cur_module, node=s)
        cenv.class_being_defined = cls_placeholder
        self.exec_block(s.body, cenv, qual=qn)
        # name resolution inside methods must not see class-level names: re-parent closures
        for k, v in list(cenv.vars.items()):
            for f in unwrap_funcs(v):
                if f.env is cenv:
                    f.env = env
        cls = cls_placeholder
        for b in bases:
            hook = getattr(b, "on_subclass", None)
            if hook:
                hook(self, cls)
        v = cls
        for d in reversed(s.decorator_list):
            v = self.call(self.eval(d, env), [v], {})
        env.vars[s.name] = v

    def x_Try(self, s, env, qual):
        def run_finally():
            if s.finalbody:
                self.exec_block(s.finalbody, env, qual)

        try:
            try:
                self.exec_block(s.body, env, qual)
            except PyRaise as pr:
                exc = pr.exc
                for h in s.handlers:
                    if h.type is None or self.exc_matches(exc, self.eval(h.type, env)):
                        if h.name:
                            env.vars[h.name] = exc
                        self.exc_stack.append(exc)
                        try:
                            self.exec_block(h.body, env, qual)
                        finally:
                            self.exc_stack.pop()
                            if h.name:
                                env.vars.pop(h.name, None)
                        break
                else:
                    raise
            else:
                self.exec_block(s.orelse, env, qual)
        except (PyRaise, ReturnSig, BreakSig, ContinueSig) as sig:
            if s.finalbody:
                if isinstance(sig, PyRaise):
                    self.exc_stack.append(sig.exc)
                    try:
                        run_finally()
                    finally:
                        self.exc_stack.pop()
                else:
                    run_finally()
            raise
        else:
            run_finally()

    def exc_matches(self, exc, cls):
        if isinstance(cls, tuple):
            return any(self.exc_matches(exc, c) for c in cls)
        if not isinstance(cls, ClassVal):
            raise Unsupported(f"except clause with {cls!r}")
        return exc.cls.is_subclass(cls)

    def x_With(self, s, env, qual):
        self._with(s.items, s.body, env, qual, False)

    def x_AsyncWith(self, s, env, qual):
        self._with(s.items, s.body, env, qual, True)

    def _with(self, items, body, env, qual, is_async):
        if not items:
            self.exec_block(body, env, qual)
            return
        it = items[0]
        mgr = self.eval(it.context_expr, env)
        enter, exit_ = ("__aenter__", "__aexit__") if is_async else ("__enter__", "__exit__")
        exit_m = self.getattr_(mgr, exit_)
        v = self.call(self.getattr_(mgr, enter), [], {})
        if is_async:
            v = self.await_(v)
        if it.optional_vars is not None:
            self.assign(it.optional_vars, v, env)

        def do_exit(args):
            r = self.call(exit_m, args, {})
            if is_async:
                r = self.await_(r)
            return r

        try:
            self._with(items[1:], body, env, qual, is_async)
        except PyRaise as pr:
            self.exc_stack.append(pr.exc)
            try:
                r = do_exit([pr.exc.cls, pr.exc, Opaque("traceback")])
            finally:
                self.exc_stack.pop()
            if self.truthy(r, "with-suppress"):
                return
            raise
        except (ReturnSig, BreakSig, ContinueSig):
            do_exit([None, None, None])
            raise
        else:
            do_exit([None, None, None])

    # ---- loops
    def loop_spec(self, node=None):
        if not self.call_stack:
            spec = self.hooks.get("block_loop")
            if callable(spec) and not hasattr(spec, "invariants"):
                # a block with several loops: the hook maps the loop statement to (spec, name)
                return spec(node)
            return spec, "block/loop"
        clo = self.call_stack[-1]
        # loop ordinal = position of the loop statement among the loops of the function, in source order
        ordinal = loop_ordinal(clo.node, node) if node is not None else self.loop_counters[-1]
        self.loop_counters[-1] += 1
        spec = self.hooks.get("loops", {}).get((clo.module, clo.qualname, ordinal))
        return spec, f"{clo.qualname}/loop{ordinal}"

    def x_While(self, s, env, qual):
        spec, lname = self.loop_spec(s)
        saved_counter = self.loop_counters[-1] if self.loop_counters else 0
        if spec is None:
            n = 0
            limit = self.hooks.get("unroll_limit", 64)
            while self.truthy(self.eval(s.test, env), f"while@{lname}"):
                if self.loop_counters:
                    self.loop_counters[-1] = saved_counter
                n += 1
                if n > limit:
                    if self.hooks.get("unroll_exceed") == "end":
                        self.ctx.notes.append(f"bounded: loop {lname} unrolled {limit} times")
                        raise PathEnd(f"loop {lname}: unrolling bound {limit} reached (bounded exploration)")
                    raise Unsupported(f"loop {lname} has no invariant and did not terminate within {limit} concrete iterations")
                try:
                    self.exec_block(s.body, env, qual)
                except BreakSig:
                    return
                except ContinueSig:
                    continue
            self.exec_block(s.orelse, env, qual)
            return
        self.inv_loop(spec, lname, env, qual, s, cond=lambda: self.truthy(self.eval(s.test, env), f"while@{lname}"), pre_body=None)

    def inv_loop(self, spec, lname, env, qual, s, cond, pre_body):
        """Loop cut by an inductive invariant (spec): init / havoc / assume / arbitrary iteration."""
        spec.establish(self, env, lname)
        targets = assigned_names(s.body) | (assigned_names([s.target]) if hasattr(s, "target") else set())
        # soundness of the loop cut: containers mutated in place by the body must be havocked too
        for name in mutated_names(s.body):
            e = env.find(name)
            if e is not None and isinstance(e.vars[name], (list, set, dict)) and name not in {getattr(spec, "alias", {}).get(k, k) for k in spec.shapes} and name not in targets:
                raise Unsupported(f"loop {lname} mutates container {name!r} in place; its loop contract must give a shape for it")
        spec.havoc(self, env, targets, lname)
        spec.assume(self, env, lname)
        if cond():
            snap = spec.snapshot(self, env)
            try:
                if pre_body is not None:
                    pre_body()
                self.exec_block(s.body, env, qual)
            except BreakSig:
                return
            except ContinueSig:
                pass
            spec.preserve(self, env, lname, snap)
            raise PathEnd(f"loop {lname}: arbitrary iteration closed")
        self.exec_block(s.orelse, env, qual)

    def x_For(self, s, env, qual):
        it = self.eval(s.iter, env)
        spec, lname = self.loop_spec(s)
        saved_counter = self.loop_counters[-1] if self.loop_counters else 0
        if isinstance(it, SymSeq) or (spec is not None and getattr(spec, "force", False)):
            if spec is None:
                raise Unsupported(f"loop {lname} over a sequence of symbolic length needs an invariant")
            strmodel.for_symseq(self, spec, lname, env, qual, s, it)
            return
        if isinstance(it, Model) and hasattr(it, "for_loop"):
            return it.for_loop(self, spec, lname, env, qual, s)
        broke = False
        for x in self.iterate(it):
            if self.loop_counters:
                self.loop_counters[-1] = saved_counter
            self.assign(s.target, x, env)
            try:
                self.exec_block(s.body, env, qual)
            except BreakSig:
                broke = True
                break
            except ContinueSig:
                continue
        if not broke:
            self.exec_block(s.orelse, env, qual)

    def x_AsyncFor(self, s, env, qual):
        itv = self.eval(s.iter, env)
        ai = self.call_method(itv, "__aiter__", [])
        spec, lname = self.loop_spec(s)
        if spec is None:
            raise Unsupported(f"async for {lname} needs an invariant")
        anext = self.getattr_(ai, "__anext__")
        state = {}

        def cond():
            try:
                x = self.await_(self.call(anext, [], {}))
            except PyRaise as pr:
                if pr.exc.cls.is_subclass(self.exc_classes["StopAsyncIteration"]):
                    return False
                raise
            state["x"] = x
            return True

        def pre_body():
            self.assign(s.target, state["x"], env)

        spec.iterator = ai
        self.inv_loop(spec, lname, env, qual, s, cond, pre_body)

    def iterate(self, v):
        v = self.unbox(v)
        if isinstance(v, (list, tuple)):
            return list(v)
        if isinstance(v, dict):
            return list(v.keys())
        if isinstance(v, (set, frozenset)):
            return list(v)
        if isinstance(v, (str, bytes)):
            return list(v) if isinstance(v, str) else list(v)
        if isinstance(v, range):
            return list(v)
        if isinstance(v, Model) and hasattr(v, "iterate"):
            return v.iterate(self)
        if isinstance(v, PyIter):
            return v.rest()
        if isinstance(v, SymSeq):
            raise Unsupported("iteration over a sequence of symbolic length outside a loop with invariant")
        if isinstance(v, SV) and v.k in ("str", "bytes"):
            n = z3.simplify(z3.Length(v.t))
            for k in range(0, 9):
                if (z3.is_int_value(n) and n.as_long() == k) or (not z3.is_int_value(n) and self.ctx.proved(z3.Length(v.t) == k, "strlen")):
                    return [SV(v.k, z3.simplify(z3.SubString(v.t, i, 1))) for i in range(k)]
            raise Unsupported("iteration over a symbolic string of unknown length outside a loop with invariant")
        raise Unsupported(f"iteration over {type(v).__name__}")

    # ------------------------------------------------------------------ expressions
    def eval(self, e, env):
        m = getattr(self, "e_" + type(e).__name__, None)
        if m is None:
            raise Unsupported("expression " + type(e).__name__)
        return m(e, env)

    def e_Constant(self, e, env):
        return e.value

    def e_Name(self, e, env):
        return self.load_name(e.id, env)

    def e_Tuple(self, e, env):
        return tuple(self.eval_elts(e.elts, env))

    def e_List(self, e, env):
        return list(self.eval_elts(e.elts, env))

    def e_Set(self, e, env):
        return set(self.eval_elts(e.elts, env))

    def eval_elts(self, elts, env):
        out = []
        for x in elts:
            if isinstance(x, ast.Starred):
                out.extend(self.iterate(self.eval(x.value, env)))
            else:
                out.append(self.eval(x, env))
        return out

    def e_Dict(self, e, env):
        d = {}
        for k, v in zip(e.keys, e.values):
            if k is None:
                d.update(self.eval(v, env))
            else:
                d[self.eval(k, env)] = self.eval(v, env)
        return d

    def e_BoolOp(self, e, env):
        is_and = isinstance(e.op, ast.And)
        v = None
        for i, sub in enumerate(e.values):
            v = self.eval(sub, env)
            if i == len(e.values) - 1:
                return v
            t = self.truthy(v, "and" if is_and else "or")
            if is_and and not t:
                return v
            if not is_and and t:
                return v
        return v

    def e_UnaryOp(self, e, env):
        return self.unaryop(e.op, self.eval(e.operand, env))

    def e_BinOp(self, e, env):
        a = self.eval(e.left, env)
        b = self.eval(e.right, env)
        return self.binop(e.op, a, b)

    def e_Compare(self, e, env):
        left = self.eval(e.left, env)
        result = True
        terms = []
        for op, right_e in zip(e.ops, e.comparators):
            right = self.eval(right_e, env)
            r = self.compare(op, left, right)
            if len(e.ops) == 1:
                return r
            # chained: short-circuit
            if not self.truthy(r, "cmp"):
                return False
            left = right
        return True

    def e_IfExp(self, e, env):
        if self.truthy(self.eval(e.test, env), "ifexp"):
            return self.eval(e.body, env)
        return self.eval(e.orelse, env)

    def e_Lambda(self, e, env):
        return self.make_closure(e, env, (self.call_stack[-1].qualname + ".<locals>") if self.call_stack else "")

    def e_Attribute(self, e, env):
        return self.getattr_(self.eval(e.value, env), e.attr)

    def e_Await(self, e, env):
        return self.await_(self.eval(e.value, env))

    def e_Starred(self, e, env):
        raise Unsupported("starred expression in this position")

    def e_NamedExpr(self, e, env):
        v = self.eval(e.value, env)
        self.assign(e.target, v, env)
        return v

    def e_Call(self, e, env):
        # super() support
        if isinstance(e.func, ast.Name) and e.func.id == "super" and not e.args:
            return self.make_super(env)
        f = self.eval(e.func, env)
        args = []
        for a in e.args:
            if isinstance(a, ast.Starred):
                args.extend(self.iterate(self.eval(a.value, env)))
            else:
                args.append(self.eval(a, env))
        kwargs = {}
        for k in e.keywords:
            if k.arg is None:
                d = self.eval(k.value, env)
                if not isinstance(d, dict):
                    raise Unsupported("** of non-dict")
                kwargs.update(d)
            else:
                kwargs[k.arg] = self.eval(k.value, env)
        self.cur_call_node = e
        return self.call(f, args, kwargs)

    def make_super(self, env):
        clo = self.call_stack[-1] if self.call_stack else None
        c = clo
        if c is None or c.defining_class is None:
            raise Unsupported("super() outside a method")
        a = c.node.args
        first = (a.posonlyargs + a.args)[0].arg
        selfv = env.lookup(first)
        return SuperProxy(selfv, c.defining_class)

    def e_Subscript(self, e, env):
        o = self.eval(e.value, env)
        k = self.eval_index(e.slice, env)
        return self.getitem(o, k)

    def eval_index(self, sl, env):
        if isinstance(sl, ast.Slice):
            return slice(
                self.eval(sl.lower, env) if sl.lower is not None else None,
                self.eval(sl.upper, env) if sl.upper is not None else None,
                self.eval(sl.step, env) if sl.step is not None else None,
            )
        return self.eval(sl, env)

    def getitem(self, o, k):
        o = self.unbox(o)
        if isinstance(o, (list, tuple)):
            if isinstance(k, slice):
                if any(isinstance(x, SV) for x in (k.start, k.stop, k.step)):
                    raise Unsupported("symbolic slice of a concrete sequence")
                return o[k]
            if isinstance(k, SV):
                raise Unsupported("symbolic index into a concrete sequence")
            try:
                return o[k]
            except IndexError:
                self.throw("IndexError", "index out of range")
            except TypeError:
                self.throw("TypeError", "bad index")
        if isinstance(o, dict):
            return self.dict_get(o, k)
        if isinstance(o, (SV, str, bytes)):
            return strmodel.str_getitem(self, o, k)
        if isinstance(o, SymSeq):
            return strmodel.seq_getitem(self, o, k)
        if isinstance(o, Model):
            return o.getitem(self, k)
        if isinstance(o, Obj):
            f, _ = o.cls.lookup("__getitem__")
            if f is not None:
                return self.call(BoundMethod(o, f), [k], {})
        raise Unsupported(f"subscript of {type(o).__name__}")

    def dict_get(self, d, k, default=KeyError):
        """dict lookup with possibly-symbolic key: fork over equal keys."""
        hit = None
        k = self.unbox(k)
        if isinstance(k, SV) and d and all(isinstance(v, int) and not isinstance(v, bool) for v in d.values()):
            # table of integers indexed by a symbolic key: one fork (found / missing), the value as an if-then-else chain
            eqs = [(self.eq_term(k, kk), vv) for kk, vv in d.items()]
            eqs = [(e, vv) for e, vv in eqs if e is not False]
            if eqs and all(not isinstance(e, bool) for e, _ in eqs):
                found = z3.Or(*[e for e, _ in eqs]) if len(eqs) > 1 else eqs[0][0]
                if self.ctx.branch(found, "dictkey-present"):
                    val = z3.IntVal(eqs[-1][1])
                    for e, vv in reversed(eqs[:-1]):
                        val = z3.If(e, z3.IntVal(vv), val)
                    return SV("int", val)
                if default is KeyError:
                    self.throw("KeyError", k)
                return default
        for kk, vv in d.items():
            e = self.eq_term(k, kk)
            if e is True:
                return vv
            if e is False:
                continue
            if self.ctx.branch(e, "dictkey"):
                return vv
        if default is KeyError:
            self.throw("KeyError", k)
        return default

    def setitem(self, o, k, v):
        if isinstance(o, dict):
            for kk in list(o.keys()):
                e = self.eq_term(k, kk)
                if e is True:
                    o[kk] = v
                    return
                if e is False:
                    continue
                if self.ctx.branch(e, "dictkey"):
                    o[kk] = v
                    return
            o[k] = v
            return
        if isinstance(o, list):
            if isinstance(k, SV):
                raise Unsupported("symbolic index store")
            try:
                o[k] = v
            except IndexError:
                self.throw("IndexError", "list assignment index out of range")
            return
        if isinstance(o, Model):
            return o.setitem(self, k, v)
        if isinstance(o, Obj):
            f, _ = o.cls.lookup("__setitem__")
            if f is not None:
                return self.call(BoundMethod(o, f), [k, v], {})
        raise Unsupported(f"item assignment on {type(o).__name__}")

    def delitem(self, o, k):
        if isinstance(o, dict):
            for kk in list(o.keys()):
                e = self.eq_term(k, kk)
                if e is True or (e is not False and self.ctx.branch(e, "dictkey")):
                    del o[kk]
                    return
            self.throw("KeyError", k)
        if isinstance(o, Model):
            return o.delitem(self, k)
        raise Unsupported("del item")

    def e_JoinedStr(self, e, env):
        parts = []
        for v in e.values:
            if isinstance(v, ast.Constant):
                parts.append(v.value)
            else:
                x = self.eval(v.value, env)
                if v.format_spec is not None:
                    raise Unsupported("format spec in f-string")
                if v.conversion == ord("r"):
                    parts.append(strmodel.to_repr(self, x))
                else:
                    parts.append(strmodel.to_str(self, x))
        return strmodel.concat(self, parts)

    def e_ListComp(self, e, env):
        # [x for x in <symbolic sequence> if <cond>]: a subsequence of unknown length (contents not modelled)
        if len(e.generators) == 1 and not e.generators[0].is_async and isinstance(e.elt, ast.Name) and isinstance(e.generators[0].target, ast.Name) and e.elt.id == e.generators[0].target.id:
            itv = self.eval(e.generators[0].iter, env)
            if isinstance(itv, SymSeq):
                cenv = Env(env)
                gen = fresh("int", "anyidx")
                self.ctx.assume(z3.And(gen.t >= 0, gen.t < itv.length))
                cenv.vars[e.elt.id] = strmodel.seq_elem(self, itv, gen.t)
                for cnd in e.generators[0].ifs:
                    self.truthy_term(self.eval(cnd, cenv))  # must be evaluable (and cannot raise) on an arbitrary element
                n = fresh("int", "sublen")
                self.ctx.assume(z3.And(n.t >= 0, n.t <= itv.length))
                return SymSeq(itv.elem, z3.Const(f"sub!{next(strmodel._split_ctr)}", itv.arr.sort()), n.t, kind="list")
            return [self.eval(e.elt, c2) for c2 in self._comp_from(itv, e.generators[0], env)]
        return list(self.comp(e, env))

    def _comp_from(self, itv, g, env):
        for x in self.iterate(itv):
            cenv = Env(env)
            self.assign(g.target, x, cenv)
            if all(self.truthy(self.eval(c, cenv), "compif") for c in g.ifs):
                yield cenv

    def e_SetComp(self, e, env):
        return set(self.comp(e, env))

    def e_GeneratorExp(self, e, env):
        return list(self.comp(e, env))

    def e_DictComp(self, e, env):
        out = {}
        for cenv in self.comp_envs(e.generators, env):
            out[self.eval(e.key, cenv)] = self.eval(e.value, cenv)
        return out

    def comp(self, e, env):
        out = []
        for cenv in self.comp_envs(e.generators, env):
            out.append(self.eval(e.elt, cenv))
        return out

    def comp_envs(self, gens, env):
        if not gens:
            yield env
            return
        g = gens[0]
        if g.is_async:
            raise Unsupported("async comprehension")
        it = self.eval(g.iter, env)
        for x in self.iterate(it):
            cenv = Env(env)
            self.assign(g.target, x, cenv)
            if all(self.truthy(self.eval(c, cenv), "compif") for c in g.ifs):
                yield from self.comp_envs(gens[1:], cenv)


class LazyOpt:
    """A value that is either None or a fresh symbolic scalar; decided (forked) only when first inspected."""

    def __init__(self, it, kind, name, constraint=None, concrete=None):
        self.it = it
        self.concrete = concrete
        self.kind = kind
        self.name = name
        self.constraint = constraint
        self.resolved = False
        self.value = None

    def force(self):
        if not self.resolved:
            self.resolved = True
            if self.it.ctx.choose(2, f"{self.name}-is-None") == 1:
                self.value = None
            else:
                self.value = fresh(self.kind, self.name) if self.concrete is None else self.concrete
                if self.constraint is not None and self.concrete is None:
                    self.it.ctx.assume(self.constraint(self.value))
        return self.value

    def __repr__(self):
        return f"<lazyopt {self.name}>"


class LazyLinked:
    """a value that is None exactly when a LazyOpt is None (AvailableConnections.maximum_value vs value)"""

    def __init__(self, master, value):
        self.master = master
        self.value = value

    def force(self):
        return None if self.master.force() is None else self.value


class SuperProxy(Model):
    model_name = "super"

    def __init__(self, selfv, cls):
        super().__init__()
        self.selfv = selfv
        self.cls = cls

    def getattr(self, it, name):
        start = self.selfv.cls if isinstance(self.selfv, Obj) else self.selfv
        if isinstance(self.selfv, Model):
            return self.selfv.super_getattr(it, name, self.cls)
        a, owner = start.lookup(name, after=self.cls)
        if owner is None:
            if name == "__init__":
                return Builtin("object.__init__", lambda i, a, k: None)
            if name == "default_factory":
                return getattr(self.selfv, "default_factory", None)
            it.throw("AttributeError", name)
        if isinstance(self.selfv, ClassVal):
            return a
        return it.bind(a, self.selfv, start)


class PyIter:
    """iter(concrete-sequence) with shared position (next())."""

    def __init__(self, items):
        self.items = list(items)
        self.pos = 0

    def rest(self):
        r = self.items[self.pos :]
        self.pos = len(self.items)
        return r


def unwrap_funcs(v):
    out = []
    seen = set()

    def walk(x):
        if id(x) in seen:
            return
        seen.add(id(x))
        if isinstance(x, Closure):
            out.append(x)
            if x.wrapped is not None:
                walk(x.wrapped)
            # closures captured inside wrapper envs
            e = x.env
            while e is not None and e.parent is not None:
                for y in e.vars.values():
                    if isinstance(y, (Closure, StaticM, ClassM, PropertyVal)):
                        walk(y)
                e = e.parent
        elif isinstance(x, (StaticM, ClassM)):
            walk(x.func)
        elif isinstance(x, PropertyVal):
            walk(x.fget)
            if x.fset:
                walk(x.fset)

    walk(v)
    return out


def assigned_names(stmts):
    names = set()
    for s in stmts:
        for n in ast.walk(s):
            if isinstance(n, ast.Name) and isinstance(n.ctx, (ast.Store, ast.Del)):
                names.add(n.id)
            elif isinstance(n, (ast.FunctionDef, ast.AsyncFunctionDef, ast.ClassDef)):
                names.add(n.name)
    return names


_LOOP_ORD = {}


def loop_ordinal(fn_node, loop_node):
    key = id(fn_node)
    if key not in _LOOP_ORD:
        loops = []

        def walk(n):
            for ch in ast.iter_child_nodes(n):
                if isinstance(ch, (ast.FunctionDef, ast.AsyncFunctionDef, ast.Lambda, ast.ClassDef)):
                    continue
                if isinstance(ch, (ast.For, ast.While, ast.AsyncFor)):
                    loops.append(ch)
                walk(ch)

        walk(fn_node)
        loops.sort(key=lambda n: (n.lineno, n.col_offset))
        _LOOP_ORD[key] = {id(n): i for i, n in enumerate(loops)}
    return _LOOP_ORD[key].get(id(loop_node), -1)


MUTATORS = {"add", "append", "extend", "update", "pop", "remove", "discard", "insert", "clear", "popleft", "setdefault", "reverse", "sort"}


def mutated_names(stmts):
    names = set()
    for s in stmts:
        for n in ast.walk(s):
            if isinstance(n, ast.Call) and isinstance(n.func, ast.Attribute) and isinstance(n.func.value, ast.Name) and n.func.attr in MUTATORS:
                names.add(n.func.value.id)
            elif isinstance(n, (ast.Assign, ast.AugAssign, ast.Delete)):
                tgts = n.targets if isinstance(n, (ast.Assign, ast.Delete)) else [n.target]
                for t in tgts:
                    if isinstance(t, ast.Subscript) and isinstance(t.value, ast.Name):
                        names.add(t.value.id)
    return names


def allow_match(allow, clo):
    for m, q in allow:
        if m == clo.module and (q == clo.qualname or (q.endswith("*") and clo.qualname.startswith(q[:-1]))):
            return True
    return False
