"""Contracts and verification units.

A *contract* belongs to one real function of /repo (module, qualname).  It is used twice:
  * as the specification of the function when that function is the unit under verification
    (assume pre, run the real body symbolically, prove post on every path);
  * as the summary of the function at every call site inside another unit (prove pre, havoc the frame,
    assume post) — a caller never sees a callee body (modular verification).
Clauses are python expression strings evaluated by the same interpreter in *spec mode* (and/or/not build
formulas instead of forking), or python callables for the few clauses that need ghost/model access.
"""
from __future__ import annotations

import ast
import hashlib
import time
import traceback

import z3

from .core import SV, Ctx, PathEnd, PyRaise, Unsupported, explore, fresh, simplify_bool
from .interp import Interp
from .solve import solve_vc
from .values import BoundMethod, Builtin, ClassVal, Closure, Coro, Env, Model, Obj

REGISTRY = {}  # (module, qualname) -> Contract
UNITS = []  # list of Unit


class Clause:
    def __init__(self, name, expr, props=None):
        self.name = name
        self.expr = expr  # str or callable(S) -> bool / z3 Bool
        self.props = props  # None = all properties of the contract


class CallState:
    """What a clause can see: parameters by name, old-values, result / exception, the interpreter."""

    def __init__(self, it, env_vars, contract):
        self.it = it
        self.vars = dict(env_vars)
        self.old = {}
        self.result = None
        self.exc = None
        self.contract = contract
        self.ghost = it.ctx.ghost

    def __getattr__(self, name):
        v = self.__dict__.get("vars", {})
        if name in v:
            return v[name]
        raise AttributeError(name)


class Contract:
    def __init__(self, module, qualname, props=()):
        self.module = module
        self.qualname = qualname
        self.props = list(props)
        self.pre = []
        self.post = []
        self.raises = {}  # exc class name -> [Clause]
        self.any_exit = []  # clauses for every exit (normal or exceptional)
        self.modifies = None  # callable(S) -> list of (obj, field, shape)
        self.result_shape = None  # callable(S) -> value
        self.old_exprs = {}  # name -> str | callable
        self.loops = {}  # ordinal -> LoopSpec
        self.setup = None  # callable(U) -> (args, kwargs) for unit verification
        self.inline = set()  # qualnames (module, qualname) whose bodies are executed inside this unit
        self.uses = []  # contracts of callees (module, qualname)
        self.cancellable = False
        self.assumptions = []
        self.pure = False
        self.may_suspend = False
        self.notes = ""
        self.env_hooks = {}
        self.self_check = True
        self.variants = None
        self.name = qualname
        self.opts = {}
        self.raise_fields = {}  # exc name -> callable(S) -> dict of fields set on the raised exception (summaries)
        self.apply_hook = None  # callable(S): ghost effects of a call when the contract is used as a summary
        self.exit_hook = None  # callable(S, outcome): extra obligations at unit exit (ghost ledgers, Inv)
        self.ok_exceptions = None  # exception class names allowed to escape without a raises clause

    # builder API
    def requires(self, expr, name=None):
        self.pre.append(Clause(name or f"pre{len(self.pre)}", expr))
        return self

    def ensures(self, expr, name=None, props=None):
        self.post.append(Clause(name or f"post{len(self.post)}", expr, props))
        return self

    def raises_(self, exc, expr=None, name=None, props=None):
        self.raises.setdefault(exc, [])
        if expr is not None:
            self.raises[exc].append(Clause(name or f"{exc}{len(self.raises[exc])}", expr, props))
        return self

    def on_every_exit(self, expr, name=None, props=None):
        self.any_exit.append(Clause(name or f"exit{len(self.any_exit)}", expr, props))
        return self

    def old(self, name, expr):
        self.old_exprs[name] = expr
        return self

    def loop(self, ordinal, spec):
        self.loops[ordinal] = spec
        return self


def contract(module, qualname, props=(), name=None):
    c = Contract(module, qualname, props)
    if name:
        c.name = name
    REGISTRY[(module, c.name)] = c
    return c


_EXPR_CACHE = {}


def _parse_expr(expr):
    if expr not in _EXPR_CACHE:
        _EXPR_CACHE[expr] = ast.parse(expr, mode="eval").body
    return _EXPR_CACHE[expr]


# ------------------------------------------------------------------------------------ spec evaluation
SPEC_SHAPE_ERRORS = (KeyError, AttributeError, TypeError, IndexError)


def guarded(what, fn, *args):
    """run a ghost/havoc/exit hook of a contract; a hook that trips over a changed code shape is Unsupported (undecided)"""
    try:
        return fn(*args)
    except SPEC_SHAPE_ERRORS as e:
        import traceback

        tb = traceback.extract_tb(e.__traceback__)[-1]
        raise Unsupported(f"{what} does not apply to this shape of the code ({type(e).__name__}: {e} at {tb.filename.split('/')[-1]}:{tb.lineno})")


class SpecInterp:
    """Evaluate a python expression string to a formula (python bool or z3 Bool) without forking."""

    def __init__(self, it):
        self.it = it

    def formula(self, expr, S, extra=None):
        try:
            return self._formula(expr, S, extra)
        except PyRaise as pr:
            raise Unsupported(f"specification clause {expr!r} raised {pr.exc.cls.name} {pr.exc.fields.get('args')}")
        except SPEC_SHAPE_ERRORS as e:
            # the clause speaks about a local, field or result shape the code no longer has: undecided, not a crash
            raise Unsupported(f"specification clause {getattr(expr, '__name__', expr)!r} does not apply to this shape of the code ({type(e).__name__}: {e})")

    def _formula(self, expr, S, extra=None):
        if callable(expr):
            r = expr(S)
            return self._to_formula(r)
        tree = _parse_expr(expr)
        env = Env(None, dict(S.vars))
        env.vars.update(self.helpers(S))
        env.vars["result"] = S.result
        env.vars["exc"] = S.exc
        for k, v in S.old.items():
            env.vars["old_" + k] = v
        if extra:
            env.vars.update(extra)
        return self._to_formula(self.ev(tree, env))

    def value(self, expr, S, extra=None):
        try:
            return self._value(expr, S, extra)
        except PyRaise as pr:
            raise Unsupported(f"specification expression {expr!r} raised {pr.exc.cls.name} {pr.exc.fields.get('args')}")
        except SPEC_SHAPE_ERRORS as e:
            raise Unsupported(f"specification expression {getattr(expr, '__name__', expr)!r} does not apply to this shape of the code ({type(e).__name__}: {e})")

    def _value(self, expr, S, extra=None):
        if callable(expr):
            return expr(S)
        tree = _parse_expr(expr)
        env = Env(None, dict(S.vars))
        env.vars.update(self.helpers(S))
        if extra:
            env.vars.update(extra)
        return self.ev(tree, env)

    def _to_formula(self, r):
        if isinstance(r, bool):
            return r
        if isinstance(r, SV) and r.k == "bool":
            return r.t
        if z3.is_expr(r):
            return r
        t = self.it.truthy_term(r)
        return t

    def helpers(self, S):
        it = self.it

        def implies(i, a, k):
            p, q = self._to_formula(a[0]), self._to_formula(a[1])
            if p is False or q is True:
                return True
            if p is True:
                return q
            return SV("bool", z3.Implies(p, q if not isinstance(q, bool) else z3.BoolVal(q)))

        def isnone(i, a, k):
            return a[0] is None

        h = {
            "implies": Builtin("implies", implies),
        }
        h.update(it.hooks.get("spec_helpers", {}))
        return h

    def ev(self, e, env):
        it = self.it
        if isinstance(e, ast.BoolOp):
            is_and = isinstance(e.op, ast.And)
            out = []
            for v in e.values:
                # left-to-right; stop as soon as a concrete operand decides (python short-circuit on concrete values)
                f = self._to_formula(self.ev(v, env))
                if isinstance(f, bool):
                    if is_and and not f:
                        return False if not out else SV("bool", z3.And(*out, z3.BoolVal(False)))
                    if not is_and and f:
                        return True if not out else SV("bool", z3.Or(*out, z3.BoolVal(True)))
                    continue
                out.append(f)
            if not out:
                return is_and
            t = (z3.And if is_and else z3.Or)(*out) if len(out) > 1 else out[0]
            return SV("bool", t)
        if isinstance(e, ast.UnaryOp) and isinstance(e.op, ast.Not):
            f = self._to_formula(self.ev(e.operand, env))
            if isinstance(f, bool):
                return not f
            return SV("bool", z3.Not(f))
        if isinstance(e, ast.IfExp):
            c = self._to_formula(self.ev(e.test, env))
            if isinstance(c, bool):
                return self.ev(e.body if c else e.orelse, env)
            a, b = self.ev(e.body, env), self.ev(e.orelse, env)
            from .core import kind_of, term

            if kind_of(a) == "bool" or isinstance(a, bool):
                fa, fb = self._to_formula(a), self._to_formula(b)
                fa = z3.BoolVal(fa) if isinstance(fa, bool) else fa
                fb = z3.BoolVal(fb) if isinstance(fb, bool) else fb
                return SV("bool", z3.If(c, fa, fb))
            return SV(kind_of(a), z3.If(c, term(a), term(b)))
        if isinstance(e, ast.Compare) and len(e.ops) > 1:
            left = self.ev(e.left, env)
            fs = []
            for op, r in zip(e.ops, e.comparators):
                right = self.ev(r, env)
                fs.append(self._to_formula(it.compare(op, left, right)))
                left = right
            fs2 = [f for f in fs if not isinstance(f, bool)]
            if any(f is False for f in fs):
                return False
            if not fs2:
                return True
            return SV("bool", z3.And(*fs2) if len(fs2) > 1 else fs2[0])
        if isinstance(e, ast.Compare):
            return it.compare(e.ops[0], self.ev(e.left, env), self.ev(e.comparators[0], env))
        if isinstance(e, ast.Call) and isinstance(e.func, ast.Name) and e.func.id == "implies" and len(e.args) == 2:
            p = self._to_formula(self.ev(e.args[0], env))
            if p is False:
                return True
            q = self._to_formula(self.ev(e.args[1], env))
            if p is True:
                return q if isinstance(q, bool) else SV("bool", q)
            if q is True:
                return True
            return SV("bool", z3.Implies(p, z3.BoolVal(q) if isinstance(q, bool) else q))
        if isinstance(e, ast.Call):
            f = self.ev(e.func, env)
            args = [self.ev(a, env) for a in e.args]
            kwargs = {k.arg: self.ev(k.value, env) for k in e.keywords}
            return it.call(f, args, kwargs)
        if isinstance(e, ast.Attribute):
            return it.getattr_(self.ev(e.value, env), e.attr)
        if isinstance(e, ast.BinOp):
            return it.binop(e.op, self.ev(e.left, env), self.ev(e.right, env))
        if isinstance(e, ast.Subscript):
            return it.getitem(self.ev(e.value, env), self._idx(e.slice, env))
        if isinstance(e, ast.Tuple):
            return tuple(self.ev(x, env) for x in e.elts)
        if isinstance(e, ast.List):
            return [self.ev(x, env) for x in e.elts]
        return it.eval(e, env)

    def _idx(self, sl, env):
        if isinstance(sl, ast.Slice):
            return slice(
                self.ev(sl.lower, env) if sl.lower is not None else None,
                self.ev(sl.upper, env) if sl.upper is not None else None,
                None,
            )
        return self.ev(sl, env)


# ------------------------------------------------------------------------------------ loops
class LoopSpec:
    def __init__(self, invariants=(), shapes=None, havoc=None, decreases=None, ghost=None):
        self.invariants = [Clause(n, e) for n, e in invariants]
        self.shapes = shapes or {}  # var -> kind for variables that are None/unbound/concrete before the loop
        self.havoc_fn = havoc  # callable(it, env) extra havoc (heap fields, model objects)
        self.decreases = decreases
        self.extra_targets = set()
        self.ghost = ghost  # callable(it, env, phase)
        self.ghost_loop = False
        self.alias = {}  # logical local name used by the clauses -> actual name in the code (Contract.alias_resolver)

    def _S(self, it, env):
        vars = {}
        us = getattr(it.ctx, "unit_state", None)
        if us is not None:
            vars.update(us.vars)
        e = env
        chain = []
        while e is not None:
            chain.append(e)
            e = e.parent
        for e in reversed(chain[:-1] if len(chain) > 1 else chain):
            vars.update(e.vars)
        vars.update(env.vars)
        for logical, actual in self.alias.items():
            if logical != actual:
                if actual in vars:
                    vars[logical] = vars[actual]
                else:
                    vars.pop(logical, None)  # not bound yet: must not fall back to a unit variable of the same name
        S = CallState(it, vars, None)
        return S

    def establish(self, it, env, lname):
        S = self._S(it, env)
        sp = SpecInterp(it)
        if self.ghost_pre(it, env):
            S = self._S(it, env)
        for c in self.invariants:
            it.ctx.check(f"{lname}/inv-init:{c.name}", _b(sp.formula(c.expr, S)))

    def ghost_pre(self, it, env):
        if self.ghost:
            guarded("loop ghost (init)", self.ghost, it, env, "init")
            return True
        return False

    def havoc(self, it, env, targets, lname):
        shapes = {self.alias.get(k, k): v for k, v in self.shapes.items()}
        for name in sorted(set(targets) | self.extra_targets | set(shapes)):
            e = env.find(name)
            shape = shapes.get(name)
            if shape is not None:
                (e or env).vars[name] = shape(it) if callable(shape) else fresh(shape, name)
                continue
            if e is None:
                continue
            v = e.vars[name]
            if isinstance(v, SV):
                e.vars[name] = fresh(v.k, name)
            elif isinstance(v, bool):
                e.vars[name] = fresh("bool", name)
            elif isinstance(v, int):
                e.vars[name] = fresh("int", name)
            elif isinstance(v, float):
                e.vars[name] = fresh("real", name)
            elif isinstance(v, str):
                e.vars[name] = fresh("str", name)
            elif isinstance(v, bytes):
                e.vars[name] = fresh("bytes", name)
            elif isinstance(v, Model) and hasattr(v, "havoc"):
                e.vars[name] = v.havoc(it, name)
            else:
                raise Unsupported(f"loop {lname}: cannot havoc variable {name!r} of type {type(v).__name__}; give a shape")
        if self.havoc_fn:
            guarded("loop havoc", self.havoc_fn, it, env)

    def assume(self, it, env, lname):
        if getattr(self, "ghost_loop", False):
            return  # assumed in assume_ghost, once the ghost split exists
        self._assume(it, env)

    def _assume(self, it, env):
        S = self._S(it, env)
        sp = SpecInterp(it)
        for c in self.invariants:
            it.ctx.assume(_b(sp.formula(c.expr, S)))

    def assume_ghost(self, it, env, lname):
        self._assume(it, env)

    def snapshot(self, it, env):
        if self.decreases is None:
            return None
        S = self._S(it, env)
        return SpecInterp(it).value(self.decreases, S)

    def preserve(self, it, env, lname, snap):
        if self.ghost:
            guarded("loop ghost (step)", self.ghost, it, env, "step")
        if self.ghost_loop:
            env.vars["_done"] = env.vars["_done_next"]
            from .models_path import SeqStr

            st = self.st
            env.vars["_todo"] = SeqStr(z3.SubSeq(st["todo"], 1, z3.Length(st["todo"]) - 1))
        S = self._S(it, env)
        sp = SpecInterp(it)
        for c in self.invariants:
            it.ctx.check(f"{lname}/inv-step:{c.name}", _b(sp.formula(c.expr, S)))
        if self.decreases is not None:
            from .core import as_int

            new = sp.value(self.decreases, S)
            it.ctx.check(f"{lname}/decreases", z3.And(as_int(new) < as_int(snap), as_int(snap) >= 0))


def _b(f):
    if isinstance(f, bool):
        return z3.BoolVal(f)
    return f


# ------------------------------------------------------------------------------------ applying a contract at a call site
def make_applier(c: Contract):
    def applier(it, clo, args, kwargs):
        env = it.bind_args(clo, args, kwargs)

        def run():
            return apply_contract(it, c, dict(env.vars))

        if clo.is_async:
            return Coro(run, name="contract:" + c.qualname)
        return run()

    return applier


def apply_contract(it, c, vars):
    ctx = it.ctx
    S = CallState(it, vars, c)
    sp = SpecInterp(it)
    caller = it.call_stack[-1].qualname if it.call_stack else "<unit>"
    site = f"{caller}/call:{c.qualname}"
    for cl in c.pre:
        ctx.check(f"{site}/pre:{cl.name}", _b(sp.formula(cl.expr, S)))
    for k, e in c.old_exprs.items():
        S.old[k] = sp.value(e, S)
    if c.apply_hook is not None:
        c.apply_hook(S)
    if c.may_suspend:
        it.suspend("call:" + c.qualname)
    outcomes = ["return"] + sorted(k for k in c.raises.keys() if k != "CancelledError")
    idx = ctx.choose(len(outcomes), f"{c.qualname}-outcome") if len(outcomes) > 1 else 0
    if c.modifies is not None:
        for obj, field, shape in c.modifies(S):
            newv = shape(it) if callable(shape) else fresh(shape, field)
            if isinstance(obj, Obj):
                obj.fields[field] = newv
            else:
                obj.setattr(it, field, newv)
    if idx == 0:
        if c.result_shape is not None:
            S.result = c.result_shape(S)
        for cl in c.post + c.any_exit:
            ctx.assume(_b(sp.formula(cl.expr, S)))
        return S.result
    name = outcomes[idx]
    if name == "NoAvailablePort":
        ctx.event("exhausted")
    exc = it.make_exc(_find_exc(it, name))
    if name in c.raise_fields:
        exc.fields.update(c.raise_fields[name](S))
    S.exc = exc
    for cl in c.raises[name] + c.any_exit:
        ctx.assume(_b(sp.formula(cl.expr, S)))
    raise PyRaise(exc)


# ------------------------------------------------------------------------------------ units
class UnitResult:
    def __init__(self, name):
        self.name = name
        self.vcs = []
        self.paths = 0
        self.path_outcomes = {}
        self.unsupported = []
        self.secs_explore = 0.0
        self.secs_solve = 0.0
        self.source_sha = None
        self.loops = 0
        self.awaits = 0
        self.assumptions = set()
        self.error = None
        self.samples = []


class U:
    """helper handed to contract setup functions"""

    def __init__(self, it, c):
        self.it = it
        self.ctx = it.ctx
        self.c = c
        self.mod = {name: m for name, m in it.modules.items()}

    def cls(self, module, name):
        v = self.it.modules[module].attrs
        for part in name.split("."):
            v = v[part] if isinstance(v, dict) else v.attrs[part]
        return v

    def new(self, cls, **fields):
        o = Obj(cls)
        o.fields.update(fields)
        return o

    def int(self, hint="n"):
        return fresh("int", hint)

    def real(self, hint="x"):
        return fresh("real", hint)

    def bool(self, hint="b"):
        return fresh("bool", hint)

    def str(self, hint="s"):
        return fresh("str", hint)

    def bytes(self, hint="b"):
        return fresh("bytes", hint)

    def choose(self, n, label):
        return self.ctx.choose(n, label)

    def assume(self, f):
        self.ctx.assume(f if not isinstance(f, SV) else f.t)


_src_cache = {}


def find_function(it, module, qualname):
    """locate the real function object (outermost decorated value and innermost Closure) by qualname"""
    mod = it.modules[module]
    parts = qualname.split(".")
    v = mod.attrs[parts[0]]
    for p in parts[1:]:
        if p == "<locals>":
            raise Unsupported("nested function lookup needs a setup that creates the closure")
        if isinstance(v, ClassVal):
            v = v.attrs[p]
        else:
            raise Unsupported(f"cannot resolve {qualname}")
    return v


def run_unit(c: Contract, repo, opts=None):
    """Verify function c.(module, qualname) of the tree at `repo` against its contract."""
    opts = opts or {}
    res = UnitResult(f"{c.module}:{c.name}")
    t0 = time.time()
    variants = c.variants or [None]

    def run(ctx):
        hooks = build_hooks(c)
        it = Interp(ctx, repo, hooks=hooks)
        for m in ("aioftp.common", "aioftp.errors", "aioftp.pathio", "aioftp.server", "aioftp.client"):
            it.load_module(m)
        u = U(it, c)
        if c.setup is None:
            raise Unsupported("contract has no setup")
        resolver = getattr(c, "alias_resolver", None)
        if resolver is not None:
            # names of locals the loop contracts speak about are read from the real function's AST (logical -> actual),
            # so that renaming a local is harmless
            import ast as _ast

            last = c.qualname.split(".")[-1]
            nodes = [n for n in _ast.walk(it.modules[c.module].tree) if isinstance(n, (_ast.FunctionDef, _ast.AsyncFunctionDef)) and n.name == last]
            if len(nodes) != 1:
                raise Unsupported(f"{c.qualname}: function not found (or ambiguous) for local-name resolution")
            alias = guarded("local-name resolution", resolver, nodes[0])
            for spec in hooks.get("loops", {}).values():
                spec.alias = dict(alias)
        target, args, kwargs, vars = c.setup(u)
        S = CallState(it, vars, c)
        ctx.unit_state = S
        sp = SpecInterp(it)
        for cl in c.pre:
            ctx.assume(_b(sp.formula(cl.expr, S)))
        ctx.cover(f"{c.qualname}/cover:pre")
        for k, e in c.old_exprs.items():
            S.old[k] = sp.value(e, S)
        it.cancellable = c.cancellable
        u.S = S
        try:
            it._entering_unit = True
            r = it.call(target, args, kwargs)
            it._entering_unit = False
            if isinstance(r, Coro):
                r = it.await_(r)
            S.result = r
            outcome = ("return", r)
        except PyRaise as pr:
            it._entering_unit = False
            S.exc = pr.exc
            outcome = ("raise", pr.exc)
        it.cancellable = False
        if c.exit_hook is not None:
            guarded("exit hook", c.exit_hook, S, outcome)
        if outcome[0] == "return":
            for cl in c.post + c.any_exit:
                ctx.check(f"{c.qualname}/post:{cl.name}", _b(sp.formula(cl.expr, S)), info={"props": cl.props})
            ctx.cover(f"{c.qualname}/cover:return")
        else:
            exc = outcome[1]
            matched = None
            for name in c.raises:
                if exc.cls.is_subclass(it.exc_classes.get(name) or _find_exc(it, name)):
                    if matched is None or _find_exc(it, name).is_subclass(_find_exc(it, matched)):
                        matched = name
            if matched is None:
                ctx.check(f"{c.qualname}/raises:unexpected-{exc.cls.name}", z3.BoolVal(False), info={"exc": exc.cls.name})
            else:
                for cl in c.raises[matched] + c.any_exit:
                    ctx.check(f"{c.qualname}/raises:{matched}:{cl.name}", _b(sp.formula(cl.expr, S)), info={"props": cl.props})
                ctx.cover(f"{c.qualname}/cover:raises-{matched}")
        return outcome

    try:
        o2 = dict(opts)
        o2.update(c.opts)
        results = explore(run, opts=o2)
    except Unsupported as e:
        res.unsupported.append(str(e))
        results = []
    except Exception:
        res.error = traceback.format_exc()
        results = []
    res.secs_explore = time.time() - t0
    for ctx, out in results:
        res.paths += 1
        res.path_outcomes[out[0]] = res.path_outcomes.get(out[0], 0) + 1
        if out[0] == "unsupported":
            res.unsupported.append(out[1] + " @ " + ctx.path_sig())
        if out[0] == "end" and str(out[1]).startswith("obligation syntactically false"):
            pass
        res.assumptions |= ctx.assumptions_used
        res.vcs.extend(ctx.vcs)
    return res


def _find_exc(it, name):
    if name in it.exc_classes:
        return it.exc_classes[name]
    for m in it.modules.values():
        v = m.attrs.get(name)
        if isinstance(v, ClassVal):
            return v
    raise Unsupported("unknown exception class in contract: " + name)


def build_hooks(c: Contract):
    hooks = {}
    contracts = {}
    for key in c.uses:
        cc = REGISTRY.get(key)
        if cc is None:
            raise Unsupported(f"contract {key} used by {c.qualname} is not defined")
        contracts[(cc.module, cc.qualname)] = make_applier(cc)
    hooks["contracts"] = contracts
    hooks["loops"] = {(c.module, q, o): spec for (q, o), spec in c.loops.items()} if c.loops and isinstance(next(iter(c.loops)), tuple) else {
        (c.module, c.qualname, o): spec for o, spec in c.loops.items()
    }
    hooks["unit_qualname"] = (c.module, c.qualname)
    hooks.update(c.env_hooks)
    return hooks


def solve_all(res: UnitResult, budget_s=30.0, both=False, par=4):
    t0 = time.time()
    from .solve import solve_many

    solve_many(res.vcs, budget_s=budget_s, both=both, par=par)
    from .solve import sliced_retry, strengthened_retry

    strengthened_retry(res.vcs)
    sliced_retry(res.vcs)
    res.secs_solve = time.time() - t0
    return res
