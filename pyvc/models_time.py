"""time / datetime / calendar / re models (T-time).  Calendar arithmetic is the proleptic Gregorian day-number closed
form (DESIGN.md 3.2).  Formatted dates are abstract values (DateStr) carrying their fields: strftime/strptime with the
four format strings of the tree are assumed mutually inverse on the fields they print; an arbitrary string parses to
ValueError or to some valid date."""
from __future__ import annotations

import z3

from .core import SV, PyRaise, Unsupported, as_int, as_real, fresh, term
from .values import Builtin, ClassVal, Model, ModuleVal, Obj, Opaque

CUM = [0, 31, 59, 90, 120, 151, 181, 212, 243, 273, 304, 334]


def isleap_t(y):
    return z3.And(y % 4 == 0, z3.Or(y % 100 != 0, y % 400 == 0))


def cum(m):
    e = z3.IntVal(CUM[11])
    for i in range(10, -1, -1):
        e = z3.If(m == i + 1, z3.IntVal(CUM[i]), e)
    return e


def dim(y, m):
    return z3.If(m == 2, z3.If(isleap_t(y), 29, 28), z3.If(z3.Or(m == 4, m == 6, m == 9, m == 11), 30, 31))


def days(y, m, d):
    y1 = y - 1
    return 365 * y1 + y1 / 4 - y1 / 100 + y1 / 400 + cum(m) + z3.If(z3.And(m > 2, isleap_t(y)), 1, 0) + d


def E(f):
    """seconds on the local civil time line (integer part)"""
    return 86400 * days(f["Y"], f["M"], f["D"]) + 3600 * f["h"] + 60 * f["mi"] + f["s"]


def valid(f, ymin=1, ymax=9999):
    return z3.And(
        ymin <= f["Y"], f["Y"] <= ymax, 1 <= f["M"], f["M"] <= 12, 1 <= f["D"], f["D"] <= dim(f["Y"], f["M"]),
        0 <= f["h"], f["h"] < 24, 0 <= f["mi"], f["mi"] < 60, 0 <= f["s"], f["s"] < 60,
    )


def fresh_fields(tag):
    return {k: fresh("int", f"{tag}_{k}").t for k in ("Y", "M", "D", "h", "mi", "s")}


class StructTime(Model):
    model_name = "struct_time"

    def __init__(self, zone, fields, secs=None):
        super().__init__()
        self.zone = zone
        self.f = fields
        self.secs = secs


class DateStr(Model):
    """a formatted date: kind in {'minute' (%b %e %H:%M), 'day' (%b %e  %Y), 'stamp' (%Y%m%d%H%M%S), 'stamp00'}"""

    model_name = "datestr"
    isa = ("str",)

    def __init__(self, kind, fields):
        super().__init__()
        self.kind = kind
        self.f = fields

    def getattr(self, it, name):
        if name == "startswith":

            def sw(i, a, k):
                if a[0] == "Feb 29" and self.kind in ("minute", "day"):
                    return i.mk_bool(z3.And(self.f["M"] == 2, self.f["D"] == 29))
                raise Unsupported("DateStr.startswith(" + repr(a[0]) + ")")

            return Builtin("datestr.startswith", sw)
        if name == "strip":
            return Builtin("datestr.strip", lambda i, a, k: self)
        raise Unsupported("DateStr." + name)

    def to_str(self, it):
        return self

    def as_sv(self):
        """the text of the formatted date as an (uninterpreted) function of the fields it prints"""
        keys = {"minute": ("M", "D", "h", "mi"), "day": ("Y", "M", "D"), "stamp": ("Y", "M", "D", "h", "mi", "s"), "stamp00": ("Y", "M", "D", "h", "mi")}[self.kind]
        f = z3.Function("datestr_" + self.kind, *([z3.IntSort()] * len(keys) + [z3.StringSort()]))
        return SV("str", f(*[self.f[k] for k in keys]))

    def eq(self, it, other):
        if isinstance(other, DateStr) and other.kind == self.kind:
            keys = {"minute": ("M", "D", "h", "mi"), "day": ("Y", "M", "D"), "stamp": ("Y", "M", "D", "h", "mi", "s"), "stamp00": ("Y", "M", "D", "h", "mi")}[self.kind]
            return z3.And(*[self.f[k] == other.f[k] for k in keys])
        return False


class DateTimeModel(Model):
    model_name = "datetime"

    def __init__(self, fields, frac=None):
        super().__init__()
        self.f = fields
        self.frac = frac if frac is not None else z3.RealVal(0)

    def getattr(self, it, name):
        if name == "year":
            return SV("int", self.f["Y"])
        if name == "replace":

            def replace(i, a, k):
                if set(k) != {"year"}:
                    raise Unsupported("datetime.replace with " + repr(sorted(k)))
                y = as_int(k["year"])
                ok = z3.And(y >= 1, y <= 9999, z3.Or(z3.Not(z3.And(self.f["M"] == 2, self.f["D"] == 29)), isleap_t(y)))
                if not i.ctx.branch(ok, "replace-year-valid"):
                    i.throw("ValueError", "day is out of range for month / year out of range")
                nf = dict(self.f)
                nf["Y"] = y
                return DateTimeModel(nf, self.frac)

            return Builtin("datetime.replace", replace)
        if name == "strftime":

            def strftime(i, a, k):
                if a[0] == "%Y%m%d%H%M00":
                    return DateStr("stamp00", self.f)
                raise Unsupported("datetime.strftime(" + repr(a[0]) + ")")

            return Builtin("datetime.strftime", strftime)
        raise Unsupported("datetime." + name)

    def m___sub__(self, it, other):
        if isinstance(other, DateTimeModel):
            return TimeDeltaModel(z3.ToReal(E(self.f) - E(other.f)) + self.frac - other.frac)
        raise Unsupported("datetime - " + type(other).__name__)


class TimeDeltaModel(Model):
    model_name = "timedelta"

    def __init__(self, secs):
        super().__init__()
        self.secs = secs

    def getattr(self, it, name):
        if name == "total_seconds":
            return Builtin("timedelta.total_seconds", lambda i, a, k: SV("real", self.secs))
        raise Unsupported("timedelta." + name)


class YearPrefixed(Model):
    """f"{year} {s}" for a DateStr s (parse_ls_date's Feb-29 branch)"""

    model_name = "yearprefixed"

    def __init__(self, year, inner):
        super().__init__()
        self.year = year
        self.inner = inner


FORMATS = {
    "%b %d %H:%M": ("minute", ("M", "D", "h", "mi")),
    "%Y %b %d %H:%M": ("yminute", ("Y", "M", "D", "h", "mi")),
    "%b %d  %Y": ("day", ("Y", "M", "D")),
    "%m/%d/%Y %I:%M %p": ("win", ("Y", "M", "D", "h", "mi")),
}


def install(it):
    mm = it.model_modules

    def t_time(i, a, k):
        g = i.ctx.ghost
        if "walltime" in g:
            return g["walltime"]
        r = fresh("real", "walltime")
        i.ctx.assume(r.t >= 0)
        return r

    def civil_of(i, x, zone):
        """fields of a timestamp: known when the contract registered them (ghost), otherwise some valid date"""
        g = i.ctx.ghost.get("civil", [])
        t = term(x)
        for tt, fields in g:
            if tt.eq(t):
                return fields
        f = fresh_fields("tm")
        i.ctx.assume(valid(f, 1, 9999))
        return f

    def gmtime(i, a, k):
        return StructTime("utc", civil_of(i, a[0], "utc"), a[0])

    def localtime(i, a, k):
        return StructTime("local", civil_of(i, a[0], "local"), a[0])

    f_strftime = z3.Function("py_strftime", z3.StringSort(), z3.BoolSort(), z3.RealSort(), z3.StringSort())

    def strftime(i, a, k):
        fmt, st = a[0], a[1]
        if isinstance(fmt, str) and fmt == "%b %e %H:%M":
            return DateStr("minute", st.f)
        if isinstance(fmt, str) and fmt == "%b %e  %Y":
            return DateStr("day", st.f)
        secs = st.secs if st.secs is not None else fresh("real", "secs")
        r = f_strftime(term(fmt), z3.BoolVal(st.zone == "utc"), as_real(secs))
        if isinstance(fmt, str) and fmt == "%Y%m%d%H%M%S":
            # T-time: an all-numeric format yields digits only
            i.ctx.assume(z3.InRe(r, z3.Plus(z3.Range("0", "9"))))
        return SV("str", r)

    mm["time"] = ModuleVal(
        "time",
        {
            "time": Builtin("time.time", t_time),
            "gmtime": Builtin("time.gmtime", gmtime),
            "localtime": Builtin("time.localtime", localtime),
            "strftime": Builtin("time.strftime", strftime),
        },
    )

    # ------------------------------------------------------------------ datetime.datetime
    def strptime(i, a, k):
        s, fmt = a[0], a[1]
        if not isinstance(fmt, str) or fmt not in FORMATS:
            raise Unsupported("strptime format " + repr(fmt))
        kind, keys = FORMATS[fmt]
        if isinstance(s, DateStr):
            # T-time: the year-less and the year form reject each other; matching forms give the printed fields back
            if (s.kind, kind) in (("minute", "minute"), ("day", "day")):
                f = {"Y": z3.IntVal(1900), "s": z3.IntVal(0), "h": z3.IntVal(0), "mi": z3.IntVal(0)}
                for kk in keys:
                    f[kk] = s.f[kk]
                if kind == "minute":
                    # "Feb 29" without a year: strptime uses 1900 (not a leap year) -> ValueError
                    if not i.ctx.branch(z3.Not(z3.And(s.f["M"] == 2, s.f["D"] == 29)), "strptime-feb29-1900"):
                        i.throw("ValueError", "day is out of range for month")
                return DateTimeModel(f)
            i.throw("ValueError", "time data does not match format")
        if isinstance(s, YearPrefixed):
            if kind == "yminute" and s.inner.kind == "minute":
                f = dict(s.inner.f)
                f["Y"] = as_int(s.year)
                f["s"] = z3.IntVal(0)
                ok = z3.And(f["Y"] >= 1, f["Y"] <= 9999, f["D"] <= dim(f["Y"], f["M"]))
                if not i.ctx.branch(ok, "strptime-valid"):
                    i.throw("ValueError", "day is out of range for month")
                return DateTimeModel(f)
            i.throw("ValueError", "time data does not match format")
        # an arbitrary string: rejected, or some valid date (exception-set contracts only)
        if i.ctx.choose(2, "strptime-outcome") == 1:
            i.throw("ValueError", "time data does not match format")
        f = fresh_fields("parsed")
        i.ctx.assume(valid(f, 1, 9999))
        if "Y" not in keys:
            i.ctx.assume(f["Y"] == 1900)
            i.ctx.assume(z3.Not(z3.And(f["M"] == 2, f["D"] == 29)))
        return DateTimeModel(f)

    def dt_now(i, a, k):
        g = i.ctx.ghost
        if "client_now" in g:
            return g["client_now"]
        f = fresh_fields("now")
        i.ctx.assume(valid(f, 1, 9999))
        fr = fresh("real", "now_frac")
        i.ctx.assume(z3.And(fr.t >= 0, fr.t < 1))
        return DateTimeModel(f, fr.t)

    dt_cls = ModuleVal("datetime.datetime", {"strptime": Builtin("datetime.strptime", strptime), "now": Builtin("datetime.now", dt_now)})
    mm["datetime"] = ModuleVal("datetime", {"datetime": dt_cls})

    def isleap(i, a, k):
        y = a[0]
        if isinstance(y, int):
            import calendar

            return calendar.isleap(y)
        return i.mk_bool(isleap_t(as_int(y)))

    mm["calendar"] = ModuleVal("calendar", {"isleap": Builtin("calendar.isleap", isleap)})

    # ------------------------------------------------------------------ re (the two patterns of the tree)
    class MatchModel(Model):
        model_name = "match"

        def __init__(self, text):
            super().__init__()
            self.text = text

        def getattr(self, it2, name):
            if name == "group":
                return Builtin("match.group", lambda i, a, k: self.text)
            raise Unsupported("match." + name)

    def finditer(i, a, k):
        pat = a[0]
        if pat != r"\((.)\1\1\d+\1\)":
            raise Unsupported("re.finditer pattern " + repr(pat))
        # assumed contract of the regular expression: each match is "(" c c c digits+ c ")"
        n = i.ctx.choose(3, "epsv-matches")  # 0, 1 or 2 matches (the code uses only the last one)
        out = []
        for j in range(n):
            c = fresh("str", "delim")
            d = fresh("str", "digits")
            i.ctx.assume(z3.Length(c.t) == 1)
            i.ctx.assume(z3.InRe(d.t, z3.Plus(z3.Range("0", "9"))))
            out.append(MatchModel(SV("str", z3.Concat(z3.StringVal("("), c.t, c.t, c.t, d.t, c.t, z3.StringVal(")")))))
        return out

    def findall(i, a, k):
        pat = a[0]
        if pat != r"[^(]*\(([^)]*)":
            raise Unsupported("re.findall pattern " + repr(pat))
        n = i.ctx.choose(3, "pasv-matches")
        out = []
        for j in range(n):
            g = fresh("str", "group")
            i.ctx.assume(z3.Not(z3.Contains(g.t, z3.StringVal(")"))))
            out.append(g)
        return out

    mm["re"] = ModuleVal("re", {"finditer": Builtin("re.finditer", finditer), "findall": Builtin("re.findall", findall)})
