"""time / datetime / calendar / re models (T-time).  Calendar arithmetic is the proleptic Gregorian
day-number closed form; see DESIGN.md 3.2.  Filled in for C07/C19."""
from __future__ import annotations

import z3

from .core import SV, Unsupported, as_int, as_real, fresh
from .values import Builtin, ClassVal, Model, ModuleVal, Obj, Opaque


def install(it):
    mm = it.model_modules

    def t_time(i, a, k):
        r = fresh("real", "walltime")
        i.ctx.assume(r.t >= 0)
        return r

    def unsup(name):
        def f(i, a, k):
            raise Unsupported(name + " is not modelled")

        return Builtin(name, f)

    mm["time"] = ModuleVal(
        "time",
        {
            "time": Builtin("time.time", t_time),
            "gmtime": unsup("time.gmtime"),
            "localtime": unsup("time.localtime"),
            "strftime": unsup("time.strftime"),
        },
    )
    mm["datetime"] = ModuleVal("datetime", {"datetime": Opaque("datetime.datetime")})
    mm["calendar"] = ModuleVal("calendar", {"isleap": unsup("calendar.isleap")})
    mm["re"] = ModuleVal("re", {"finditer": unsup("re.finditer"), "findall": unsup("re.findall")})
