"""time / datetime / calendar / re models (T-time).  Calendar arithmetic is the proleptic Gregorian
day-number closed form; see DESIGN.md 3.2.  Filled in for C07/C19."""
from __future__ import annotations

import z3

from .core import SV, Unsupported, as_int, as_real, fresh
from .values import Builtin, ClassVal, Model, ModuleVal, Obj, Opaque


def install(it):
    mm = it.model_modules

    def t_time(i, a, k):
        r = fresh("real", "walltime")
        i.ctx.assume(r.t >= 0)
        return r

    def unsup(name):
        def f(i, a, k):
            raise Unsupported(name + " is not modelled")

        return Builtin(name, f)

    class StructTime(Model):
        model_name = "struct_time"

        def __init__(self, zone, secs):
            super().__init__()
            self.zone = zone
            self.secs = secs

    f_strftime = z3.Function("py_strftime", z3.StringSort(), z3.BoolSort(), z3.RealSort(), z3.StringSort())

    def gmtime(i, a, k):
        return StructTime("utc", a[0])

    def localtime(i, a, k):
        return StructTime("local", a[0])

    def strftime(i, a, k):
        fmt, st = a[0], a[1]
        from .core import term

        r = f_strftime(term(fmt), z3.BoolVal(st.zone == "utc"), as_real(st.secs))
        if isinstance(fmt, str) and fmt == "%Y%m%d%H%M%S":
            # T-time: an all-numeric format yields digits only
            i.ctx.assume(z3.InRe(r, z3.Plus(z3.Range("0", "9"))))
        return SV("str", r)

    mm["time"] = ModuleVal(
        "time",
        {
            "time": Builtin("time.time", t_time),
            "gmtime": Builtin("time.gmtime", gmtime),
            "localtime": Builtin("time.localtime", localtime),
            "strftime": Builtin("time.strftime", strftime),
        },
    )
    mm["datetime"] = ModuleVal("datetime", {"datetime": Opaque("datetime.datetime")})
    mm["calendar"] = ModuleVal("calendar", {"isleap": unsup("calendar.isleap")})
    mm["re"] = ModuleVal("re", {"finditer": unsup("re.finditer"), "findall": unsup("re.findall")})
