"""Lists of objects of unknown length (ObjSeq) and the assumed contracts of `filter` / `min(key=, default=)` over them.

An ObjSeq has a symbolic length n >= 0 and one z3 array per field; `elem(i)` materialises the i-th element as an
object whose fields are the arrays read at i.  T-py (assumed contract of the builtins, stated here once):
  filter(f, xs)                      the elements of xs, in order, for which f(x) is true
  min(ys, key=g, default=d)          d when ys is empty, otherwise the first element of ys whose key is minimal
The element predicate f and the key g are evaluated ONCE, on a generic element x_j (j a fresh index); their results are
turned into formulas in j and instantiated for the bound variable of the quantified facts.  This is only sound when the
evaluation does not fork (f and g are used through summaries / straight-line code): a fork during it is Unsupported."""
from __future__ import annotations

import itertools

import z3

from .core import SV, Unsupported, as_int, fresh
from .values import Model

_ctr = itertools.count()


class ObjSeq(Model):
    model_name = "objseq"

    def __init__(self, tag, make_elem):
        super().__init__()
        self.tag = tag
        self.n = z3.Int(f"{tag}_len!{next(_ctr)}")
        self.make_elem = make_elem  # (it, index term) -> object
        self.cache = {}

    def elem(self, it, idx):
        key = idx.get_id()
        if key not in self.cache:
            self.cache[key] = self.make_elem(it, idx)
            if not isinstance(self.cache[key], tuple):  # (elements that are tuples carry the index in their members)
                self.cache[key].seq_index = idx
                self.cache[key].seq_of = self
        return self.cache[key]

    def truthy(self, it):
        return it.ctx.branch(self.n > 0, f"{self.tag}-nonempty")


class Filtered(Model):
    model_name = "filtered"

    def __init__(self, seq, pred):
        super().__init__()
        self.seq, self.pred = seq, pred


def _no_fork(it, what, fn):
    before = len(getattr(it.ctx, "alternatives", []) or [])
    r = fn()
    after = len(getattr(it.ctx, "alternatives", []) or [])
    if after != before:
        raise Unsupported(f"{what} forks on a generic element of a list of unknown length (use it through a summary)")
    return r


def min_filtered(it, flt, key, kwargs):
    """min(filter(pred, xs), key=key, default=d) for xs of unknown length"""
    if key is None:
        raise Unsupported("min over a list of objects without key=")
    seq = flt.seq
    ctx = ctx_ = it.ctx
    ctx.assume(seq.n >= 0)
    j = z3.Int(f"{seq.tag}_argmin!{next(_ctr)}")
    e = seq.elem(it, j)
    phi_j = _no_fork(it, "filter predicate", lambda: it.truthy_term(it.call(flt.pred, [e], {})))
    phi_j = z3.BoolVal(phi_j) if isinstance(phi_j, bool) else (phi_j.t if isinstance(phi_j, SV) else phi_j)
    i = z3.Int(f"{seq.tag}_i!{next(_ctr)}")

    def at(term, idx):
        return z3.substitute(term, (j, idx))

    found = ctx.choose(2, f"min-over-filter({seq.tag})-nonempty") == 0
    if not found:
        ctx.assume(z3.ForAll([i], z3.Implies(z3.And(i >= 0, i < seq.n), z3.Not(at(phi_j, i)))))
        if "default" in kwargs:
            return kwargs["default"]
        it.throw("ValueError", "min() arg is an empty sequence")
    ctx.assume(z3.And(j >= 0, j < seq.n, phi_j))
    kap_j = _no_fork(it, "min key", lambda: as_int(it.call(key, [e], {})))
    ctx.assume(
        z3.ForAll(
            [i],
            z3.Implies(z3.And(i >= 0, i < seq.n, at(phi_j, i)), z3.And(kap_j <= at(kap_j, i), z3.Implies(i < j, kap_j < at(kap_j, i)))),
        )
    )
    e.min_key = kap_j
    return e


def _for_loop(self, it, spec, lname, env, qual, s):
    """for x in <ObjSeq>: cut by the loop invariant of `spec`; the ghost index `_i` counts the elements consumed
    (the element bound in an iteration is elem(_i - 1) after the increment, as in strmodel.for_symseq)"""
    if spec is None:
        raise Unsupported(f"loop {lname} over a list of unknown length needs an invariant")
    idx_name = getattr(spec, "index", None) or "_i"
    env.vars[idx_name] = 0
    it.ctx.assume(self.n >= 0)

    def cond():
        i = env.vars[idx_name]
        return it.ctx.branch(as_int(i) < self.n, f"for@{lname}")

    def pre_body():
        i = env.vars[idx_name]
        e = self.elem(it, z3.simplify(as_int(i)))
        it.ctx.event("seq.next", self, e)
        it.assign(s.target, e, env)
        env.vars[idx_name] = SV("int", z3.simplify(as_int(i) + 1))

    spec.extra_targets = {idx_name}
    spec.seq = self
    user_havoc = spec.havoc_fn

    def havoc_and_bound(it2, env2):
        i = env2.vars[idx_name]
        it2.ctx.assume(z3.And(as_int(i) >= 0, as_int(i) <= self.n))
        if user_havoc:
            user_havoc(it2, env2)

    spec.havoc_fn = havoc_and_bound
    try:
        it.inv_loop(spec, lname, env, qual, s, cond, pre_body)
    finally:
        spec.havoc_fn = user_havoc


ObjSeq.for_loop = _for_loop


def cond_opt(it, present, value, name):
    """an Optional value whose None-ness is the z3 Bool `present` (element fields of an ObjSeq); like interp.LazyOpt it
    is decided only when first inspected, but the fork is on `present`, so quantified facts about the list constrain it"""
    from .interp import LazyOpt

    class CondOpt(LazyOpt):
        def force(self):
            if not self.resolved:
                self.resolved = True
                self.value = value if it.ctx.branch(present, f"{name}-present") else None
            return self.value

    return CondOpt(it, value.k, name)
