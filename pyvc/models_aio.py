"""asyncio model (assumed contracts T-aio, DESIGN.md 3.1)."""
from __future__ import annotations

import z3

from .core import SV, PathEnd, PyRaise, Unsupported, as_int, as_real, fresh, kind_of, term
from .values import (
    BoundMethod,
    Builtin,
    ClassVal,
    Closure,
    Coro,
    EnumMember,
    Model,
    ModuleVal,
    Obj,
    Opaque,
    Partial,
    SymSeq,
)


def clock(it):
    g = it.ctx.ghost
    if "clock" not in g:
        g["clock"] = fresh("real", "clock")
    return g["clock"]


def advance_clock(it, at_least=None):
    """time passes: new clock >= old (+ at_least)"""
    old = clock(it)
    new = fresh("real", "clock")
    lo = old.t if at_least is None else old.t + at_least
    it.ctx.assume(new.t >= lo)
    it.ctx.ghost["clock"] = new
    return old, new


class LoopModel(Model):
    model_name = "loop"

    def getattr(self, it, name):
        if name == "time":
            return Builtin("loop.time", lambda i, a, k: clock(i))
        if name == "is_closed":

            def is_closed(i, a, k):
                g = i.ctx.ghost
                if "loop_closed" not in g:
                    g["loop_closed"] = fresh("bool", "loop_closed")
                return g["loop_closed"]

            return Builtin("loop.is_closed", is_closed)
        if name == "run_in_executor":

            def rie(i, a, k):
                fn = a[1]

                def run():
                    i.suspend("run_in_executor")
                    r = i.call(fn, [], {})
                    return r

                return Coro(run, "run_in_executor")

            return Builtin("loop.run_in_executor", rie)
        raise Unsupported("loop." + name)


class FutureModel(Model):
    """asyncio.Future as used by Connection: done flag + value (both possibly symbolic)."""

    model_name = "future"
    isa = ("Future",)

    def __init__(self, done=False, value=None, tag=None):
        super().__init__()
        self.done = done  # python bool or z3 Bool
        self.value = value
        self.tag = tag

    def done_term(self):
        return self.done

    def getattr(self, it, name):
        if name == "done":
            return Builtin("future.done", lambda i, a, k: i.mk_bool(self.done))
        if name == "result":

            def result(i, a, k):
                if not i.ctx.branch(self.done, "fut-done") if not isinstance(self.done, bool) else not self.done:
                    i.throw("InvalidStateError", "Result is not set.")
                self.done = True
                return self.value

            return Builtin("future.result", result)
        if name == "set_result":

            def set_result(i, a, k):
                if isinstance(self.done, bool):
                    d = self.done
                else:
                    d = i.ctx.branch(self.done, "fut-done")
                if d:
                    i.throw("InvalidStateError", "invalid state")
                self.done = True
                self.value = a[0]

            return Builtin("future.set_result", set_result)
        if name == "cancel":
            return Builtin("future.cancel", lambda i, a, k: True)
        raise Unsupported("Future." + name)

    def __repr__(self):
        return f"<future {self.tag} done={self.done}>"


class GatherModel(Model):
    model_name = "gather"

    def __init__(self, futs):
        super().__init__()
        self.futs = futs


class ShieldModel(Model):
    model_name = "shield"

    def __init__(self, inner):
        super().__init__()
        self.inner = inner


class TaskModel(Model):
    model_name = "task"
    isa = ("Task",)
    count = 0

    def __init__(self, coro=None, tag=None):
        super().__init__()
        self.coro = coro
        self.tag = tag
        self.state = "new"  # new | done
        self.result_v = None
        self.exc = None
        self.cancel_requested = False

    def run(self, it):
        if self.state == "done":
            return
        self.state = "done"
        if self.coro is None:
            return
        saved = it.cancellable
        try:
            self.result_v = it.await_(self.coro)
        except PyRaise as pr:
            self.exc = pr.exc
        finally:
            it.cancellable = saved

    def getattr(self, it, name):
        if name == "cancel":

            def cancel(i, a, k):
                self.cancel_requested = True
                i.ctx.event("task.cancel", self)
                return True

            return Builtin("task.cancel", cancel)
        if name == "result":

            def result(i, a, k):
                if self.exc is not None:
                    raise PyRaise(self.exc)
                return self.result_v

            return Builtin("task.result", result)
        if name == "done":
            return Builtin("task.done", lambda i, a, k: self.state == "done")
        raise Unsupported("Task." + name)

    def __repr__(self):
        return f"<task {self.tag}>"


class QueueModel(Model):
    """asyncio.Queue (FIFO, unbounded) holding a concrete python list of items; every put is also a ghost
    event so that contracts can speak about the sequence of replies."""

    model_name = "queue"

    def __init__(self, tag="queue"):
        super().__init__()
        self.items = []
        self.tag = tag

    def getattr(self, it, name):
        if name == "put_nowait":

            def put(i, a, k):
                self.items.append(a[0])
                i.ctx.event("put", self.tag, a[0])

            return Builtin("queue.put_nowait", put)
        if name == "join":

            def join(i, a, k):
                def run():
                    i.suspend("queue.join")
                    i.ctx.event("join", self.tag)

                return Coro(run, "queue.join")

            return Builtin("queue.join", join)
        if name == "get":

            def get(i, a, k):
                def run():
                    i.suspend("queue.get")
                    if self.items:
                        return self.items.pop(0)
                    hook = i.hooks.get("queue_get")
                    if hook:
                        return hook(i, self)
                    raise PathEnd("queue.get blocks forever on an empty queue")

                return Coro(run, "queue.get")

            return Builtin("queue.get", get)
        if name == "task_done":
            return Builtin("queue.task_done", lambda i, a, k: i.ctx.event("task_done", self.tag))
        if name == "qsize":
            return Builtin("queue.qsize", lambda i, a, k: len(self.items))
        raise Unsupported("Queue." + name)


class PortPool(Model):
    """asyncio.PriorityQueue of (priority, port): ghost multiset  cnt: port -> multiplicity, plus size.
    get_nowait removes *some* queued element (the minimum in CPython; the contract only needs 'some')."""

    model_name = "portpool"

    def __init__(self, cnt=None, size=None):
        super().__init__()
        self.cnt = cnt if cnt is not None else z3.K(z3.IntSort(), z3.IntVal(0))
        self.size = size if size is not None else z3.IntVal(0)
        self.inflight = None  # ghost: port taken by the running task and neither put back nor registered yet

    def getattr(self, it, name):
        if name == "put_nowait":

            def put(i, a, k):
                prio, port = i.iterate(a[0])
                p = as_int(port)
                self.cnt = z3.Store(self.cnt, p, self.cnt[p] + 1)
                self.size = z3.simplify(self.size + 1)
                if self.inflight is not None and self.inflight is port:
                    self.inflight = None
                i.ctx.event("pool.put", port)

            return Builtin("pool.put_nowait", put)
        if name == "get_nowait":

            def get(i, a, k):
                if not i.ctx.branch(self.size > 0, "pool-nonempty"):
                    i.throw("QueueEmpty")
                prio = fresh("int", "prio")
                port = fresh("int", "port")
                i.ctx.assume(self.cnt[port.t] > 0)
                i.ctx.assume(prio.t >= 0)
                self.cnt = z3.Store(self.cnt, port.t, self.cnt[port.t] - 1)
                self.size = z3.simplify(self.size - 1)
                if self.inflight is not None:
                    i.ctx.check("pool/second-port-taken-while-one-is-in-flight", z3.BoolVal(False), info={"props": ["C11"]})
                self.inflight = port
                i.ctx.event("pool.get", port)
                return (prio, port)

            return Builtin("pool.get_nowait", get)
        if name == "qsize":
            return Builtin("pool.qsize", lambda i, a, k: SV("int", self.size))
        raise Unsupported("PriorityQueue." + name)


class ListenerModel(Model):
    """asyncio.Server (a listening socket)."""

    model_name = "listener"

    def __init__(self, port, callback=None, tag=None):
        super().__init__()
        self.port = port
        self.callback = callback
        self.closed = False
        self.tag = tag

    def getattr(self, it, name):
        if name == "close":

            def close(i, a, k):
                self.closed = True
                i.ctx.event("listener.close", self)

            return Builtin("listener.close", close)
        if name == "sockets":
            hook = it.hooks.get("listener_sockets")
            if hook:
                return hook(it, self)
            raise Unsupported("listener.sockets")
        if name == "wait_closed":
            def wc(i, a, k):
                def run():
                    i.suspend("wait_closed")
                return Coro(run, "wait_closed")
            return Builtin("listener.wait_closed", wc)
        raise Unsupported("asyncio.Server." + name)

    def __repr__(self):
        return f"<listener {self.tag} port={self.port}>"


def install(it):
    mm = it.model_modules
    loop = LoopModel()

    def sleep(i, a, k):
        d = a[0]

        def run():
            old = clock(i)
            i.suspend("sleep")
            dr = as_real(d)
            lo = z3.If(dr > 0, dr, z3.RealVal(0))
            new = fresh("real", "clock")
            i.ctx.assume(new.t >= old.t + lo)
            cur = i.ctx.ghost.get("clock")
            i.ctx.ghost["clock"] = new
            i.ctx.ghost.setdefault("slept", []).append((d, old, new))
            i.ctx.event("sleep", d)
            return a[1] if len(a) > 1 else None

        return Coro(run, "sleep")

    def wait_for(i, a, k):
        aw = a[0]
        timeout = i.unbox(a[1] if len(a) > 1 else k.get("timeout"))

        def run():
            if timeout is None:
                return await_any(i, aw)
            i.ctx.event("wait_for", timeout)
            # guard futures: wait_for(shield(gather(*futs)), t)
            if isinstance(aw, ShieldModel) and isinstance(aw.inner, GatherModel):
                futs = aw.inner.futs
                i.suspend("wait_for(gather)")
                c = i.ctx.choose(2, "wait_for-outcome")
                if c == 0:
                    # normal return: every awaited future is done (3.1)
                    for f in futs:
                        if isinstance(f.done, bool):
                            if not f.done:
                                raise PathEnd("wait_for returned but a future is concretely pending")
                        else:
                            i.ctx.assume(f.done)
                    return [f.value for f in futs]
                i.throw("TimeoutError")
            scope = {"timeout": timeout}
            # a zero/negative timeout still lets the awaitable run until its first suspension
            i.cancel_scopes.append(scope)
            try:
                return await_any(i, aw)
            except PyRaise as pr:
                if pr.exc.cls.name == "CancelledError" and pr.exc.fields.get("scope") is scope:
                    i.throw("TimeoutError")
                raise
            finally:
                i.cancel_scopes.remove(scope)

        return Coro(run, "wait_for")

    def await_any(i, aw):
        if isinstance(aw, ShieldModel):
            return await_any(i, aw.inner)
        if isinstance(aw, GatherModel):
            i.suspend("gather")
            for f in aw.futs:
                if isinstance(f, FutureModel):
                    if isinstance(f.done, bool):
                        if not f.done:
                            raise PathEnd("await gather: future never completes")
                    else:
                        i.ctx.assume(f.done)
            return [f.value for f in aw.futs]
        return i.await_(aw)

    def create_task(i, a, k):
        t = TaskModel(a[0], tag=getattr(a[0], "name", None))
        i.ctx.event("spawn", t)
        hook = i.hooks.get("on_spawn")
        if hook:
            hook(i, t)
        return t

    def wait(i, a, k):
        tasks = list(i.iterate(a[0]))
        rw = k.get("return_when", "ALL_COMPLETED")

        def run():
            hook = i.hooks.get("asyncio_wait")
            if hook:
                r = hook(i, tasks, rw)
                if r is not NotImplemented:
                    return r
            if rw != "ALL_COMPLETED":
                raise Unsupported("asyncio.wait(FIRST_COMPLETED) outside a block contract")
            i.suspend("asyncio.wait")
            i.ctx.ghost.setdefault("awaited_tasks", []).extend(tasks)
            for t in tasks:
                if isinstance(t, TaskModel):
                    t.run(i)
            return (set(tasks), set())

        return Coro(run, "asyncio.wait")

    def start_server(i, a, k):
        cb, host, port = a[0], a[1] if len(a) > 1 else None, a[2] if len(a) > 2 else None

        def run():
            i.suspend("start_server")
            hook = i.hooks.get("start_server")
            if hook:
                return hook(i, cb, host, port, k)
            c = i.ctx.choose(2, "start_server-outcome")
            if c == 1:
                e = i.make_exc("OSError")
                e.fields["errno"] = fresh("int", "errno")
                raise PyRaise(e)
            l = ListenerModel(port, cb)
            i.ctx.event("listen", l)
            return l

        return Coro(run, "start_server")

    fut_cls = Builtin("Future", lambda i, a, k: FutureModel())
    fut_cls.pytypes = ()
    queue_b = Builtin("Queue", lambda i, a, k: QueueModel())
    pq_b = Builtin("PriorityQueue", lambda i, a, k: PortPool())

    def current_task(i, a, k):
        g = i.ctx.ghost
        if "current_task" not in g:
            g["current_task"] = TaskModel(None, tag="current")
        return g["current_task"]

    mm["asyncio"] = ModuleVal(
        "asyncio",
        {
            "get_running_loop": Builtin("get_running_loop", lambda i, a, k: loop),
            "sleep": Builtin("sleep", sleep),
            "wait_for": Builtin("wait_for", wait_for),
            "shield": Builtin("shield", lambda i, a, k: ShieldModel(a[0])),
            "gather": Builtin("gather", lambda i, a, k: GatherModel(list(a))),
            "create_task": Builtin("create_task", create_task),
            "wait": Builtin("wait", wait),
            "start_server": Builtin("start_server", start_server),
            "Future": fut_cls,
            "Queue": queue_b,
            "PriorityQueue": pq_b,
            "current_task": Builtin("current_task", current_task),
            "CancelledError": it.exc_classes["CancelledError"],
            "TimeoutError": it.exc_classes["TimeoutError"],
            "QueueEmpty": it.exc_classes["QueueEmpty"],
            "InvalidStateError": it.exc_classes["InvalidStateError"],
            "FIRST_COMPLETED": "FIRST_COMPLETED",
            "ALL_COMPLETED": "ALL_COMPLETED",
            "Task": ClassVal("Task"),
            "open_connection": Builtin("open_connection", lambda i, a, k: _unsup("open_connection")),
        },
    )


def _unsup(m):
    raise Unsupported(m)


class SymIntSet(Model):
    """a python set of ints of unknown size: characteristic function Array Int Bool"""

    model_name = "intset"

    def __init__(self, arr=None):
        super().__init__()
        self.arr = arr if arr is not None else z3.K(z3.IntSort(), z3.BoolVal(False))

    @staticmethod
    def fresh(hint="set"):
        return SymIntSet(z3.Const(f"{hint}!{next(_set_ctr)}", z3.ArraySort(z3.IntSort(), z3.BoolSort())))

    @staticmethod
    def of(pyset):
        s = SymIntSet()
        for x in pyset:
            s.arr = z3.Store(s.arr, as_int(x), z3.BoolVal(True))
        return s

    def contains(self, it, item):
        return it.mk_bool(self.arr[as_int(item)])

    def getattr(self, it, name):
        if name == "add":

            def add(i, a, k):
                self.arr = z3.Store(self.arr, as_int(a[0]), z3.BoolVal(True))

            return Builtin("intset.add", add)
        raise Unsupported("set." + name)

    def havoc(self, it, name):
        return SymIntSet.fresh(name)


import itertools as _it

_set_ctr = _it.count()
