"""Bounded run-time checkers (rt/*.py under /venv/bin/python on the real code).  Labelled *bounded*: they
refute, replay and cross-check; they never count as discharged obligations."""
from __future__ import annotations

import json
import os
import subprocess

ROOT = os.path.dirname(os.path.dirname(os.path.abspath(__file__)))


def run_rt(script, name, tier, seed, n_quick, n_thorough, timeout=600):
    n = n_quick if tier == "quick" else n_thorough
    env = dict(os.environ)
    env.setdefault("AIOFTP_REPO", "/repo")
    path = os.path.join(ROOT, "rt", script)
    out = {"summary": "", "violations": [], "undecided": [], "evaluations": 0}
    try:
        p = subprocess.run(["/venv/bin/python", path, "search", str(seed), str(n)], capture_output=True, text=True, timeout=timeout, env=env)
        line = [l for l in p.stdout.strip().split("\n") if l.startswith("{")]
        if p.returncode != 0 or not line:
            out["undecided"].append(f"run-time checker {script} crashed: {(p.stderr or p.stdout)[-400:]}")
            return out
        res = json.loads(line[-1])
    except subprocess.TimeoutExpired:
        out["undecided"].append(f"run-time checker {script} timed out")
        return out
    out["evaluations"] = res.get("tried", 0)
    out["bounded"] = {"checker": f"rt/{script}", "what": name, "cases": res.get("tried", 0), "seed": seed, "label": "bounded, not counted as proved"}
    out["summary"] = f"rt/{script}: {res.get('tried', 0)} concrete cases on the real code, failing={res.get('failing') is not None}"
    if res.get("failing") is not None:
        allf = res.get("all") or {res.get("violated", ["?"])[0]: res["failing"]}
        for v, inp in sorted(allf.items()):
            out["violations"].append(
                {
                    "name": f"{name}/{v}",
                    "input": inp,
                    "note": "found by the bounded run-time contract checker on the real code",
                    "replay": f'''
import json, subprocess
inp = {inp!r}
p = subprocess.run(["/venv/bin/python", {path!r}, "replay", json.dumps(inp)], capture_output=True, text=True, env=dict(os.environ))
print(p.stdout.strip() or p.stderr.strip())
''',
                }
            )
    return out
