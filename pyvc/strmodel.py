"""String / bytes / sequence model (trusted base T-str, T-enc): Python str methods on symbolic strings.

Exact where SMT-LIB has the operation (concat, length, substring, indexof, prefix/suffix, contains);
`rstrip/strip/lstrip/lower/isdigit/...` are *uninterpreted* functions constrained by axiom schemas that
are consequences of the CPython semantics, instantiated at the terms that occur on the path.  Anything
proved from them holds for CPython; a counter-model may be spurious and is replayed before it is believed.
"""
from __future__ import annotations

import ast

import z3

import itertools

from .core import _SORT, SV, PyRaise, Unsupported, as_int, fresh, kind_of, lit, term

_split_ctr = itertools.count()
from .values import Builtin, Model, Obj, SymSeq

S = z3.StringSort()
I = z3.IntSort()
B = z3.BoolSort()

f_rstrip = z3.Function("py_rstrip", S, S)
f_lstrip = z3.Function("py_lstrip", S, S)
f_strip = z3.Function("py_strip", S, S)
f_lower = z3.Function("py_lower", S, S)
f_isdigit = z3.Function("py_isdigit", S, B)
f_isspace_ch = z3.Function("py_isspace_ch", S, B)  # on 1-char strings
f_isdigit_ch = z3.Function("py_isdigit_ch", S, B)
f_repr = z3.Function("py_repr", S, S)
f_rindex = z3.Function("py_rindex", S, S, I)
f_stars = z3.Function("py_repeat_star", I, S)  # "*" * n
f_encode = z3.Function("py_encode", S, S)  # str -> bytes (per interpreter encoding)
f_decode = z3.Function("py_decode", S, S)
f_decodable = z3.Function("py_decodable", S, B)
f_int_of = z3.Function("py_int_of_str", S, I)

WS_CHARS = [" ", "\t", "\n", "\r", "\x0b", "\x0c", "\x1c", "\x1d", "\x1e", "\x1f", "\x85", "\xa0"]


class GhostSeq(Model):
    """append-only ghost sequence (Array Int T, len): lines written to a stream, replies queued, ..."""

    model_name = "ghostseq"

    def __init__(self, elem="str", hint="gs"):
        super().__init__()
        self.elem = elem
        self.hint = hint
        self.arr = z3.Const(f"{hint}!{next(_split_ctr)}", z3.ArraySort(I, _SORT[elem]))
        self.len = z3.Int(f"{hint}len!{next(_split_ctr)}")

    def append(self, it, v):
        new = z3.Const(f"{self.hint}!{next(_split_ctr)}", self.arr.sort())
        it.ctx.assume(new == z3.Store(self.arr, self.len, term(v)))
        self.arr = new
        self.len = z3.simplify(self.len + 1)

    def havoc(self, it, name=None):
        self.arr = z3.Const(f"{self.hint}!{next(_split_ctr)}", z3.ArraySort(I, _SORT[self.elem]))
        self.len = z3.Int(f"{self.hint}len!{next(_split_ctr)}")
        return self

    def as_symseq(self):
        return SymSeq(self.elem, self.arr, self.len)


class HavocDict(Model):
    """a dict whose contents the contract does not speak about (filled inside a loop cut by an invariant)"""

    model_name = "dict"
    isa = ("dict",)

    def setitem(self, it, k, v):
        return None

    def getitem(self, it, k):
        raise Unsupported("reading a dict that was abstracted by a loop contract")

    def havoc(self, it, name=None):
        return self


def sv_str(t):
    return SV("str", t)


def _lenok(it, t):
    it.ctx.assume(z3.Length(t) >= 0)


def concat(it, parts):
    """parts: list of python str / SV str -> value"""
    if all(isinstance(p, str) for p in parts):
        return "".join(parts)
    from .models_time import DateStr, YearPrefixed

    if any(isinstance(p, DateStr) for p in parts):
        if len(parts) == 3 and parts[1] == " " and isinstance(parts[2], DateStr):
            year = it.ctx.ghost.get("int2str", {}).get(term(parts[0]).get_id()) if isinstance(parts[0], SV) else (int(parts[0]) if isinstance(parts[0], str) and parts[0].isdigit() else None)
            if year is not None:
                return YearPrefixed(year, parts[2])
        if len(parts) == 1:
            return parts[0]
        raise Unsupported("concatenation with a formatted date")
    # merge adjacent literals
    merged = []
    for p in parts:
        if isinstance(p, str):
            if p == "":
                continue
            if merged and isinstance(merged[-1], str):
                merged[-1] += p
            else:
                merged.append(p)
        else:
            merged.append(p)
    if len(merged) == 1:
        return merged[0]
    return SV("str", z3.Concat(*[term(p) for p in merged]))


def to_str(it, v):
    v = it.unbox(v)
    if isinstance(v, SV):
        if v.k == "str":
            return v
        if v.k == "int":
            r = fresh("str", "int2str")
            it.ctx.assume(r.t == z3.If(v.t < 0, z3.Concat(z3.StringVal("-"), z3.IntToStr(-v.t)), z3.IntToStr(v.t)))
            # decimal digits with an optional sign: in particular no space, ';', '=' or quote
            digits = z3.Plus(z3.Range("0", "9"))
            it.ctx.assume(z3.InRe(r.t, z3.Union(digits, z3.Concat(z3.Re("-"), digits))))
            it.ctx.assume(z3.Length(r.t) > 0)
            it.ctx.ghost.setdefault("int2str", {})[r.t.get_id()] = v
            return r
        if v.k == "bool":
            return SV("str", z3.If(v.t, z3.StringVal("True"), z3.StringVal("False")))
        raise Unsupported(f"str() of symbolic {v.k}")
    if isinstance(v, (str, int, bool, float)) or v is None:
        return str(v)
    if isinstance(v, Model):
        f = getattr(v, "to_str", None)
        if f is not None:
            return f(it)
    if isinstance(v, Obj):
        f, _ = v.cls.lookup("__str__")
        if f is not None:
            from .values import BoundMethod

            return it.call(BoundMethod(v, f), [], {})
        if any(c.name == "BaseException" for c in v.cls.mro):
            args = v.fields.get("args", ())
            if len(args) == 1:
                return to_str(it, args[0])
            return fresh("str", "excstr")
    from .values import EnumMember

    if isinstance(v, EnumMember):
        return f"{v.cls.name}.{v.name}"
    if isinstance(v, (tuple, list)):
        return fresh("str", "containerstr")
    raise Unsupported(f"str() of {type(v).__name__}")


def to_repr(it, v):
    v = it.unbox(v)
    if isinstance(v, SV):
        if v.k == "str":
            return SV("str", f_repr(v.t))
        if v.k in ("int", "bool"):
            return to_str(it, v)
    if isinstance(v, (str, int, bool, float, bytes)) or v is None:
        return repr(v)
    if isinstance(v, Model):
        f = getattr(v, "to_repr", None)
        if f is not None:
            return f(it)
    return fresh("str", "repr")


def str_repeat(it, a, b):
    s, n = (a, b) if kind_of(a) in ("str", "bytes") else (b, a)
    if isinstance(s, str) and s == "*":
        nt = as_int(n)
        r = f_stars(nt)
        # schema: length, independence of anything but n
        it.ctx.assume(z3.Length(r) == z3.If(nt > 0, nt, 0))
        return SV("str", r)
    raise Unsupported("string repetition other than '*' * n")


def int_bitop(it, op, a, b):
    ta = as_int(a)
    if isinstance(b, int) and not isinstance(b, bool):
        if isinstance(op, ast.RShift):
            return SV("int", ta / (2**b))
        if isinstance(op, ast.LShift):
            return SV("int", ta * (2**b))
        if isinstance(op, ast.BitAnd) and b >= 0 and (b & (b + 1)) == 0:
            return SV("int", ta % (b + 1))
    if isinstance(op, (ast.BitOr, ast.BitAnd, ast.BitXor)):
        # value not modelled (only used where the contract does not speak about it): some non-negative integer for
        # non-negative operands
        tb = as_int(b)
        r = fresh("int", "bits")
        it.ctx.assume(z3.Implies(z3.And(ta >= 0, tb >= 0), r.t >= 0))
        return r
    raise Unsupported("bit operation on symbolic ints")


# ------------------------------------------------------------------------------ indexing
def _norm_index(i, n):
    return z3.If(i < 0, z3.If(i + n < 0, z3.IntVal(0), i + n), z3.If(i > n, n, i))


def str_getitem(it, o, k):
    kind = kind_of(o)
    t = term(o)
    n = z3.Length(t)
    if isinstance(k, slice):
        if k.step is not None:
            raise Unsupported("slice step")
        if not isinstance(o, SV) and not any(isinstance(x, SV) for x in (k.start, k.stop)):
            return o[k]
        a = z3.IntVal(0) if k.start is None else _norm_index(as_int(k.start), n)
        b = n if k.stop is None else _norm_index(as_int(k.stop), n)
        a = z3.simplify(a)
        b = z3.simplify(b)
        ln = z3.If(b - a < 0, z3.IntVal(0), b - a)
        return SV(kind, z3.SubString(t, a, ln))
    if not isinstance(o, SV) and not isinstance(k, SV):
        try:
            r = o[k]
        except IndexError:
            it.throw("IndexError", "string index out of range")
        return r
    i = as_int(k)
    ok = z3.And(i < n, i >= -n)
    if not it.ctx.branch(ok, "strindex"):
        it.throw("IndexError", "string index out of range")
    idx = z3.If(i < 0, i + n, i)
    if kind == "bytes":
        return SV("int", z3.StrToCode(z3.SubString(t, idx, 1)))
    return SV(kind, z3.SubString(t, idx, 1))


# ------------------------------------------------------------------------------ axiom schemas
def _ws_set(c):
    return z3.Or(*[c == z3.StringVal(w) for w in WS_CHARS[:6]])


def ax_rstrip(it, t, r):
    """facts about r = rstrip(t) (no-arg form) that hold in CPython"""
    A = it.ctx.assume
    A(z3.PrefixOf(r, t))
    A(z3.Length(r) <= z3.Length(t))
    A(f_rstrip(r) == r)
    last = z3.SubString(r, z3.Length(r) - 1, 1)
    A(z3.Or(r == z3.StringVal(""), z3.Not(f_isspace_ch(last))))
    # the char right after r (if any) is whitespace
    nxt = z3.SubString(t, z3.Length(r), 1)
    A(z3.Or(z3.Length(r) == z3.Length(t), f_isspace_ch(nxt)))
    _ws_ground(it, last)
    _ws_ground(it, nxt)
    # if t does not end with whitespace it is unchanged
    tl = z3.SubString(t, z3.Length(t) - 1, 1)
    A(z3.Implies(z3.And(z3.Length(t) > 0, z3.Not(f_isspace_ch(tl))), r == t))
    _ws_ground(it, tl)
    A(z3.Implies(t == z3.StringVal(""), r == z3.StringVal("")))


def _ws_ground(it, c):
    """ground facts about the whitespace predicate on the 1-char string term c"""
    A = it.ctx.assume
    for w in WS_CHARS:
        A(z3.Implies(c == z3.StringVal(w), f_isspace_ch(c)))
    # ASCII printable non-space characters are not whitespace
    code = z3.StrToCode(c)
    A(z3.Implies(z3.And(code >= 33, code <= 126), z3.Not(f_isspace_ch(c))))
    A(z3.Implies(f_isdigit_ch(c), z3.Not(f_isspace_ch(c))))
    A(z3.Implies(z3.Length(c) != 1, z3.Not(f_isspace_ch(c))))


def rstrip_of_concat(it, t):
    """structural schema: rstrip(a ++ lit) with lit all-whitespace == rstrip(a)."""
    if z3.is_app(t) and t.decl().kind() == z3.Z3_OP_SEQ_CONCAT:
        kids = t.children()
        lastk = kids[-1]
        if z3.is_string_value(lastk):
            sval = lastk.as_string()
            try:
                sval = bytes(sval, "latin-1").decode("unicode_escape") if "\\" in sval else sval
            except Exception:
                pass
            if sval and all(ch in WS_CHARS for ch in sval):
                rest = kids[:-1]
                inner = rest[0] if len(rest) == 1 else z3.Concat(*rest)
                it.ctx.assume(f_rstrip(t) == f_rstrip(inner))
                return inner
    return None


def m_rstrip(it, s, args):
    if args:
        return _strip_chars(it, s, args[0], "r")
    if not isinstance(s, SV):
        return s.rstrip()
    t = s.t
    r = f_rstrip(t)
    ax_rstrip(it, t, r)
    inner = rstrip_of_concat(it, t)
    if inner is not None:
        ax_rstrip(it, inner, f_rstrip(inner))
    return SV(s.k, r)


def ax_lstrip(it, t, r):
    A = it.ctx.assume
    A(z3.SuffixOf(r, t))
    A(z3.Length(r) <= z3.Length(t))
    A(f_lstrip(r) == r)
    first = z3.SubString(r, 0, 1)
    A(z3.Or(r == z3.StringVal(""), z3.Not(f_isspace_ch(first))))
    _ws_ground(it, first)
    t0 = z3.SubString(t, 0, 1)
    _ws_ground(it, t0)
    A(z3.Implies(z3.And(z3.Length(t) > 0, z3.Not(f_isspace_ch(t0))), r == t))
    prev = z3.SubString(t, z3.Length(t) - z3.Length(r) - 1, 1)
    A(z3.Or(z3.Length(r) == z3.Length(t), f_isspace_ch(prev)))
    _ws_ground(it, prev)


def m_lstrip(it, s, args):
    if args:
        return _strip_chars(it, s, args[0], "l")
    if not isinstance(s, SV):
        return s.lstrip()
    r = f_lstrip(s.t)
    ax_lstrip(it, s.t, r)
    return SV(s.k, r)


def m_strip(it, s, args):
    if args:
        return _strip_chars(it, s, args[0], "b")
    if not isinstance(s, SV):
        return s.strip()
    # strip == lstrip(rstrip(s)) exactly
    r1 = m_rstrip(it, s, [])
    r2 = m_lstrip(it, r1, [])
    # the result does not end with whitespace either
    last = z3.SubString(r2.t, z3.Length(r2.t) - 1, 1)
    it.ctx.assume(z3.Or(r2.t == z3.StringVal(""), z3.Not(f_isspace_ch(last))))
    it.ctx.assume(f_rstrip(r2.t) == r2.t)
    return r2


def _strip_chars(it, s, chars, side):
    if not isinstance(chars, str):
        raise Unsupported("strip(chars) with symbolic chars")
    if not isinstance(s, SV):
        return {"r": s.rstrip, "l": s.lstrip, "b": s.strip}[side](chars)
    f = z3.Function(f"py_strip_{side}_{'_'.join(str(ord(c)) for c in chars)}", S, S)
    r = f(s.t)
    A = it.ctx.assume
    if side == "r":
        A(z3.PrefixOf(r, s.t))
        last = z3.SubString(r, z3.Length(r) - 1, 1)
        A(z3.Or(r == z3.StringVal(""), z3.And(*[last != z3.StringVal(c) for c in chars])))
        tl = z3.SubString(s.t, z3.Length(s.t) - 1, 1)
        A(z3.Implies(z3.And(*[tl != z3.StringVal(c) for c in chars]), r == s.t))
    elif side == "l":
        A(z3.SuffixOf(r, s.t))
        first = z3.SubString(r, 0, 1)
        A(z3.Or(r == z3.StringVal(""), z3.And(*[first != z3.StringVal(c) for c in chars])))
    else:
        A(z3.Contains(s.t, r))
    A(z3.Length(r) <= z3.Length(s.t))
    return SV(s.k, r)


def ax_lower(it, t, r):
    A = it.ctx.assume
    A(f_lower(r) == r)
    # ascii-only facts: length is preserved for ASCII; in general not (e.g. 'İ'), so only ground literal facts
    A(z3.Implies(t == z3.StringVal(""), r == z3.StringVal("")))


def lower_equals_literal(it, t, literal):
    """lower(t) == literal  <=>  t in preimage(literal) — exact for ASCII-letter literals where the only
    non-ASCII preimage characters are the Kelvin sign (K) and the long s is NOT lowercased to s.
    CPython: 'K'(U+212A).lower() == 'k'; 'İ'.lower() is 2 chars.  For the verbs used ("pass") the preimage of
    each letter is {upper, lower} plus U+212A for 'k'."""
    alts = []
    n = len(literal)
    conj = [z3.Length(t) == n]
    for i, ch in enumerate(literal):
        c = z3.SubString(t, i, 1)
        opts = {ch, ch.upper(), ch.lower()}
        if ch.lower() == "k":
            opts.add("\u212a")
        conj.append(z3.Or(*[c == z3.StringVal(o) for o in sorted(opts)]))
    return z3.And(*conj)


def m_lower(it, s, args):
    if not isinstance(s, SV):
        return s.lower()
    r = f_lower(s.t)
    ax_lower(it, s.t, r)
    return SV(s.k, r)


def ax_isdigit(it, t):
    A = it.ctx.assume
    d = f_isdigit(t)
    A(z3.Implies(d, z3.Length(t) > 0))
    first = z3.SubString(t, 0, 1)
    last = z3.SubString(t, z3.Length(t) - 1, 1)
    A(z3.Implies(d, z3.And(f_isdigit_ch(first), f_isdigit_ch(last))))
    for c in (first, last):
        _digit_ground(it, c)
    # all-ASCII-digit strings are digit strings (regex membership is exact in SMT-LIB)
    ascii_digits = z3.InRe(t, z3.Plus(z3.Range("0", "9")))
    A(z3.Implies(ascii_digits, d))


def _digit_ground(it, c):
    A = it.ctx.assume
    code = z3.StrToCode(c)
    A(z3.Implies(z3.And(code >= 48, code <= 57), f_isdigit_ch(c)))
    # no other ASCII char is a digit
    A(z3.Implies(z3.And(code >= 0, code <= 127, z3.Or(code < 48, code > 57)), z3.Not(f_isdigit_ch(c))))
    A(z3.Implies(z3.Length(c) != 1, z3.Not(f_isdigit_ch(c))))
    A(z3.Implies(f_isdigit_ch(c), z3.Not(f_isspace_ch(c))))


def m_isdigit(it, s, args):
    if not isinstance(s, SV):
        return s.isdigit()
    ax_isdigit(it, s.t)
    return SV("bool", f_isdigit(s.t))


f_isdecimal = z3.Function("py_isdecimal", S, B)


def m_isdecimal(it, s, args):
    """str.isdecimal(): every character is a Unicode decimal digit (category Nd), non-empty.  T-str: such a string is also
    isdigit(), and int() accepts it (int() takes any Nd digits) with a non-negative value."""
    if not isinstance(s, SV):
        return s.isdecimal()
    t = s.t
    A = it.ctx.assume
    d = f_isdecimal(t)
    ax_isdigit(it, t)
    A(z3.Implies(d, f_isdigit(t)))
    A(z3.Implies(d, z3.Length(t) > 0))
    A(z3.Implies(z3.InRe(t, z3.Plus(z3.Range("0", "9"))), d))
    ok = z3.Function("py_int_ok", S, B)
    A(z3.Implies(d, ok(t)))
    return SV("bool", d)


def m_startswith(it, s, args):
    p = args[0]
    if isinstance(p, tuple):
        return it.mk_bool(z3.Or(*[z3.PrefixOf(term(x), term(s)) for x in p]))
    if not isinstance(s, SV) and not isinstance(p, SV):
        return s.startswith(p)
    return it.mk_bool(z3.PrefixOf(term(p), term(s)))


def m_endswith(it, s, args):
    p = args[0]
    if not isinstance(s, SV) and not isinstance(p, SV):
        return s.endswith(p)
    return it.mk_bool(z3.SuffixOf(term(p), term(s)))


def m_partition(it, s, args):
    sep = args[0]
    if not isinstance(s, SV) and not isinstance(sep, SV):
        return s.partition(sep)
    k = kind_of(s)
    t, sp = term(s), term(sep)
    i = z3.IndexOf(t, sp, 0)
    if it.ctx.branch(i >= 0, "partition-found"):
        head = z3.SubString(t, 0, i)
        tail = z3.SubString(t, i + z3.Length(sp), z3.Length(t) - i - z3.Length(sp))
        # helpful consequence: head does not contain sep
        it.ctx.assume(z3.Not(z3.Contains(head, sp)))
        it.ctx.assume(t == z3.Concat(head, sp, tail))
        return (SV(k, head), sep, SV(k, tail))
    it.ctx.assume(z3.Not(z3.Contains(t, sp)))
    return (s, "" if k == "str" else b"", "" if k == "str" else b"")


def m_index(it, s, args):
    sub = args[0]
    if len(args) > 1:
        raise Unsupported("index with start")
    if not isinstance(s, SV) and not isinstance(sub, SV):
        try:
            return s.index(sub)
        except ValueError:
            it.throw("ValueError", "substring not found")
    i = z3.IndexOf(term(s), term(sub), 0)
    if not it.ctx.branch(i >= 0, "index-found"):
        it.ctx.assume(z3.Not(z3.Contains(term(s), term(sub))))
        it.throw("ValueError", "substring not found")
    r = fresh("int", "idx")
    it.ctx.assume(r.t == i)
    it.ctx.assume(z3.And(r.t >= 0, r.t + z3.Length(term(sub)) <= z3.Length(term(s))))
    it.ctx.assume(z3.SubString(term(s), r.t, z3.Length(term(sub))) == term(sub))
    it.ctx.assume(z3.Not(z3.Contains(z3.SubString(term(s), 0, r.t), term(sub))))
    return r


def m_rindex(it, s, args):
    sub = args[0]
    if not isinstance(s, SV) and not isinstance(sub, SV):
        try:
            return s.rindex(sub)
        except ValueError:
            it.throw("ValueError", "substring not found")
    t, sp = term(s), term(sub)
    if not it.ctx.branch(z3.Contains(t, sp), "rindex-found"):
        it.throw("ValueError", "substring not found")
    r = fresh("int", "ridx")
    A = it.ctx.assume
    A(r.t == f_rindex(t, sp))
    A(z3.And(r.t >= 0, r.t + z3.Length(sp) <= z3.Length(t)))
    A(z3.SubString(t, r.t, z3.Length(sp)) == sp)
    A(r.t >= z3.IndexOf(t, sp, 0))
    return r


def m_find(it, s, args):
    sub = args[0]
    if not isinstance(s, SV) and not isinstance(sub, SV):
        return s.find(sub)
    return SV("int", z3.IndexOf(term(s), term(sub), 0))


def m_replace(it, s, args):
    a, b = args[0], args[1]
    if not any(isinstance(x, SV) for x in (s, a, b)):
        return s.replace(a, b)
    f = z3.Function("py_replace_all", S, S, S, S)
    r = f(term(s), term(a), term(b))
    A = it.ctx.assume
    A(z3.Implies(z3.Not(z3.Contains(term(s), term(a))), r == term(s)))
    if isinstance(a, str) and isinstance(b, str) and a != b and a != "":
        A(z3.Implies(z3.Contains(term(s), term(a)), r != term(s)))
    if isinstance(b, str) and b == "" and isinstance(a, str) and len(a) == 1:
        A(z3.Not(z3.Contains(r, term(a))))
        A(z3.Length(r) <= z3.Length(term(s)))
    return SV(kind_of(s), r)


def m_encode(it, s, args, kwargs):
    if not isinstance(s, SV):
        enc = kwargs.get("encoding", args[0] if args else "utf-8")
        if isinstance(enc, str):
            try:
                return s.encode(enc)
            except UnicodeEncodeError:
                it.throw("UnicodeEncodeError", "encode")
        raise Unsupported("encode with symbolic encoding")
    r = f_encode(s.t)
    A = it.ctx.assume
    # T-enc: decode(encode(s)) == s; encoded text is decodable
    A(f_decodable(r))
    A(f_decode(r) == s.t)
    A(z3.Length(r) >= z3.Length(s.t))
    A(z3.Implies(s.t == z3.StringVal(""), r == z3.StringVal("")))
    enc_concat(it, s.t)
    return SV("bytes", r)


def enc_concat(it, t):
    """encode distributes over concatenation (both supported encodings are stateless): instantiate for a
    syntactic concat."""
    if z3.is_app(t) and t.decl().kind() == z3.Z3_OP_SEQ_CONCAT:
        kids = t.children()
        parts = [f_encode(k) for k in kids]
        it.ctx.assume(f_encode(t) == z3.Concat(*parts))
        for k in kids:
            if z3.is_string_value(k):
                sv = _zstr(k)
                if sv is not None and all(ord(c) < 128 for c in sv):
                    it.ctx.assume(f_encode(k) == k)
            it.ctx.assume(f_decode(f_encode(k)) == k)
            it.ctx.assume(f_decodable(f_encode(k)))


def _zstr(k):
    try:
        s = k.as_string()
    except Exception:
        return None
    # z3 escapes non-printables as \u{..}
    import re

    def rep(m):
        return chr(int(m.group(1), 16))

    return re.sub(r"\\u\{([0-9a-fA-F]+)\}", rep, s)


def m_decode(it, s, args, kwargs):
    if not isinstance(s, SV):
        enc = kwargs.get("encoding", args[0] if args else "utf-8")
        if isinstance(enc, str):
            try:
                return s.decode(enc)
            except UnicodeDecodeError:
                it.throw("UnicodeDecodeError", "decode")
        raise Unsupported("decode with symbolic encoding")
    if not it.ctx.branch(f_decodable(s.t), "decodable"):
        it.throw("UnicodeDecodeError", "invalid bytes")
    r = f_decode(s.t)
    A = it.ctx.assume
    A(z3.Length(r) <= z3.Length(s.t))
    A(z3.Implies(s.t == z3.StringVal(""), r == z3.StringVal("")))
    A(z3.Implies(z3.Length(s.t) > 0, z3.Length(r) > 0))
    return SV("str", r)


def m_join(it, sep, args):
    seq = args[0]
    if isinstance(seq, SymSeq):
        if seq.elem != kind_of(sep):
            it.throw("TypeError", "sequence item: expected str instance")
        return fresh(kind_of(sep), "joined")  # contents not modelled
    items = [x.as_sv() if hasattr(x, "as_sv") else x for x in it.iterate(seq)]
    if not isinstance(sep, SV) and not any(isinstance(x, SV) for x in items):
        if not all(isinstance(x, type(sep)) for x in items):
            it.throw("TypeError", "sequence item: expected str instance")
        return sep.join(items)
    parts = []
    for i, x in enumerate(items):
        if kind_of(x) != kind_of(sep):
            it.throw("TypeError", "sequence item: expected str instance")
        if i:
            parts.append(sep)
        parts.append(x)
    if kind_of(sep) == "str":
        return concat(it, parts)
    return SV("bytes", z3.Concat(*[term(p) for p in parts]))


def m_format(it, s, args, kwargs):
    if isinstance(s, SV):
        raise Unsupported("format on symbolic template")
    import string

    parts = []
    auto = 0
    for lit_text, field, spec, conv in string.Formatter().parse(s):
        if lit_text:
            parts.append(lit_text)
        if field is None:
            continue
        if spec or conv:
            raise Unsupported("format spec/conversion")
        if field == "":
            v = args[auto]
            auto += 1
        elif field.isdigit():
            v = args[int(field)]
        else:
            v = kwargs[field]
        parts.append(to_str(it, v))
    return concat(it, parts)


def m_split(it, s, args, kwargs):
    if not isinstance(s, SV) and not any(isinstance(a, SV) for a in args):
        return s.split(*args)
    if not args:
        raise Unsupported("split() on whitespace for symbolic strings")
    sep = args[0]
    if not isinstance(sep, str) or len(sep) != 1:
        raise Unsupported("split with non-literal separator")
    # result: SymSeq of strings with defining axioms
    arr = z3.Const(f"split!{next(_split_ctr)}", z3.ArraySort(I, S))
    n = z3.Int(f"splitlen!{next(_split_ctr)}")
    A = it.ctx.assume
    t = s.t
    sp = z3.StringVal(sep)
    A(n >= 1)
    A(z3.Implies(z3.Not(z3.Contains(t, sp)), z3.And(n == 1, arr[0] == t)))
    i0 = z3.IndexOf(t, sp, 0)
    A(z3.Implies(z3.Contains(t, sp), z3.And(n >= 2, arr[0] == z3.SubString(t, 0, i0))))
    j = z3.Int("j")
    A(z3.ForAll([j], z3.Implies(z3.And(j >= 0, j < n), z3.Not(z3.Contains(arr[j], sp))), patterns=[arr[j]]))
    # last element is the suffix after the last separator
    A(z3.SuffixOf(arr[n - 1], t))
    return SymSeq("str", arr, n, kind="list")


def m_len(it, s):
    if isinstance(s, SV):
        n = fresh("int", "len")
        it.ctx.assume(n.t == z3.Length(s.t))
        it.ctx.assume(n.t >= 0)
        return n
    return len(s)


STR_METHODS = {
    "rstrip": lambda it, s, a, k: m_rstrip(it, s, a),
    "lstrip": lambda it, s, a, k: m_lstrip(it, s, a),
    "strip": lambda it, s, a, k: m_strip(it, s, a),
    "lower": lambda it, s, a, k: m_lower(it, s, a),
    "isdigit": lambda it, s, a, k: m_isdigit(it, s, a),
    "isdecimal": lambda it, s, a, k: m_isdecimal(it, s, a),
    "startswith": lambda it, s, a, k: m_startswith(it, s, a),
    "endswith": lambda it, s, a, k: m_endswith(it, s, a),
    "partition": lambda it, s, a, k: m_partition(it, s, a),
    "index": lambda it, s, a, k: m_index(it, s, a),
    "rindex": lambda it, s, a, k: m_rindex(it, s, a),
    "find": lambda it, s, a, k: m_find(it, s, a),
    "replace": lambda it, s, a, k: m_replace(it, s, a),
    "encode": m_encode,
    "decode": m_decode,
    "join": lambda it, s, a, k: m_join(it, s, a),
    "format": m_format,
    "split": m_split,
}


def get_method(it, v, name):
    if isinstance(v, (str, bytes)) or (isinstance(v, SV) and v.k in ("str", "bytes")):
        if name in STR_METHODS:
            f = STR_METHODS[name]
            return Builtin("str." + name, lambda it2, a, k, f=f, v=v: f(it2, v, a, k))
        if isinstance(v, (str, bytes)):
            pyf = getattr(v, name, None)
            if pyf is not None:

                def call_py(it2, a, k, pyf=pyf):
                    if any(isinstance(x, SV) for x in a):
                        raise Unsupported(f"str.{name} with symbolic argument")
                    try:
                        return pyf(*a, **k)
                    except ValueError as e:
                        it2.throw("ValueError", str(e))

                return Builtin("str." + name, call_py)
        raise Unsupported(f"str method {name!r} on symbolic string")
    if isinstance(v, (list, tuple, dict, set)):
        return container_method(it, v, name)
    if isinstance(v, SymSeq):
        return symseq_method(it, v, name)
    if isinstance(v, SV) and v.k in ("int", "real"):
        raise Unsupported(f"method {name} on symbolic number")
    return None


def container_method(it, v, name):
    if isinstance(v, list):
        if name == "append":
            return Builtin("list.append", lambda it2, a, k: v.append(a[0]))
        if name == "extend":
            return Builtin("list.extend", lambda it2, a, k: v.extend(it2.iterate(a[0])))
        if name == "reverse":
            return Builtin("list.reverse", lambda it2, a, k: v.reverse())
        if name == "pop":

            def pop(it2, a, k):
                try:
                    return v.pop(*a)
                except IndexError:
                    it2.throw("IndexError", "pop from empty list")

            return Builtin("list.pop", pop)
        if name == "insert":
            return Builtin("list.insert", lambda it2, a, k: v.insert(a[0], a[1]))
        if name == "copy":
            return Builtin("list.copy", lambda it2, a, k: list(v))
    if isinstance(v, dict):
        if name == "items":
            return Builtin("dict.items", lambda it2, a, k: [(kk, vv) for kk, vv in v.items()])
        if name == "keys":
            return Builtin("dict.keys", lambda it2, a, k: list(v.keys()))
        if name == "values":
            return Builtin("dict.values", lambda it2, a, k: list(v.values()))
        if name == "get":
            return Builtin("dict.get", lambda it2, a, k: it2.dict_get(v, a[0], a[1] if len(a) > 1 else None))
        if name == "update":

            def upd(it2, a, k):
                if a:
                    src = a[0]
                    if isinstance(src, dict):
                        for kk, vv in src.items():
                            it2.setitem(v, kk, vv)
                    else:
                        for kk, vv in it2.iterate(src):
                            it2.setitem(v, kk, vv)
                for kk, vv in k.items():
                    it2.setitem(v, kk, vv)

            return Builtin("dict.update", upd)
        if name == "pop":

            def dpop(it2, a, k):
                for kk in list(v.keys()):
                    e = it2.eq_term(a[0], kk)
                    if e is True or (e is not False and it2.ctx.branch(e, "dictkey")):
                        return v.pop(kk)
                if len(a) > 1:
                    return a[1]
                it2.throw("KeyError", a[0])

            return Builtin("dict.pop", dpop)
        if name == "setdefault":

            def sd(it2, a, k):
                r = it2.dict_get(v, a[0], default=_MISSING)
                if r is _MISSING:
                    v[a[0]] = a[1] if len(a) > 1 else None
                    return v[a[0]]
                return r

            return Builtin("dict.setdefault", sd)
    if isinstance(v, set):
        if name == "add":

            def sadd(it2, a, k):
                c = it2.contains(v, a[0])
                if isinstance(c, bool):
                    if not c:
                        v.add(a[0])
                    return
                if not it2.ctx.branch(c.t, "set-add-dup"):
                    v.add(a[0])

            return Builtin("set.add", sadd)
        if name == "discard":
            return Builtin("set.discard", lambda it2, a, k: v.discard(a[0]))
    if isinstance(v, tuple):
        if name == "index":
            return Builtin("tuple.index", lambda it2, a, k: v.index(a[0]))
    raise Unsupported(f"method {name!r} of {type(v).__name__}")


_MISSING = object()


# ------------------------------------------------------------------------------ symbolic sequences
def seq_elem(it, seq, idx):
    e = seq.arr[idx]
    if isinstance(seq.elem, str):
        return SV(seq.elem, e)
    return seq.elem(e)


def seq_getitem(it, seq, k):
    n = seq.length
    if isinstance(k, slice):
        if k.step is not None:
            raise Unsupported("slice step on SymSeq")
        a = z3.IntVal(0) if k.start is None else _norm_index(as_int(k.start), n)
        b = n if k.stop is None else _norm_index(as_int(k.stop), n)
        a, b = z3.simplify(a), z3.simplify(b)
        return seq_slice(it, seq, a, b)
    i = as_int(k)
    ok = z3.And(i < n, i >= -n)
    if not it.ctx.branch(ok, "seqindex"):
        it.throw("IndexError", "list index out of range")
    idx = z3.simplify(z3.If(i < 0, i + n, i))
    return seq_elem(it, seq, idx)


def seq_slice(it, seq, a, b):
    ln = z3.simplify(z3.If(b - a < 0, z3.IntVal(0), b - a))
    newarr = z3.Const(f"slice!{next(_split_ctr)}", seq.arr.sort())
    j = z3.Int("j")
    it.ctx.assume(z3.ForAll([j], newarr[j] == seq.arr[j + a], patterns=[newarr[j]]))
    return SymSeq(seq.elem, newarr, ln, kind=seq.kind)


def seq_eq(it, a, b):
    if isinstance(a, SymSeq) and isinstance(b, SymSeq):
        if a.arr.sort() != b.arr.sort():
            return False
        j = z3.Int("j")
        return z3.And(
            a.length == b.length,
            z3.ForAll([j], z3.Implies(z3.And(j >= 0, j < a.length), a.arr[j] == b.arr[j]), patterns=[a.arr[j], b.arr[j]]),
        )
    s, c = (a, b) if isinstance(a, SymSeq) else (b, a)
    if isinstance(c, (list, tuple)):
        if (s.kind == "list") != isinstance(c, list):
            return False
        conj = [s.length == len(c)]
        for i, x in enumerate(c):
            e = it.eq_term(seq_elem(it, s, z3.IntVal(i)), x)
            if e is False:
                return False
            if e is not True:
                conj.append(e)
        return z3.And(*conj)
    return False


def seq_contains(it, seq, item):
    raise Unsupported("'in' on symbolic sequence")


def seq_binop(it, op, a, b):
    raise Unsupported("binop on symbolic sequence")


def seq_unpack(it, seq, n_targets, star_idx):
    n = seq.length
    if star_idx is None:
        if not it.ctx.branch(n == n_targets, "unpack-len"):
            it.throw("ValueError", "wrong number of values to unpack")
        return [seq_elem(it, seq, z3.IntVal(i)) for i in range(n_targets)]
    need = n_targets - 1
    if not it.ctx.branch(n >= need, "unpack-len"):
        it.throw("ValueError", "not enough values to unpack")
    before = [seq_elem(it, seq, z3.IntVal(i)) for i in range(star_idx)]
    nafter = n_targets - star_idx - 1
    after = [seq_elem(it, seq, z3.simplify(n - nafter + i)) for i in range(nafter)]
    mid = seq_slice(it, seq, z3.IntVal(star_idx), z3.simplify(n - nafter))
    mid.kind = "list"
    return before + [mid] + after


def symseq_method(it, v, name):
    if name == "append":

        def append(it2, a, k):
            new = z3.Const(f"seq!{next(_split_ctr)}", v.arr.sort())
            it2.ctx.assume(new == z3.Store(v.arr, v.length, term(it2.unbox(a[0]))))
            v.arr = new
            v.length = z3.simplify(v.length + 1)

        return Builtin("symseq.append", append)
    raise Unsupported(f"method {name!r} on symbolic sequence")


def list_to_symseq(it, v, elem="str"):
    """a concrete-length python list of scalars as (Array, len)"""
    if isinstance(v, SymSeq):
        return v
    arr = z3.Const(f"lst!{next(_split_ctr)}", z3.ArraySort(I, _SORT[elem]))
    for i, x in enumerate(v):
        it.ctx.assume(arr[i] == term(it.unbox(x)))
    return SymSeq(elem, arr, z3.IntVal(len(v)), kind="list" if isinstance(v, list) else "tuple")


def forall(vars_, body, pattern=None):
    """quantifier with an e-matching pattern when z3 accepts it"""
    if pattern is not None:
        try:
            return z3.ForAll(vars_, body, patterns=[pattern])
        except z3.Z3Exception:
            pass
    return z3.ForAll(vars_, body)


def for_symseq(it, spec, lname, env, qual, s, seq):
    """for x in <SymSeq>: cut by invariant; ghost index variable named in spec.index (default '_i')."""
    idx_name = getattr(spec, "index", None) or "_i"
    env.vars[idx_name] = 0
    env.vars["_seq"] = seq

    def cond():
        i = env.vars[idx_name]
        return it.ctx.branch(as_int(i) < seq.length, f"for@{lname}")

    def pre_body():
        i = env.vars[idx_name]
        it.assign(s.target, seq_elem(it, seq, z3.simplify(as_int(i))), env)
        env.vars[idx_name] = SV("int", z3.simplify(as_int(i) + 1))

    spec.extra_targets = {idx_name}
    spec.seq = seq
    user_havoc = spec.havoc_fn

    def havoc_and_bound(it2, env2):
        # inherent to the desugaring: the index counts consumed elements, 0 <= _i <= len
        i = env2.vars[idx_name]
        it2.ctx.assume(z3.And(as_int(i) >= 0, as_int(i) <= seq.length))
        if user_havoc:
            user_havoc(it2, env2)

    spec.havoc_fn = havoc_and_bound
    try:
        it.inv_loop(spec, lname, env, qual, s, cond, pre_body)
    finally:
        spec.havoc_fn = user_havoc
