"""pathlib model (assumed contracts T-path, DESIGN.md 3.2).

A pure path is (flavour, anchor, parts) with parts a z3 Seq(String) *without* the anchor.
POSIX flavour: constructor, `/`, parent, parts, name, relative_to, is_relative_to, is_absolute are defined
lexically.  Flavour "any" (user base paths on an unknown OS): `/` and the constructor are uninterpreted, only
"is_relative_to is a reflexive lexical prefix test" is assumed.
"""
from __future__ import annotations

import itertools

import z3

from . import strmodel
from .core import SV, PyRaise, Unsupported, as_int, fresh, kind_of, term
from .values import Builtin, ClassVal, Model, ModuleVal, Obj, Opaque, SymSeq

S = z3.StringSort()
SS = z3.SeqSort(S)
DD = z3.StringVal("..")

_ctr = itertools.count()

# parse of an arbitrary string into (anchor, parts): uninterpreted with axioms
f_parse_anchor = z3.Function("path_parse_anchor", S, S)
f_parse_parts = z3.Function("path_parse_parts", S, SS)
f_path_str = z3.Function("path_str", S, SS, S)
# opaque flavour
OP = z3.DeclareSort("OPath")
f_any_join = z3.Function("opath_join", OP, S, OP)
f_any_rel = z3.Function("opath_is_relative_to", OP, OP, z3.BoolSort())


def seq_of(items):
    """python list of (str|SV) -> Seq(String) term"""
    if not items:
        return z3.Empty(SS)
    units = [z3.Unit(term(x)) for x in items]
    return units[0] if len(units) == 1 else z3.Concat(*units)


def clean_part(p):
    """a legal parsed part: non-empty, not '.', no '/'"""
    return z3.And(p != z3.StringVal(""), p != z3.StringVal("."), z3.Not(z3.Contains(p, z3.StringVal("/"))))


def _forall_parts(parts, tag, body):
    i = z3.Int(f"i!{tag}")
    f = z3.Implies(z3.And(i >= 0, i < z3.Length(parts)), body(parts[i]))
    if z3.is_const(parts) and parts.decl().kind() == z3.Z3_OP_UNINTERPRETED:
        return z3.ForAll([i], f, patterns=[parts[i]])
    return z3.ForAll([i], f)


def all_clean(it, parts, tag="q"):
    return _forall_parts(parts, tag, clean_part)


def no_dotdot(parts, tag="q"):
    """no part equals '..' (quantifier-free: sequence containment of the unit sequence)"""
    return z3.Not(z3.Contains(parts, z3.Unit(DD)))


class PathVal(Model):
    model_name = "path"

    def __init__(self, flavour, anchor, parts, concrete=None, opaque=None, abs_known=None):
        super().__init__()
        self.abs_known = abs_known
        self.flavour = flavour  # 'posix' | 'any'
        self.anchor = anchor  # python str or SV str (only "", "/", "//")
        self.parts = parts  # z3 Seq(String)
        self.opaque = opaque  # OPath term for flavour 'any'
        self.isa = ("PurePosixPath", "PurePath") if flavour == "posix" else ("Path", "PurePath")

    # --- helpers
    def anchor_t(self):
        return term(self.anchor)

    def is_abs_term(self):
        if self.abs_known is not None:
            return self.abs_known
        if isinstance(self.anchor, str):
            return self.anchor != ""
        return self.anchor.t != z3.StringVal("")

    def same_kind(self, flavour=None):
        return flavour or self.flavour

    def to_str(self, it):
        # str() of a relative path with no part is ".", with exactly one part it is that part (T-path)
        if isinstance(self.anchor, str) and self.anchor == "":
            ps = z3.simplify(self.parts)
            if z3.is_app(ps) and ps.decl().kind() == z3.Z3_OP_SEQ_EMPTY:
                return "."
            if z3.is_app(ps) and ps.decl().kind() == z3.Z3_OP_SEQ_UNIT:
                inner = ps.children()[0]
                if z3.is_string_value(inner):
                    return strmodel._zstr(inner)
                return SV("str", inner)
        return SV("str", f_path_str(self.anchor_t(), self.parts))

    def to_repr(self, it):
        return fresh("str", "pathrepr")

    def eq(self, it, other):
        if not isinstance(other, PathVal):
            return False
        if self.flavour == "any" or other.flavour == "any":
            if self.flavour != other.flavour:
                return False
            return self.opaque == other.opaque
        return z3.And(self.anchor_t() == other.anchor_t(), self.parts == other.parts)

    def getattr(self, it, name):
        if self.flavour == "any":
            return self.getattr_any(it, name)
        n = z3.Length(self.parts)
        if name == "parts":
            # anchor (if any) followed by parts, as a symbolic tuple of strings
            return PartsView(self)
        if name == "name":
            return SV("str", z3.If(n > 0, self.parts[n - 1], z3.StringVal("")))
        if name == "parent":
            if it.ctx.branch(n > 0, "parent-nonroot"):
                return PathVal(self.flavour, self.anchor, z3.simplify(z3.SubSeq(self.parts, 0, n - 1)), abs_known=self.abs_known)
            return self
        if name == "is_absolute":
            return Builtin("path.is_absolute", lambda i, a, k: i.mk_bool(self.is_abs_term()))
        if name == "relative_to":

            def rel(i, a, k):
                other = as_path(i, a[0], self.flavour)
                ok = z3.And(self.anchor_t() == other.anchor_t(), z3.PrefixOf(other.parts, self.parts))
                if not i.ctx.branch(ok, "relative_to"):
                    i.throw("ValueError", "is not in the subpath of")
                m = z3.Length(other.parts)
                return PathVal(self.flavour, "", z3.simplify(z3.SubSeq(self.parts, m, n - m)))

            return Builtin("path.relative_to", rel)
        if name == "is_relative_to":

            def isrel(i, a, k):
                other = as_path(i, a[0], self.flavour)
                return i.mk_bool(z3.And(self.anchor_t() == other.anchor_t(), z3.PrefixOf(other.parts, self.parts)))

            return Builtin("path.is_relative_to", isrel)
        if name == "joinpath":
            return Builtin("path.joinpath", lambda i, a, k: _join_many(i, self, a))
        if name in ("exists", "is_dir", "is_file", "mkdir", "rmdir", "unlink", "glob", "stat", "open", "rename"):
            hook = it.hooks.get("fs_call")
            if hook is None:
                raise Unsupported(f"Path.{name}: no file-system model in this unit")
            return Builtin("Path." + name, lambda i, a, k: hook(i, self, name, a, k))
        raise Unsupported("PurePath." + name)

    def getattr_any(self, it, name):
        if name == "is_relative_to":

            def isrel(i, a, k):
                other = a[0]
                if not isinstance(other, PathVal) or other.flavour != "any":
                    raise Unsupported("is_relative_to across flavours")
                if other.opaque.eq(self.opaque):
                    return True
                i.ctx.assume(f_any_rel(other.opaque, other.opaque))
                i.ctx.assume(f_any_rel(self.opaque, self.opaque))
                return i.mk_bool(f_any_rel(self.opaque, other.opaque))

            return Builtin("path.is_relative_to", isrel)
        if name == "name":
            f_name = z3.Function("opath_name", OP, S)
            return SV("str", f_name(self.opaque))
        if name == "parent":
            f_parent = z3.Function("opath_parent", OP, OP)
            return PathVal("any", None, None, opaque=f_parent(self.opaque))
        if name in ("exists", "is_dir", "is_file", "mkdir", "rmdir", "unlink", "glob", "stat", "open", "rename"):
            hook = it.hooks.get("fs_call")
            if hook is None:
                raise Unsupported(f"Path.{name}: no file-system model in this unit")
            return Builtin("Path." + name, lambda i, a, k: hook(i, self, name, a, k))
        raise Unsupported("Path(any flavour)." + name)

    def m___truediv__(self, it, other):
        return join(it, self, other)

    def m___rtruediv__(self, it, other):
        return join(it, as_path(it, other, self.flavour), self)

    def __repr__(self):
        if self.flavour == "any":
            return f"<path any {self.opaque}>"
        return f"<path {self.anchor!r} {z3.simplify(self.parts)}>"


class PartsView(Model):
    """p.parts: tuple (anchor?) + parts."""

    model_name = "parts"

    def __init__(self, p):
        super().__init__()
        self.p = p

    def as_seq(self, it):
        p = self.p
        a = p.anchor_t()
        return z3.If(a == z3.StringVal(""), p.parts, z3.Concat(z3.Unit(a), p.parts))

    def getitem(self, it, k):
        p = self.p
        if isinstance(k, slice) and k.start == 1 and k.stop is None and k.step is None:
            absn = p.is_abs_term()
            if absn is True:
                return SeqStr(p.parts, clean=True)
            if absn is False:
                n = z3.Length(p.parts)
                return SeqStr(z3.simplify(z3.SubSeq(p.parts, 1, n - 1)), clean=True)
            full = self.as_seq(it)
            return SeqStr(z3.SubSeq(full, 1, z3.Length(full) - 1), clean=True)
        if isinstance(k, slice):
            full = self.as_seq(it)
            n = z3.Length(full)
            a = z3.IntVal(0) if k.start is None else strmodel._norm_index(as_int(k.start), n)
            b = n if k.stop is None else strmodel._norm_index(as_int(k.stop), n)
            return SeqStr(z3.simplify(z3.SubSeq(full, a, z3.If(b - a < 0, 0, b - a))))
        full = self.as_seq(it)
        n = z3.Length(full)
        i = as_int(k)
        if not it.ctx.branch(z3.And(i < n, i >= -n), "parts-index"):
            it.throw("IndexError", "tuple index out of range")
        return SV("str", full[z3.If(i < 0, i + n, i)])

    def m___len__(self, it):
        return SV("int", z3.Length(self.as_seq(it)))


class SeqStr(Model):
    """a tuple of strings of symbolic length, as z3 Seq(String)"""

    model_name = "seqstr"

    def __init__(self, seq, clean=False):
        super().__init__()
        self.seq = seq
        self.clean = clean  # every element is a parsed path component (T-path: non-empty, not '.', no '/')

    def m___len__(self, it):
        return SV("int", z3.Length(self.seq))

    def truthy(self, it):
        return z3.Length(self.seq) > 0

    def eq(self, it, other):
        if isinstance(other, SeqStr):
            return self.seq == other.seq
        if isinstance(other, (tuple, list)):
            return self.seq == seq_of(list(other))
        return False

    def getitem(self, it, k):
        n = z3.Length(self.seq)
        if isinstance(k, slice):
            a = z3.IntVal(0) if k.start is None else strmodel._norm_index(as_int(k.start), n)
            b = n if k.stop is None else strmodel._norm_index(as_int(k.stop), n)
            return SeqStr(z3.simplify(z3.SubSeq(self.seq, a, z3.If(b - a < 0, 0, b - a))))
        i = as_int(k)
        if not it.ctx.branch(z3.And(i < n, i >= -n), "seq-index"):
            it.throw("IndexError", "tuple index out of range")
        return SV("str", self.seq[z3.If(i < 0, i + n, i)])

    def for_loop(self, it, spec, lname, env, qual, s):
        """for x in <SeqStr>: ghost split  done ++ [x] ++ todo == seq  (index-free, DESIGN 2.7)."""
        if spec is None:
            # concrete length? unroll
            n = z3.simplify(z3.Length(self.seq))
            if z3.is_int_value(n):
                for i in range(n.as_long()):
                    it.assign(s.target, SV("str", z3.simplify(self.seq[i])), env)
                    try:
                        it.exec_block(s.body, env, qual)
                    except _Break:
                        return
                    except _Continue:
                        continue
                it.exec_block(s.orelse, env, qual)
                return
            raise Unsupported(f"loop {lname} over a sequence of symbolic length needs an invariant")
        seq = self.seq
        st = {}

        def cond():
            done = fresh_seq("done")
            todo = fresh_seq("todo")
            st["done"], st["todo"] = done, todo
            it.ctx.assume(seq == z3.Concat(done, todo))
            env.vars["_done"] = SeqStr(done)
            env.vars["_todo"] = SeqStr(todo)
            spec.assume_ghost(it, env, lname)
            return it.ctx.branch(z3.Length(todo) > 0, f"for@{lname}")

        def pre_body():
            todo = st["todo"]
            x = fresh("str", "elem")
            it.ctx.assume(x.t == todo[0])
            it.ctx.assume(x.t == seq[z3.Length(st["done"])])
            if self.clean:
                it.ctx.assume(clean_part(x.t))
            st["x"] = x
            it.assign(s.target, x, env)
            env.vars["_x"] = x
            # ghost step: after the body, done' = done ++ [x], todo' = todo[1:]
            env.vars["_done_next"] = SeqStr(z3.Concat(st["done"], z3.Unit(x.t)))

        spec.ghost_loop = True
        spec.st = st
        env.vars["_done"] = SeqStr(z3.Empty(SS))
        env.vars["_todo"] = SeqStr(seq)
        it.inv_loop(spec, lname, env, qual, s, cond, pre_body)
        # after the loop: todo is empty, so done == seq
        env.vars["_done"] = SeqStr(seq)


from .core import BreakSig as _Break  # noqa: E402
from .core import ContinueSig as _Continue  # noqa: E402


def fresh_seq(hint="seq"):
    return z3.Const(f"{hint}!{next(_ctr)}", SS)


def parse_posix(it, v):
    """PurePosixPath(<str>) for any string (constructor axiom of 3.2)."""
    if isinstance(v, str):
        import pathlib

        p = pathlib.PurePosixPath(v)
        anchor = p.anchor
        parts = list(p.parts[1:] if anchor else p.parts)
        return PathVal("posix", anchor, z3.simplify(seq_of(parts)))
    if isinstance(v, SV) and v.k == "str":
        if z3.is_app(v.t) and v.t.decl().eq(f_path_str):
            # J1 (assumed): str(p) parses back to p
            a0, ps0 = v.t.children()
            a0s = z3.simplify(a0)
            anchor = a0s.as_string() if z3.is_string_value(a0s) else SV("str", a0)
            return PathVal("posix", anchor, ps0)
        A = it.ctx.assume
        A(z3.Implies(clean_part(v.t), z3.And(f_parse_anchor(v.t) == z3.StringVal(""), f_parse_parts(v.t) == z3.Unit(v.t))))
        if it.ctx.proved(clean_part(v.t), "clean-part"):
            return PathVal("posix", "", z3.Unit(v.t))
        a = SV("str", f_parse_anchor(v.t))
        ps = f_parse_parts(v.t)
        A = it.ctx.assume
        A(z3.Or(a.t == z3.StringVal(""), a.t == z3.StringVal("/"), a.t == z3.StringVal("//")))
        A(all_clean(it, ps, f"pp{next(_ctr)}"))
        A((a.t != z3.StringVal("")) == z3.PrefixOf(z3.StringVal("/"), v.t))
        A(z3.Implies(v.t == z3.StringVal(""), z3.And(a.t == z3.StringVal(""), z3.Length(ps) == 0)))
        return PathVal("posix", a, ps)
    raise Unsupported(f"PurePosixPath({type(v).__name__})")


def as_path(it, v, flavour="posix"):
    if isinstance(v, PathVal):
        return v
    if isinstance(v, (str, SV)):
        return parse_posix(it, v)
    raise Unsupported(f"cannot convert {type(v).__name__} to a path")


def join(it, p, other):
    if p.flavour == "any":
        # base_path / str(...)  on an unknown flavour: uninterpreted
        if isinstance(other, PathVal):
            raise Unsupported("join of two paths on an opaque flavour")
        s = term(other)
        return PathVal("any", None, None, opaque=f_any_join(p.opaque, s))
    q = as_path(it, other, p.flavour)
    qa = q.is_abs_term()
    if qa is True:
        return q
    if qa is False:
        return PathVal(p.flavour, p.anchor, z3.simplify(z3.Concat(p.parts, q.parts)))
    if it.ctx.branch(qa, "join-abs"):
        return PathVal(q.flavour, q.anchor, q.parts, abs_known=True)
    return PathVal(p.flavour, p.anchor, z3.simplify(z3.Concat(p.parts, q.parts)), abs_known=p.abs_known)


def _join_many(it, p, args):
    for a in args:
        p = join(it, p, a)
    return p


def install(it):
    mm = it.model_modules

    def mk_pure(i, a, k):
        if not a:
            return PathVal("posix", "", z3.Empty(SS))
        p = as_path(i, a[0]) if not (isinstance(a[0], PathVal) and a[0].flavour == "any") else a[0]
        if isinstance(a[0], PathVal):
            p = PathVal(a[0].flavour, a[0].anchor, a[0].parts, opaque=a[0].opaque)
        for x in a[1:]:
            p = join(i, p, x)
        return p

    pure = Builtin("PurePosixPath", mk_pure)
    pure.pytypes = ()
    conc = Builtin("Path", mk_pure)
    conc.pytypes = ()
    mm["pathlib"] = ModuleVal("pathlib", {"PurePosixPath": pure, "Path": conc, "PurePath": pure})
