"""Interpreter-level value classes (everything that is not a plain python scalar/container or an SV)."""
from __future__ import annotations

from .core import Unsupported


class ClassVal:
    def __init__(self, name, bases=(), attrs=None, qualname=None, module=None, node=None):
        self.name = name
        self.bases = list(bases)
        self.attrs = attrs if attrs is not None else {}
        self.qualname = qualname or name
        self.module = module
        self.node = node
        self.mro = self._c3()

    def _c3(self):
        def merge(seqs):
            res = []
            seqs = [list(s) for s in seqs if s]
            while seqs:
                for s in seqs:
                    head = s[0]
                    if not any(head in t[1:] for t in seqs):
                        break
                else:
                    raise Unsupported("inconsistent MRO for " + self.name)
                res.append(head)
                seqs = [[x for x in t if x is not head] for t in seqs]
                seqs = [t for t in seqs if t]
            return res

        return [self] + merge([b.mro for b in self.bases] + [list(self.bases)])

    def lookup(self, name, after=None):
        mro = self.mro
        if after is not None:
            mro = mro[mro.index(after) + 1 :]
        for c in mro:
            if name in c.attrs:
                return c.attrs[name], c
        return None, None

    def is_subclass(self, other):
        return other in self.mro

    def __repr__(self):
        return f"<class {self.qualname}>"


class Obj:
    _ids = 0

    def __init__(self, cls, fields=None, tag=None):
        self.cls = cls
        self.fields = fields if fields is not None else {}
        Obj._ids += 1
        self.oid = Obj._ids
        self.tag = tag

    def __repr__(self):
        return f"<{self.cls.name}#{self.tag or self.oid}>"


class Closure:
    def __init__(self, node, env, qualname, module, defining_class=None):
        self.node = node
        self.env = env
        self.qualname = qualname
        self.module = module
        self.defining_class = defining_class
        self.is_async = node.__class__.__name__ == "AsyncFunctionDef"
        self.defaults = None  # filled by interpreter: (pos_defaults list, kw_defaults dict)
        self.wrapped = None
        self.name = getattr(node, "name", "<lambda>")

    def __repr__(self):
        return f"<function {self.qualname}>"


class BoundMethod:
    def __init__(self, obj, func):
        self.obj = obj
        self.func = func

    def __repr__(self):
        return f"<bound {self.func!r} of {self.obj!r}>"


class Builtin:
    def __init__(self, name, fn, may_suspend=False):
        self.name = name
        self.fn = fn
        self.may_suspend = may_suspend

    def __repr__(self):
        return f"<builtin {self.name}>"


class Partial:
    def __init__(self, func, args, kwargs):
        self.func = func
        self.args = list(args)
        self.kwargs = dict(kwargs)


class Coro:
    """An un-awaited coroutine / awaitable: awaiting calls run()."""

    def __init__(self, run, name="coro", meta=None):
        self.run = run
        self.name = name
        self.meta = meta or {}
        self.started = False

    def __repr__(self):
        return f"<coro {self.name}>"


class PropertyVal:
    def __init__(self, fget, fset=None):
        self.fget = fget
        self.fset = fset


class StaticM:
    def __init__(self, func):
        self.func = func


class ClassM:
    def __init__(self, func):
        self.func = func


class ModuleVal:
    def __init__(self, name, attrs=None):
        self.name = name
        self.attrs = attrs if attrs is not None else {}

    def __repr__(self):
        return f"<module {self.name}>"


class EnumMember:
    def __init__(self, cls, name, value):
        self.cls = cls
        self.name = name
        self.value = value

    def __repr__(self):
        return f"{self.cls.name}.{self.name}"


class Opaque:
    """A value the executor carries around but cannot look into (sockets, ssl contexts, tracebacks)."""

    def __init__(self, name):
        self.name = name

    def __repr__(self):
        return f"<opaque {self.name}>"


class SymSeq:
    """A sequence of symbolic length: (Array Int T, len).  elem is a 'shape' descriptor:
    a kind string for scalars or a callable(term)->value wrapper."""

    def __init__(self, elem, arr, length, kind="list"):
        self.elem = elem
        self.arr = arr
        self.length = length  # z3 Int term
        self.kind = kind

    def __repr__(self):
        return f"SymSeq<{self.elem}:{self.arr},{self.length}>"


class Model:
    """Base for python-implemented model objects (assumed contracts of externals).  Methods are
    looked up as  m_<name>(interp, *args, **kwargs); attributes as a_<name> or in self.fields."""

    model_name = "model"

    def __init__(self):
        self.fields = {}

    def __repr__(self):
        return f"<model {self.model_name}>"


class Env:
    __slots__ = ("vars", "parent", "globals_decl", "nonlocals_decl", "class_being_defined")

    def __init__(self, parent=None, vars=None):
        self.vars = vars if vars is not None else {}
        self.parent = parent
        self.globals_decl = set()
        self.nonlocals_decl = set()
        self.class_being_defined = None

    def lookup(self, name):
        e = self
        while e is not None:
            if name in e.vars:
                return e.vars[name]
            e = e.parent
        raise KeyError(name)

    def find(self, name):
        e = self
        while e is not None:
            if name in e.vars:
                return e
            e = e.parent
        return None

    def root(self):
        e = self
        while e.parent is not None:
            e = e.parent
        return e
