"""Model modules of the standard library other than asyncio / pathlib (assumed contracts, T-py)."""
from __future__ import annotations

import errno as _errno
import stat as _stat

import z3

from . import strmodel
from .core import SV, PyRaise, Unsupported, as_int, as_real, fresh, kind_of, term
from .values import (
    BoundMethod,
    Builtin,
    ClassM,
    ClassVal,
    Closure,
    Coro,
    EnumMember,
    Model,
    ModuleVal,
    Obj,
    Opaque,
    Partial,
    PropertyVal,
    StaticM,
    SymSeq,
)


class LoggerModel(Model):
    """logging.Logger: every call is a sink event ('log', level, args) in ctx.events (C20)."""

    model_name = "logger"

    def __init__(self, name):
        super().__init__()
        self.name = name

    def getattr(self, it, name):
        if name in ("debug", "info", "warning", "error", "exception", "critical"):

            def emit(it2, a, k, level=name):
                it2.ctx.event("log", level, tuple(a), it2.exc_stack[-1] if (level == "exception" and it2.exc_stack) else None)
                return None

            return Builtin("logger." + name, emit)
        raise Unsupported("logger." + name)


class DefaultDictBase:
    pass


class DequeModel(Model):
    model_name = "deque"
    isa = ("deque",)

    def __init__(self, items=()):
        super().__init__()
        self.items = list(items)

    def getattr(self, it, name):
        if name == "append":
            return Builtin("deque.append", lambda i, a, k: self.items.append(a[0]))
        if name == "popleft":

            def pl(i, a, k):
                if not self.items:
                    i.throw("IndexError", "pop from an empty deque")
                return self.items.pop(0)

            return Builtin("deque.popleft", pl)
        raise Unsupported("deque." + name)

    def truthy(self, it):
        return bool(self.items)

    def iterate(self, it):
        return list(self.items)

    def m___len__(self, it):
        return len(self.items)


def make_namedtuple(it, typename, field_names):
    if isinstance(field_names, str):
        field_names = field_names.replace(",", " ").split()
    field_names = list(field_names)
    cls = ClassVal(typename, [], {})
    cls.nt_fields = field_names

    def builder(it2, c, args, kwargs):
        o = Obj(c)
        vals = list(args)
        if len(vals) > len(field_names):
            it2.throw("TypeError", "too many arguments")
        for i, f in enumerate(field_names):
            if i < len(vals):
                if f in kwargs:
                    it2.throw("TypeError", "multiple values")
                o.fields[f] = vals[i]
            elif f in kwargs:
                o.fields[f] = kwargs.pop(f)
            else:
                it2.throw("TypeError", f"missing argument {f}")
        if [x for x in kwargs if x not in field_names]:
            it2.throw("TypeError", "unexpected keyword")
        return o

    def on_subclass(it2, sub):
        sub.builder = lambda it3, c, args, kwargs: builder(it3, c, args, kwargs)
        sub.nt_fields = field_names

    cls.builder = builder
    cls.on_subclass = on_subclass

    def nt_iter(it2, a, k):
        o = a[0]
        return [o.fields[f] for f in field_names]

    b = Builtin("namedtuple.__iter__", nt_iter)
    b.is_method = True
    cls.attrs["__iter_fields__"] = b
    return cls


def install(it):
    mm = it.model_modules

    # ---------------------------------------------------------------- abc
    abc_cls = ClassVal("ABC")
    mm["abc"] = ModuleVal("abc", {"ABC": abc_cls, "abstractmethod": Builtin("abstractmethod", lambda i, a, k: a[0])})

    # ---------------------------------------------------------------- functools
    def wraps(i, a, k):
        wrapped = a[0]

        def deco(i2, a2, k2):
            f = a2[0]
            if isinstance(f, Closure):
                f.wrapped = wrapped
                f.name = getattr(wrapped, "name", f.name)
            return f

        return Builtin("wraps-deco", deco)

    mm["functools"] = ModuleVal(
        "functools",
        {
            "wraps": Builtin("wraps", wraps),
            "partial": Builtin("partial", lambda i, a, k: Partial(a[0], a[1:], k)),
        },
    )

    # ---------------------------------------------------------------- collections
    dd = ClassVal("defaultdict")
    dq = Builtin("deque", lambda i, a, k: DequeModel(i.iterate(a[0]) if a else ()))
    dq.pytypes = ()
    mm["collections"] = ModuleVal(
        "collections",
        {
            "defaultdict": dd,
            "namedtuple": Builtin("namedtuple", lambda i, a, k: make_namedtuple(i, a[0], a[1])),
            "deque": dq,
        },
    )

    # ---------------------------------------------------------------- enum
    def enum_call(i, cls, args, kwargs):
        # functional API: Enum("Name", "A B C")
        name, members = args[0], args[1]
        if isinstance(members, str):
            members = members.replace(",", " ").split()
        ec = ClassVal(name, [enum_cls], {})
        ec.members = []
        for n, m in enumerate(members, 1):
            em = EnumMember(ec, m, n)
            ec.attrs[m] = em
            ec.members.append(em)
        return ec

    enum_cls = ClassVal("Enum")
    enum_cls.builder = enum_call
    mm["enum"] = ModuleVal("enum", {"Enum": enum_cls})

    # ---------------------------------------------------------------- logging
    mm["logging"] = ModuleVal("logging", {"getLogger": Builtin("getLogger", lambda i, a, k: LoggerModel(a[0] if a else "root"))})

    # ---------------------------------------------------------------- sys / errno / socket / stat / locale / threading
    class VersionInfo(Model):
        def getitem(self, it2, k):
            return (3, 12, 1, "final", 0)[k]

    def exc_info(i, a, k):
        if i.exc_stack:
            e = i.exc_stack[-1]
            return (e.cls, e, Opaque("traceback"))
        return (None, None, None)

    mm["sys"] = ModuleVal("sys", {"version_info": VersionInfo(), "exc_info": Builtin("exc_info", exc_info)})
    mm["errno"] = ModuleVal("errno", {n: getattr(_errno, n) for n in ("EADDRINUSE", "ENOENT", "EACCES")})
    af = ClassVal("AddressFamily")
    mm["socket"] = ModuleVal("socket", {"AF_INET": EnumMember(af, "AF_INET", 2), "AF_INET6": EnumMember(af, "AF_INET6", 10)})
    st = {n: getattr(_stat, n) for n in ("S_IFREG", "S_IFDIR", "S_IFLNK")}

    def filemode(i, a, k):
        m = a[0]
        if isinstance(m, int):
            return _stat.filemode(m)
        r = fresh("str", "filemode")
        i.ctx.assume(z3.Length(r.t) == 10)
        i.ctx.assume(r.t == z3.Function("py_filemode", z3.IntSort(), z3.StringSort())(as_int(m)))
        return r

    st["filemode"] = Builtin("filemode", filemode)
    mm["stat"] = ModuleVal("stat", st)
    mm["locale"] = ModuleVal("locale", {"setlocale": Builtin("setlocale", lambda i, a, k: "C"), "LC_ALL": 6})

    class LockModel(Model):
        model_name = "lock"

        def getattr(self, it2, name):
            if name in ("__enter__",):
                return Builtin("lock.enter", lambda i, a, k: True)
            if name == "__exit__":
                return Builtin("lock.exit", lambda i, a, k: False)
            raise Unsupported("Lock." + name)

    mm["threading"] = ModuleVal("threading", {"Lock": Builtin("Lock", lambda i, a, k: LockModel())})

    # ---------------------------------------------------------------- contextlib
    class GenCM(Model):
        """@contextmanager generator functions are trusted wrappers: the only one in the tree is
        common.setlocale (process-global locale; T-time assumes the C locale inside)."""

        model_name = "contextmanager"

        def __init__(self, f, a, k):
            super().__init__()
            self.f = f

        def getattr(self, it2, name):
            if name == "__enter__":
                return Builtin("cm.enter", lambda i, a, k: "C")
            if name == "__exit__":
                return Builtin("cm.exit", lambda i, a, k: False)
            raise Unsupported("contextmanager." + name)

    def contextmanager(i, a, k):
        f = a[0]
        return Builtin("contextmanager:" + getattr(f, "name", "?"), lambda i2, a2, k2: GenCM(f, a2, k2))

    mm["contextlib"] = ModuleVal(
        "contextlib",
        {
            "contextmanager": Builtin("contextmanager", contextmanager),
            "asynccontextmanager": Builtin("asynccontextmanager", lambda i, a, k: a[0]),
        },
    )

    # ---------------------------------------------------------------- operator / io
    def attrgetter(i, a, k):
        name = a[0]
        return Builtin("attrgetter", lambda i2, a2, k2: i2.getattr_(a2[0], name))

    mm["operator"] = ModuleVal("operator", {"attrgetter": Builtin("attrgetter", attrgetter)})
    mm["io"] = ModuleVal("io", {"SEEK_SET": 0, "SEEK_END": 2, "SEEK_CUR": 1, "BytesIO": Builtin("BytesIO", lambda i, a, k: _unsup("io.BytesIO (no model)"))})

    # ---------------------------------------------------------------- time / datetime / calendar / re: see models_time
    from . import models_time

    models_time.install(it)


def _unsup(m):
    raise Unsupported(m)
