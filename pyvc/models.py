"""Builtins and model modules: the assumed contracts of Python's builtins, asyncio, pathlib, functools ...
(trusted base T-py / T-aio / T-path / T-time of DESIGN.md 2.12).  Everything here is *assumed*, listed in
the evidence files, and cross-checked against CPython by bin/xcheck (bounded, not proof)."""
from __future__ import annotations

import ast
import fractions

import z3

from . import strmodel
from .core import SV, PyRaise, Unsupported, as_int, as_real, fresh, kind_of, term
from .values import (
    BoundMethod,
    Builtin,
    ClassM,
    ClassVal,
    Closure,
    Coro,
    EnumMember,
    Env,
    Model,
    ModuleVal,
    Obj,
    Opaque,
    Partial,
    PropertyVal,
    StaticM,
    SymSeq,
)

EXC_TREE = {
    "BaseException": [],
    "Exception": ["BaseException"],
    "CancelledError": ["BaseException"],
    "KeyboardInterrupt": ["BaseException"],
    "ArithmeticError": ["Exception"],
    "ZeroDivisionError": ["ArithmeticError"],
    "AssertionError": ["Exception"],
    "AttributeError": ["Exception"],
    "ImportError": ["Exception"],
    "LookupError": ["Exception"],
    "IndexError": ["LookupError"],
    "KeyError": ["LookupError"],
    "NameError": ["Exception"],
    "OSError": ["Exception"],
    "ConnectionError": ["OSError"],
    "ConnectionResetError": ["ConnectionError"],
    "BrokenPipeError": ["ConnectionError"],
    "FileExistsError": ["OSError"],
    "FileNotFoundError": ["OSError"],
    "IsADirectoryError": ["OSError"],
    "NotADirectoryError": ["OSError"],
    "PermissionError": ["OSError"],
    "TimeoutError": ["OSError"],
    "RuntimeError": ["Exception"],
    "NotImplementedError": ["RuntimeError"],
    "StopIteration": ["Exception"],
    "StopAsyncIteration": ["Exception"],
    "TypeError": ["Exception"],
    "ValueError": ["Exception"],
    "UnicodeError": ["ValueError"],
    "UnicodeDecodeError": ["UnicodeError"],
    "UnicodeEncodeError": ["UnicodeError"],
    "QueueEmpty": ["Exception"],
    "InvalidStateError": ["Exception"],
    "IncompleteReadError": ["Exception"],  # EOFError subclass in CPython; only Exception-ness is used
    "LimitOverrunError": ["Exception"],
}


def B(name, **kw):
    def deco(fn):
        b = Builtin(name, fn)
        for k, v in kw.items():
            setattr(b, k, v)
        return b

    return deco


def install(it):
    # ---------------------------------------------------------------- exception classes
    for name in EXC_TREE:
        _mk_exc(it, name)
    obj_cls = ClassVal("object")
    it.object_cls = obj_cls

    bi = it.builtins
    for name in EXC_TREE:
        if name not in ("QueueEmpty", "InvalidStateError", "CancelledError", "IncompleteReadError", "LimitOverrunError"):
            bi[name] = it.exc_classes[name]
    bi["object"] = obj_cls
    bi["None"] = None
    bi["True"] = True
    bi["False"] = False

    def typed(name, kinds, fn):
        b = Builtin(name, fn)
        b.pytypes = kinds
        bi[name] = b
        return b

    # ---------------------------------------------------------------- builtins
    def b_len(it, a, k):
        v = a[0]
        if isinstance(v, SV):
            return strmodel.m_len(it, v)
        if isinstance(v, SymSeq):
            return SV("int", v.length)
        if isinstance(v, (str, bytes, list, tuple, dict, set, frozenset)):
            return len(v)
        if isinstance(v, Model):
            if not hasattr(v, "m___len__"):
                raise Unsupported(f"len() of {v.model_name}")
            return v.m___len__(it)
        if isinstance(v, Obj):
            return it.call_method(v, "__len__", [])
        it.throw("TypeError", "object has no len()")

    bi["len"] = Builtin("len", b_len)

    def b_isinstance(it, a, k):
        return it.isinstance_(a[0], a[1])

    bi["isinstance"] = Builtin("isinstance", b_isinstance)

    def b_issubclass(it, a, k):
        return a[0].is_subclass(a[1])

    bi["issubclass"] = Builtin("issubclass", b_issubclass)

    def b_getattr(it, a, k):
        name = a[1]
        if not isinstance(name, str):
            raise Unsupported("getattr with symbolic name")
        if len(a) > 2:
            try:
                return it.getattr_(a[0], name)
            except PyRaise as pr:
                if pr.exc.cls.is_subclass(it.exc_classes["AttributeError"]):
                    return a[2]
                raise
        return it.getattr_(a[0], name)

    bi["getattr"] = Builtin("getattr", b_getattr)
    bi["setattr"] = Builtin("setattr", lambda it, a, k: it.setattr_(a[0], a[1], a[2]))

    def b_hasattr(it, a, k):
        try:
            it.getattr_(a[0], a[1])
            return True
        except PyRaise as pr:
            if pr.exc.cls.is_subclass(it.exc_classes["AttributeError"]):
                return False
            raise

    bi["hasattr"] = Builtin("hasattr", b_hasattr)

    def b_str(it, a, k):
        if not a:
            return ""
        return strmodel.to_str(it, a[0])

    sb = typed("str", ("str",), b_str)
    str_cls = ClassVal("str")

    def str_on_subclass(it2, sub):
        def build(it3, c, args, kwargs):
            o = Obj(c)
            o.fields["__value__"] = strmodel.to_str(it3, it3.unbox(args[0])) if args else ""
            return o

        sub.builder = build
        sub.pytypes = None

    str_cls.on_subclass = str_on_subclass
    sb.as_class = str_cls

    def b_repr(it, a, k):
        return strmodel.to_repr(it, a[0])

    bi["repr"] = Builtin("repr", b_repr)

    def b_int(it, a, k):
        if not a:
            return 0
        v = a[0]
        if isinstance(v, SV):
            if v.k == "int":
                return v
            if v.k == "bool":
                return SV("int", as_int(v))
            if v.k == "real":
                r = fresh("int", "trunc")
                # truncation toward zero
                it.ctx.assume(
                    z3.If(v.t >= 0, z3.And(z3.ToReal(r.t) <= v.t, v.t < z3.ToReal(r.t) + 1), z3.And(z3.ToReal(r.t) >= v.t, v.t > z3.ToReal(r.t) - 1))
                )
                return r
            if v.k == "str":
                return strmodel_int_of_str(it, v)
            raise Unsupported("int() of symbolic " + v.k)
        if isinstance(v, (int, float, str, bool)):
            try:
                return int(v, *a[1:]) if isinstance(v, str) else int(v)
            except ValueError:
                it.throw("ValueError", "invalid literal for int()")
        raise Unsupported(f"int() of {type(v).__name__}")

    typed("int", ("int",), b_int)

    def b_float(it, a, k):
        v = a[0]
        if isinstance(v, SV):
            return SV("real", as_real(v))
        return float(v)

    typed("float", ("float",), b_float)

    def b_bool(it, a, k):
        return it.mk_bool(it.truthy_term(a[0])) if a else False

    typed("bool", ("bool",), b_bool)

    def b_tuple(it, a, k):
        if not a:
            return ()
        if isinstance(a[0], SymSeq):
            s = a[0]
            return SymSeq(s.elem, s.arr, s.length, kind="tuple")
        return tuple(it.iterate(a[0]))

    typed("tuple", ("tuple",), b_tuple)

    def b_list(it, a, k):
        if not a:
            return []
        if isinstance(a[0], SymSeq):
            s = a[0]
            return SymSeq(s.elem, s.arr, s.length, kind="list")
        return list(it.iterate(a[0]))

    typed("list", ("list",), b_list)

    def b_dict(it, a, k):
        d = {}
        if a:
            if isinstance(a[0], dict):
                d.update(a[0])
            else:
                for kv in it.iterate(a[0]):
                    kk, vv = it.iterate(kv)
                    d[kk] = vv
        d.update(k)
        return d

    typed("dict", ("dict",), b_dict)

    def b_set(it, a, k):
        return set(it.iterate(a[0])) if a else set()

    typed("set", ("set",), b_set)
    typed("bytes", ("bytes",), lambda it, a, k: b"" if not a else _unsup("bytes()"))
    typed("frozenset", ("set",), lambda it, a, k: frozenset(it.iterate(a[0])) if a else frozenset())

    def b_map(it, a, k):
        f = a[0]
        if len(a) == 2 and isinstance(a[1], SymSeq) and isinstance(f, Builtin) and f.name in ("int", "str"):
            seq = a[1]
            import itertools

            if f.name == "int":
                # int() of each element: ValueError as soon as one element is not an integer literal
                if it.ctx.choose(2, "map-int-outcome") == 1:
                    it.throw("ValueError", "invalid literal for int() with base 10")
                arr = z3.Const(f"ints!{next(strmodel._split_ctr)}", z3.ArraySort(z3.IntSort(), z3.IntSort()))
                return SymSeq("int", arr, seq.length, kind="list")
            arr = z3.Const(f"strs!{next(strmodel._split_ctr)}", z3.ArraySort(z3.IntSort(), z3.StringSort()))
            return SymSeq("str", arr, seq.length, kind="list")
        seqs = [it.iterate(x) for x in a[1:]]
        return [it.call(f, list(xs), {}) for xs in zip(*seqs)]

    bi["map"] = Builtin("map", b_map)

    def b_filter(it, a, k):
        f = a[0]
        from . import objseq

        if isinstance(a[1], objseq.ObjSeq):
            return objseq.Filtered(a[1], f)
        out = []
        for x in it.iterate(a[1]):
            r = x if f is None else it.call(f, [x], {})
            if it.truthy(r, "filter"):
                out.append(x)
        return out

    bi["filter"] = Builtin("filter", b_filter)

    def b_all(it, a, k):
        for x in it.iterate(a[0]):
            if not it.truthy(x, "all"):
                return False
        return True

    def b_any(it, a, k):
        for x in it.iterate(a[0]):
            if it.truthy(x, "any"):
                return True
        return False

    bi["all"] = Builtin("all", b_all)
    bi["any"] = Builtin("any", b_any)

    def minmax(is_min):
        def f(it, a, k):
            from . import objseq

            if len(a) == 1 and isinstance(a[0], objseq.Filtered):
                if not is_min:
                    raise Unsupported("max over a filtered list of unknown length")
                return objseq.min_filtered(it, a[0], k.get("key"), k)
            if len(a) == 1:
                items = list(it.iterate(a[0]))
            else:
                items = list(a)
            key = k.get("key")
            if not items:
                if "default" in k:
                    return k["default"]
                it.throw("ValueError", "min() arg is an empty sequence")
            best = items[0]
            bk = it.call(key, [best], {}) if key else best
            for x in items[1:]:
                xk = it.call(key, [x], {}) if key else x
                c = it.compare(ast.Lt() if is_min else ast.Gt(), xk, bk)
                if it.truthy(c, "minmax"):
                    best, bk = x, xk
            return best

        return f

    bi["min"] = Builtin("min", minmax(True))
    bi["max"] = Builtin("max", minmax(False))
    bi["enumerate"] = Builtin(
        "enumerate", lambda it, a, k: [(i + k.get("start", a[1] if len(a) > 1 else 0), x) for i, x in enumerate(it.iterate(a[0]))]
    )
    bi["zip"] = Builtin("zip", lambda it, a, k: [tuple(xs) for xs in zip(*[it.iterate(x) for x in a])])
    bi["range"] = Builtin("range", lambda it, a, k: list(range(*a)) if not any(isinstance(x, SV) for x in a) else _unsup("symbolic range"))
    bi["reversed"] = Builtin("reversed", lambda it, a, k: list(reversed(it.iterate(a[0]))))
    bi["sorted"] = Builtin("sorted", lambda it, a, k: _unsup("sorted"))
    bi["print"] = Builtin("print", lambda it, a, k: None)
    bi["id"] = Builtin("id", lambda it, a, k: id(a[0]))
    bi["callable"] = Builtin("callable", lambda it, a, k: isinstance(a[0], (Closure, BoundMethod, Builtin, Partial, ClassVal)))

    def b_round(it, a, k):
        v = a[0]
        if len(a) > 1:
            raise Unsupported("round with ndigits")
        if isinstance(v, SV):
            if v.k == "int":
                return v
            r = fresh("int", "round")
            # P-float: |r - x| <= 1/2 (banker's tie-breaking not modelled)
            it.ctx.assume(z3.And(z3.ToReal(r.t) - v.t <= z3.RealVal("1/2"), v.t - z3.ToReal(r.t) <= z3.RealVal("1/2")))
            it.ctx.assumptions_used.add("P-float: round(x) is some integer r with |r-x| <= 1/2")
            return r
        return round(v)

    bi["round"] = Builtin("round", b_round)

    def b_abs(it, a, k):
        v = a[0]
        if isinstance(v, SV):
            return SV(v.k, z3.If(v.t >= 0, v.t, -v.t))
        return abs(v)

    bi["abs"] = Builtin("abs", b_abs)

    def b_iter(it, a, k):
        from .interp import PyIter

        return PyIter(it.iterate(a[0]))

    bi["iter"] = Builtin("iter", b_iter)

    def b_next(it, a, k):
        x = a[0]
        from .interp import PyIter

        if isinstance(x, PyIter):
            if x.pos < len(x.items):
                x.pos += 1
                return x.items[x.pos - 1]
            if len(a) > 1:
                return a[1]
            it.throw("StopIteration")
        if isinstance(x, Model) and hasattr(x, "m___next__"):
            return x.m___next__(it)
        raise Unsupported("next() on " + type(x).__name__)

    bi["next"] = Builtin("next", b_next)

    def b_type(it, a, k):
        v = a[0]
        if isinstance(v, Obj):
            return v.cls
        raise Unsupported("type() of non-object")

    bi["type"] = Builtin("type", b_type)

    def b_property(it, a, k):
        return PropertyVal(a[0])

    pb = Builtin("property", b_property)
    bi["property"] = pb
    bi["staticmethod"] = Builtin("staticmethod", lambda it, a, k: StaticM(a[0]))
    bi["classmethod"] = Builtin("classmethod", lambda it, a, k: ClassM(a[0]))
    bi["NotImplemented"] = Opaque("NotImplemented")
    bi["__name__"] = "aioftp"

    from . import models_aio, models_lib, models_path

    models_lib.install(it)
    models_aio.install(it)
    models_path.install(it)


def _unsup(msg):
    raise Unsupported(msg)


def _mk_exc(it, name):
    if name in it.exc_classes:
        return it.exc_classes[name]
    bases = [_mk_exc(it, b) for b in EXC_TREE[name]]
    c = ClassVal(name, bases, {})
    it.exc_classes[name] = c
    return c


def strmodel_int_of_str(it, v):
    """int(s) for a symbolic str (T-str): ValueError unless s (stripped) is an optional sign followed by
    decimal digits *of any script* with optional underscores.  Contract used: for ASCII-digit strings the value is
    str.to_int; py_isdigit(s) does NOT imply int(s) succeeds (e.g. superscript two)."""
    t = v.t
    ascii_digits = z3.InRe(t, z3.Plus(z3.Range("0", "9")))
    ok = z3.Function("py_int_ok", z3.StringSort(), z3.BoolSort())
    it.ctx.assume(z3.Implies(ascii_digits, ok(t)))
    it.ctx.assume(z3.Implies(t == z3.StringVal(""), z3.Not(ok(t))))
    if not it.ctx.branch(ok(t), "int-parse-ok"):
        it.throw("ValueError", "invalid literal for int() with base 10")
    r = fresh("int", "intval")
    it.ctx.assume(r.t == strmodel.f_int_of(t))
    it.ctx.assume(z3.Implies(ascii_digits, z3.And(r.t == z3.StrToInt(t), r.t >= 0)))
    # a string of digit characters carries no sign
    it.ctx.assume(z3.Implies(strmodel.f_isdigit(t), r.t >= 0))
    return r
