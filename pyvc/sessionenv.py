"""Session environment: Server object + connection in an arbitrary state satisfying Inv (DESIGN.md 3.3),
abstract backend / user manager / streams, interference (SEQ / PIPE) at suspension points, effect guards."""
from __future__ import annotations

import z3

from . import models_path
from .core import SV, PathEnd, PyRaise, Unsupported, as_int, fresh, term
from .interp import LazyOpt
from .models_aio import FutureModel, ListenerModel, PortPool, QueueModel, TaskModel
from .models_path import PathVal, fresh_seq
from .session import ConnModel, Reader, Slot, Writer, b_and, b_implies, b_not, b_or, tt
from .values import BoundMethod, Builtin, ClassVal, Closure, Coro, Model, Obj, Opaque

SERVER = "aioftp.server"

CONST_FIELDS = [
    "client_host",
    "client_port",
    "server_host",
    "server_port",
    "command_connection",
    "socket_timeout",
    "idle_timeout",
    "wait_future_timeout",
    "block_size",
    "path_io_factory",
    "path_timeout",
    "response",
    "_dispatcher",
    "path_io",
]
# fields that exist from session start and are only ever re-assigned
VAR_FIELDS = ["passive_server_port", "extra_workers", "acquired", "restart_offset"]
# fields that may be absent / pending / done
OPT_FIELDS = ["user", "logged", "current_directory", "rename_from", "passive_server", "data_connection", "transfer_type"]

PIPE_HAVOC = VAR_FIELDS + OPT_FIELDS
SEQ_HAVOC = ["data_connection", "extra_workers"]


class ObjMap(Model):
    """dict keyed by objects (throttle_per_user, user_manager.available_connections, server.connections):
    membership of a key object is a symbolic boolean (memoised), values are created on demand."""

    model_name = "objmap"

    def __init__(self, tag, mkvalue, total=False):
        super().__init__()
        self.tag = tag
        self.mkvalue = mkvalue
        self.member = {}
        self.vals = {}
        self.total = total

    def _mem(self, it, k):
        if id(k) not in self.member:
            self.member[id(k)] = True if self.total else fresh("bool", f"{self.tag}_has").t
        return self.member[id(k)]

    def contains(self, it, k):
        return it.mk_bool(self._mem(it, k))

    def getitem(self, it, k):
        m = self._mem(it, k)
        if not (m if isinstance(m, bool) else it.ctx.branch(m, f"{self.tag}-has")):
            it.throw("KeyError", k)
        self.member[id(k)] = True
        if id(k) not in self.vals:
            self.vals[id(k)] = self.mkvalue(it, k)
        return self.vals[id(k)]

    def setitem(self, it, k, v):
        self.member[id(k)] = True
        self.vals[id(k)] = v
        it.ctx.event("map.set", self.tag, k)

    def getattr(self, it, name):
        if name == "pop":

            def pop(i, a, k):
                v = self.getitem(i, a[0])
                self.member[id(a[0])] = False
                i.ctx.event("map.pop", self.tag, a[0])
                return v

            return Builtin("objmap.pop", pop)
        if name == "values":
            raise Unsupported(f"{self.tag}.values()")
        if name == "get":
            raise Unsupported(f"{self.tag}.get()")
        raise Unsupported(f"{self.tag}.{name}")


class WorkerSet(Model):
    """connection.extra_workers: known tasks added on this path + possibly others"""

    model_name = "workerset"

    def __init__(self, others_nonempty):
        super().__init__()
        self.known = []
        self.others = others_nonempty  # bool | z3 Bool
        self.other_task = TaskModel(None, tag="other-workers")

    def truthy(self, it):
        if self.known:
            return True
        return self.others

    def getattr(self, it, name):
        if name == "add":
            return Builtin("workers.add", lambda i, a, k: (self.known.append(a[0]), i.ctx.event("workers.add", a[0]))[1])
        raise Unsupported("extra_workers." + name)

    def iterate(self, it):
        out = list(self.known)
        o = self.others if isinstance(self.others, bool) else it.ctx.branch(self.others, "other-workers")
        self.others = o
        if o:
            out.append(self.other_task)
        return out

    def m___or__(self, it, other):
        return list(it.iterate(other)) + self.iterate(it)

    def m___ror__(self, it, other):
        return list(it.iterate(other)) + self.iterate(it)


class SockModel(Model):
    model_name = "socket"

    def __init__(self, it, family, listener):
        super().__init__()
        self.family = it.model_modules["socket"].attrs[family]
        self.fam = family
        self.listener = listener

    def getattr(self, it, name):
        if name == "family":
            return self.family
        if name == "getsockname":

            def gsn(i, a, k):
                port = self.listener.port if self.listener.port is not None else fresh("int", "kernel_port")
                if getattr(self.listener, "bound_port", None) is None:
                    self.listener.bound_port = fresh("int", "bound_port")
                    i.ctx.assume(z3.And(self.listener.bound_port.t > 0, self.listener.bound_port.t < 65536))
                bp = self.listener.bound_port
                if self.fam == "AF_INET":
                    return ("192.0.2.1", bp)
                return ("2001:db8::1", bp, 0, 0)

            return Builtin("socket.getsockname", gsn)
        raise Unsupported("socket." + name)


class Session:
    def __init__(self, u, mode="SEQ", ports=None, tag="s", limits=False, path_theory=True):
        self.limits = limits
        self.path_theory = path_theory
        self.u = u
        self.it = u.it
        self.ctx = u.ctx
        self.mode = mode
        self.tag = tag
        self.guards = []  # list of (prop, fn(session, kind, detail) -> [(name, formula)])
        self.epoch = 0
        it = self.it
        it.hooks["suspend"] = self.on_suspend
        it.hooks["on_write"] = self.on_obj_write
        it.hooks["listener_sockets"] = self.listener_sockets
        self.srvmod = it.modules[SERVER]
        self.ghost = {"auth_user": None, "auth_ok": False}
        self.frame_violations = []
        self.build_server(ports)
        self.build_connection()

    # ------------------------------------------------------------------ construction
    def lazy(self, kind, name, constraint=None):
        return LazyOpt(self.it, kind, name, constraint)

    def build_server(self, ports):
        it, u = self.it, self.u
        cls = self.srvmod.attrs["Server"]
        s = Obj(cls, tag="server")
        f = s.fields
        f["block_size"] = fresh("int", "block_size")
        self.ctx.assume(f["block_size"].t > 0)
        for n in ("socket_timeout", "idle_timeout", "wait_future_timeout", "path_timeout"):
            f[n] = self.lazy("real", n, lambda v: v.t >= 0)
        f["path_io_factory"] = Opaque("path_io_factory")
        # NAT address: unset or some dotted quad (a concrete representative; the reply text is not under contract here)
        f["ipv4_pasv_forced_response_address"] = LazyOpt(self.it, "str", "forced_addr", concrete="203.0.113.7")
        if ports is None:
            ports = u.choose(2, "data-ports-configured") == 0
        if ports:
            size = fresh("int", "pool_size")
            cnt = z3.Const("pool_cnt0", z3.ArraySort(z3.IntSort(), z3.IntSort()))
            self.ctx.assume(size.t >= 0)
            p = z3.Int("p!pool")
            self.ctx.add_axiom(z3.ForAll([p], cnt[p] >= 0, patterns=[cnt[p]]))
            f["available_data_ports"] = PortPool(cnt, size.t)
        else:
            f["available_data_ports"] = None
        f["user_manager"] = self.mk_user_manager()
        from contracts.c10_limits import ac_state

        if self.limits:
            f["available_connections"] = ac_state(u, "srv")
        else:
            f["available_connections"] = Opaque("available_connections (not used by this unit)")
        f["throttle"] = Opaque("server.throttle")
        f["throttle_per_connection"] = Opaque("server.throttle_per_connection")
        f["throttle_per_user"] = ObjMap("throttle_per_user", lambda i, k: Opaque("user-throttle"))
        f["encoding"] = "utf-8"
        f["ssl"] = None
        f["_start_server_extra_arguments"] = {}
        f["connections"] = ObjMap("connections", lambda i, k: Opaque("other-connection"))
        f["server_port"] = fresh("int", "server_port")
        f["server_host"] = fresh("str", "server_host")
        self.server = s

    def mk_user(self, tag="user"):
        cls = self.srvmod.attrs["User"]
        o = Obj(cls, tag=tag)
        f = o.fields
        f["login"] = self.lazy("str", tag + "_login")
        f["password"] = self.lazy("str", tag + "_password")
        f["base_path"] = PathVal("any", None, None, opaque=z3.Const(f"{tag}_base!{next(models_path._ctr)}", models_path.OP))
        if self.path_theory:
            hp = fresh_seq(tag + "_home")
            self.ctx.assume(models_path.no_dotdot(hp))
            f["home_path"] = PathVal("posix", "/", hp)
        else:
            f["home_path"] = PathVal("any", None, None, opaque=z3.Const(f"{tag}_home!{next(models_path._ctr)}", models_path.OP))
        f["permissions"] = Opaque("permissions")
        for n in ("maximum_connections", "read_speed_limit", "write_speed_limit", "read_speed_limit_per_connection", "write_speed_limit_per_connection"):
            f[n] = self.lazy("int", f"{tag}_{n}", lambda v: v.t >= 0)
        return o

    def mk_user_manager(self):
        """abstract user manager: the assumed contract of MemoryUserManager (verified separately in
        contracts/c03_auth.py against the real class)"""
        base = self.srvmod.attrs["AbstractUserManager"]
        sess = self
        cls = ClassVal("AbstractUM", [base], {})
        GUR = base.attrs["GetUserResponse"]

        def get_user(i, a, k):
            login = a[1]

            def run():
                c = i.ctx.choose(3, "get_user-state")
                state = GUR.members[c]
                i.ctx.event("um.get_user", login, state.name)
                if state.name == "ERROR":
                    sess.vouch(None)
                    # no slot taken
                    user = None if i.ctx.choose(2, "get_user-error-user") == 0 else sess.mk_user("u_err")
                    return (state, user, fresh("str", "info"))
                user = sess.mk_user("u_new")
                sess.um_slot(user, -1)
                if state.name == "OK":
                    # OK => the account needs no password
                    i.ctx.ghost.setdefault("um_ok_users", []).append(user)
                    sess.vouch(user)
                else:
                    sess.vouch(None)
                return (state, user, fresh("str", "info"))

            return Coro(run, "um.get_user")

        def authenticate(i, a, k):
            user, pw = a[1], a[2]

            def run():
                r = i.ctx.choose(2, "authenticate") == 0
                i.ctx.event("um.authenticate", user, r)
                if r:
                    sess.vouch(user)
                return r

            return Coro(run, "um.authenticate")

        def notify_logout(i, a, k):
            user = a[1]

            def run():
                i.ctx.event("um.notify_logout", user)
                sess.um_slot(user, +1)

            return Coro(run, "um.notify_logout")

        for name, fn in (("get_user", get_user), ("authenticate", authenticate), ("notify_logout", notify_logout)):
            b = Builtin("um." + name, fn)
            b.is_method = True
            cls.attrs[name] = b
        o = Obj(cls, tag="user_manager")
        o.fields["timeout"] = None
        return o

    def listener_sockets(self, it, listener):
        """sockets of a listening asyncio.Server: IPv4, IPv6 or both (dual stack)"""
        if getattr(listener, "socks", None) is None:
            c = it.ctx.choose(3, "listener-families")
            fams = [["AF_INET"], ["AF_INET6"], ["AF_INET6", "AF_INET"]][c]
            listener.socks = [SockModel(it, f, listener) for f in fams]
        return list(listener.socks)

    # per-user slot ledger (I6), kept as a python list of (user, delta) events; see c10
    def um_slot(self, user, delta):
        """ghost ledger of per-user slots held by this session: list of [user object, condition]"""
        self.ctx.event("um.slot", user, delta)
        held = self.ghost.setdefault("held_slots", [])
        if delta < 0:
            held.append([user, True])
            return
        for e in held:
            if e[0] is user:
                # returning a slot: the session must hold one of this user
                self.ctx.check(f"{self.cur_fn()}/um:returns-only-a-slot-it-holds", tt(e[1]), info={"props": ["C10"]})
                held.remove(e)
                return
        self.ctx.check(f"{self.cur_fn()}/um:returns-only-a-slot-it-holds", z3.BoolVal(False), info={"props": ["C10"]})

    def vouch(self, user):
        """the user manager vouches for `user` (get_user OK / authenticate True) or for nobody (None)"""
        self.ghost["auth_user"] = user
        c = self.conn
        if user is None:
            self.ghost["auth_ok"] = False
            return
        s = c.slots.get("user")
        if s is not None and s.present is True and s.fut.done is True and s.fut.value is user:
            self.ghost["auth_ok"] = True
        else:
            self.ghost["auth_ok"] = False

    def build_connection(self):
        it = self.it
        c = ConnModel(self)
        self.conn = c
        srv = self.server.fields
        self.command_writer = Writer("control")
        self.command_reader = Reader("control")
        self.replies = []

        def response(i, a, k):
            self.replies.append(tuple(a))
            i.ctx.event("reply", *a)
            self.effect("reply", args=tuple(a))

        self.backend = self.mk_backend()
        consts = {
            "client_host": fresh("str", "client_host"),
            "client_port": fresh("int", "client_port"),
            "server_host": fresh("str", "server_host"),
            "server_port": srv["server_port"],
            "command_connection": self.mk_stream("control", self.command_reader, self.command_writer),
            "socket_timeout": srv["socket_timeout"],
            "idle_timeout": srv["idle_timeout"],
            "wait_future_timeout": srv["wait_future_timeout"],
            "block_size": srv["block_size"],
            "path_io_factory": srv["path_io_factory"],
            "path_timeout": srv["path_timeout"],
            "response": Builtin("connection.response", response),
            "_dispatcher": TaskModel(None, tag="dispatcher"),
            "path_io": self.backend,
        }
        for k, v in consts.items():
            c.set_done(k, v)
        self.arbitrary_state(initial=True)

    def mk_stream(self, tag, reader, writer):
        """a ThrottleStreamIO object of the real class; its read/write/... are used through their contracts"""
        cls = self.it.modules["aioftp.common"].attrs["ThrottleStreamIO"]
        o = Obj(cls, tag=tag)
        o.fields.update(reader=reader, writer=writer, read_timeout=None, write_timeout=None, throttles={})
        return o

    def mk_backend(self):
        from .backend import make_backend

        return make_backend(self)

    # ------------------------------------------------------------------ arbitrary state / havoc
    def fresh_field(self, name):
        """(present, done, value) of a session field in an arbitrary state"""
        it = self.it
        if name == "passive_server_port":
            v = fresh("int", "passive_port")
            return True, True, v
        if name == "extra_workers":
            return True, True, WorkerSet(fresh("bool", "other_workers").t)
        if name == "acquired":
            return True, True, fresh("bool", "acquired")
        if name == "restart_offset":
            v = fresh("int", "restart_offset")
            return True, True, v
        pres = fresh("bool", name + "_present").t
        done = fresh("bool", name + "_done").t
        if name == "user":
            return pres, done, self.mk_user("u_cur")
        if name == "logged":
            return pres, done, True
        if name == "current_directory":
            if not self.path_theory:
                return pres, done, PathVal("any", None, None, opaque=z3.Const(f"cwd!{next(models_path._ctr)}", models_path.OP))
            ps = fresh_seq("cwd")
            return pres, done, PathVal("posix", "/", ps)
        if name == "rename_from":
            return pres, done, self.mk_real_path("rename_from")
        if name == "passive_server":
            return pres, done, ListenerModel(None, tag="passive")
        if name == "data_connection":
            return pres, done, self.mk_stream("data", Reader("data"), Writer("data"))
        if name == "transfer_type":
            return pres, done, fresh("str", "transfer_type")
        raise Unsupported("unknown session field " + name)

    def mk_real_path(self, tag):
        p = PathVal("any", None, None, opaque=z3.Const(f"{tag}!{next(models_path._ctr)}", models_path.OP))
        return p

    def arbitrary_state(self, initial=False, fields=None):
        c = self.conn
        fields = fields if fields is not None else PIPE_HAVOC
        for name in fields:
            old = c.slots.get(name)
            if name == "data_connection" and self.mode == "SEQ" and old is not None and not initial:
                # one command at a time: a data connection can only *appear* (accept callback of the passive listener)
                old.present = b_or(old.present, fresh("bool", "dc_accepted").t)
                old.fut.done = b_or(old.fut.done, fresh("bool", "dc_accepted").t)
                if old.fut.value is None:
                    old.fut.value = self.mk_stream("data", Reader("data"), Writer("data"))
                continue
            pres, done, val = self.fresh_field(name)
            c.slots[name] = Slot(pres, FutureModel(done, val, tag=name))
            # a future captured earlier keeps its identity; another task may have completed it meanwhile
            if old is not None and getattr(old.fut, "shared", False) and old.fut.done is not True:
                old.fut.done = b_or(old.fut.done, fresh("bool", name + "_completed").t)
                if old.fut.value is None:
                    old.fut.value = val
        pool = self.server.fields.get("available_data_ports")
        if pool is not None:
            # other sessions may take and return ports while this task is suspended
            n = next(models_path._ctr)
            pool.cnt = z3.Const(f"pool_cnt!{n}", z3.ArraySort(z3.IntSort(), z3.IntSort()))
            pool.size = z3.Int(f"pool_size!{n}")
            self.ctx.assume(pool.size >= 0)
            self.ghost["pool_rest"] = z3.Const(f"pool_rest!{n}", z3.ArraySort(z3.IntSort(), z3.IntSort()))
        ac = self.server.fields.get("available_connections")
        if isinstance(ac, Obj):
            v = self.it.unbox(ac.fields["value"])
            if v is not None:
                # other sessions come and go while this task is suspended
                ac.fields["value"] = fresh("int", "srv_value")
                self.ghost["srv_rest"] = z3.Int(f"srv_rest!{next(models_path._ctr)}")
        if "user" in fields or initial:
            cur = c.slots["user"]
            self.ghost["held_slots"] = [[cur.fut.value, c.done_term("user")]]
        if "user" in fields or "logged" in fields:
            self.ghost["auth_user"] = "unknown"
            self.ghost["auth_ok"] = fresh("bool", "auth_ok").t
        self.assume_inv()

    def inv(self):
        """Inv as a list of (name, formula) over the current view (DESIGN.md 3.3: I1-I4, I8)."""
        c = self.conn
        d = c.done_term
        out = []
        out.append(("I1-logged-implies-authorised-user", b_implies(d("logged"), b_and(d("user"), self.ghost["auth_ok"]))))
        # a pending future is only ever created by a guard that looked at it; values exist only when done
        cwd = c.slots["current_directory"].fut.value if "current_directory" in c.slots else None
        if cwd is not None and cwd.flavour != "posix":
            out.append(("I2-user-implies-cwd-set", b_implies(d("user"), d("current_directory"))))
        elif cwd is not None:
            canon = b_and(cwd.anchor_t() == z3.StringVal("/"), models_path.no_dotdot(cwd.parts))
            out.append(("I2-user-implies-canonical-cwd", b_implies(d("user"), b_and(d("current_directory"), canon))))
        ro = c.slots["restart_offset"].fut.value
        out.append(("I4-restart-offset-nonneg", tt(as_int(ro) >= 0)))
        # I6 (local form): the session holds exactly one slot of its current user, and nothing else
        cur = c.slots.get("user")
        du = d("user")
        seen = False
        for obj, cond in self.ghost.get("held_slots", []):
            if cur is not None and obj is cur.fut.value:
                seen = True
                out.append(("I6-holds-a-slot-of-its-user-iff-attached", tt(cond) == tt(du)))
            else:
                out.append(("I6-no-slot-of-another-user-held", b_not(cond)))
        if not seen:
            out.append(("I6-holds-a-slot-of-its-user-iff-attached", b_not(du)))
        ac = self.server.fields.get("available_connections")
        if isinstance(ac, Obj):
            v = self.it.unbox(ac.fields["value"])
            if v is not None:
                acq = c.slots["acquired"].fut.value
                mine = z3.If(tt(self.it.truthy_term(acq)), 1, 0)
                out.append(("I5-server-slot-ledger", z3.And(v.t + mine == self.ghost["srv_rest"], self.ghost["srv_rest"] <= self.it.unbox(ac.fields["maximum_value"]).t)))
                out.append(("I5-counter-in-bounds", z3.And(v.t >= 0, v.t <= self.it.unbox(ac.fields["maximum_value"]).t)))
        pool = self.server.fields.get("available_data_ports")
        if pool is not None:
            # I7 (local form): pool + this session's holding == rest, where rest = configured - other sessions' holdings
            rest = self.ghost["pool_rest"]
            base = rest
            if pool.inflight is not None:
                r = as_int(pool.inflight)
                base = z3.Store(base, r, base[r] - 1)
            p = as_int(c.slots["passive_server_port"].fut.value)
            held = d("passive_server")
            f = z3.If(tt(held), pool.cnt == z3.Store(base, p, base[p] - 1), pool.cnt == base)
            out.append(("I7-port-ledger", f))
        return out

    def assume_inv(self):
        for name, f in self.inv():
            self.ctx.assume(tt(f))

    def check_inv(self, where):
        fn = self.cur_fn()
        for name, f in self.inv():
            props = ["C11", "C12"] if name.startswith("I7") else (["C10"] if name.startswith(("I5", "I6")) else ["C03", "C02", "C05", "C13"])
            self.ctx.check(f"{fn}/{where}:{name}", tt(f), info={"props": props})

    def cur_fn(self):
        it = self.it
        for clo in reversed(it.call_stack):
            if clo.module is not None:
                return clo.qualname
        return "<unit>"

    def on_suspend(self, it, what):
        if self.mode == "TEARDOWN":
            # the session is being torn down: its invariant is deliberately given up; cancelled tasks of the session only
            # release (worker contracts), other sessions move shared counters in balanced pairs (frame + ledgers)
            it.ctx.event("suspend", what)
            return
        self.check_inv("suspend")
        self.epoch += 1
        fields = PIPE_HAVOC if self.mode == "PIPE" else SEQ_HAVOC
        if self.mode == "SEQ" and getattr(self, "phase", 1) == 2:
            # a transfer task runs concurrently with the commands that follow its 150 reply: those may change the working
            # directory, the pending rename and the type (re-login and REST during a transfer: not explored, see index)
            fields = SEQ_HAVOC + ["current_directory", "rename_from", "transfer_type"]
        self.arbitrary_state(fields=fields)
        it.ctx.event("suspend", what)

    # ------------------------------------------------------------------ stores / loads / effects
    def on_store(self, it, name, how, value=None):
        it.ctx.event("store", name, how)
        if name == "user":
            if how == "set" and self.ghost["auth_user"] is value and value is not None and self.ghost["auth_user"] != "unknown":
                self.ghost["auth_ok"] = True
            else:
                self.ghost["auth_ok"] = False
        if name == "data_connection" and how == "del" and getattr(self, "track_detach", False):
            # I8 (ownership): a worker takes over exactly the stream it has just read, in the same atomic block
            same = getattr(self, "loaded_epoch", None) == self.epoch
            self.ctx.check(f"{self.cur_fn()}/detach:takes-over-exactly-the-stream-it-read-atomically", z3.BoolVal(same), info={"props": ["C12", "C14", "C17"]})
            v = getattr(self, "last_loaded_data", None)
            if v is not None and v not in self.owned_streams:
                self.owned_streams.append(v)
                r = v.fields["reader"]
                self.payload = z3.Concat(r.consumed, r.incoming)  # everything the peer will ever send on this data stream
        if name == "passive_server" and how == "set":
            pool = self.server.fields.get("available_data_ports")
            if pool is not None:
                port = self.conn.slots["passive_server_port"].fut.value
                ok = pool.inflight is not None and self.it.eq_term(pool.inflight, port)
                self.ctx.check(f"{self.cur_fn()}/store:listener-registered-for-the-port-taken", tt(ok), info={"props": ["C11"]})
                pool.inflight = None
        self.effect("store", field=name, how=how, value=value)

    def on_load(self, it, name):
        pass

    def on_obj_write(self, it, obj, name):
        """frame (C17): session code keeps per-session state in its own connection object, never on the shared Server"""
        if obj is getattr(self, "server", None) and it.call_stack:
            self.ctx.check(f"{self.cur_fn()}/frame:no-session-state-on-the-shared-server-object:{name}", z3.BoolVal(False), info={"props": ["C17"]})

    def all_streams(self):
        out = [self.conn.slots["command_connection"].fut.value]
        dc = self.conn.slots.get("data_connection")
        if dc is not None and isinstance(dc.fut.value, Obj):
            out.append(dc.fut.value)
        out.extend(getattr(self, "owned_streams", []))
        return out

    def effect(self, kind, **detail):
        fn = self.cur_fn()
        for prop, g in self.guards:
            for name, f in g(self, kind, detail) or []:
                self.ctx.check(f"{fn}/{kind}:{name}", tt(f), info={"props": [prop]})
