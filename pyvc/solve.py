"""SMT back ends: z3 in-process first, cvc5 (CLI, SMT-LIB dump) for what z3 leaves open."""
from __future__ import annotations

import os
import re
import subprocess
import tempfile
import time

import z3

CVC5 = "/usr/bin/cvc5"


def _smt2(assertions, logic="ALL"):
    s = z3.Solver()
    for a in assertions:
        s.add(a)
    txt = s.to_smt2()
    # z3 prints (set-info ...) and no logic; cvc5 wants a logic
    txt = "(set-logic ALL)\n" + txt
    # cvc5 1.0 spells a few z3 extensions differently
    txt = txt.replace("(declare-fun seq.", "; (declare-fun seq.")
    return txt


def run_cvc5(assertions, timeout_s, want_model=False):
    txt = _smt2(assertions)
    if want_model:
        txt = txt.replace("(check-sat)", "(check-sat)\n(get-model)")
    fd, path = tempfile.mkstemp(suffix=".smt2", prefix="pyvc_")
    os.write(fd, txt.encode())
    os.close(fd)
    try:
        args = [CVC5, "--strings-exp", f"--tlimit={int(timeout_s * 1000)}", "--lang=smt2"]
        if want_model:
            args.append("--produce-models")
        t0 = time.time()
        try:
            p = subprocess.run(args + [path], capture_output=True, text=True, timeout=timeout_s + 5)
            out = (p.stdout or "") + (p.stderr or "")
        except subprocess.TimeoutExpired:
            out = "timeout"
        secs = time.time() - t0
        first = out.strip().split("\n")[0].strip() if out.strip() else "empty"
        if first in ("sat", "unsat"):
            return first, secs, out
        return "unknown", secs, out[:400]
    finally:
        try:
            os.unlink(path)
        except OSError:
            pass


def model_to_dict(m):
    d = {}
    for decl in m.decls():
        try:
            if decl.arity() == 0:
                v = m[decl]
                d[decl.name()] = _val(v)
        except Exception:
            pass
    return d


def _val(v):
    try:
        if z3.is_int_value(v):
            return v.as_long()
        if z3.is_rational_value(v):
            return f"{v.numerator_as_long()}/{v.denominator_as_long()}"
        if z3.is_true(v):
            return True
        if z3.is_false(v):
            return False
        if z3.is_string_value(v):
            s = v.as_string()
            return re.sub(r"\\u\{([0-9a-fA-F]+)\}", lambda mm: chr(int(mm.group(1), 16)), s)
    except Exception:
        pass
    return str(v)


def _has_quantifier(e):
    seen = set()
    stack = [e]
    while stack:
        x = stack.pop()
        if x.get_id() in seen:
            continue
        seen.add(x.get_id())
        if z3.is_quantifier(x):
            return True
        stack.extend(x.children())
    return False


def solve_vc(vc, budget_s=30.0, use_cvc5=True, both=False):
    """Decide pc ==> goal.  Sets vc.status in {'discharged','failed','unknown'}."""
    if vc.status is not None:
        return vc
    t0 = time.time()
    if vc.kind == "cover":
        s = z3.Solver()
        s.set("timeout", int(budget_s * 1000))
        for a in vc.pc:
            s.add(a)
        r = s.check()
        vc.secs = time.time() - t0
        vc.solver = "z3"
        if r == z3.sat:
            vc.status = "discharged"
        elif r == z3.unsat:
            vc.status = "failed"
            vc.note = "cover unreachable (vacuous precondition?)"
        else:
            # satisfiability with quantified axioms is usually 'unknown': retry on the quantifier-free part
            qf = [a for a in vc.pc if not _has_quantifier(a)]
            s2 = z3.Solver()
            s2.set("timeout", int(min(budget_s, 10) * 1000))
            for a in qf:
                s2.add(a)
            r2 = s2.check()
            if r2 == z3.sat:
                vc.status = "discharged"
                vc.note = "cover: sat on the quantifier-free part of the path condition (full condition: unknown)"
            elif r2 == z3.unsat:
                vc.status = "failed"
                vc.note = "cover unreachable (vacuous precondition?)"
            else:
                vc.status = "unknown"
        return vc
    s = z3.Solver()
    s.set("timeout", int(budget_s * 1000))
    for a in vc.pc:
        s.add(a)
    s.add(z3.Not(vc.goal))
    r = s.check()
    vc.secs = time.time() - t0
    vc.solver = "z3"
    zres = "unsat" if r == z3.unsat else ("sat" if r == z3.sat else "unknown")
    if zres == "unsat" and not both:
        vc.status = "discharged"
        return vc
    if zres == "sat":
        try:
            vc.model = model_to_dict(s.model())
        except Exception:
            vc.model = {}
        if not both:
            vc.status = "failed"
            return vc
    cres = None
    if use_cvc5 and (zres == "unknown" or both):
        cres, csecs, out = run_cvc5(vc.pc + [z3.Not(vc.goal)], budget_s)
        vc.secs += csecs
        if cres != "unknown":
            vc.solver = "cvc5" if zres == "unknown" else "z3+cvc5"
        vc.note = (vc.note + " " if vc.note else "") + f"z3={zres} cvc5={cres}"
    final = zres if zres != "unknown" else (cres or "unknown")
    if both and cres not in (None, "unknown") and zres != "unknown" and cres != zres:
        vc.status = "disagree"
        return vc
    vc.status = {"unsat": "discharged", "sat": "failed"}.get(final, "unknown")
    return vc


# ------------------------------------------------------------------------------------ portfolio over many VCs
Z3CLI = "/usr/local/bin/z3-new"


def _cli_jobs(vc, budget_s, tmpdir, idx):
    """write the VC once, return the two command lines (z3, cvc5)"""
    assertions = vc.pc + ([z3.Not(vc.goal)] if vc.kind != "cover" else [])
    path = os.path.join(tmpdir, f"vc{idx}.smt2")
    open(path, "w").write(_smt2(assertions))
    return {
        "z3": [Z3CLI, f"-T:{int(budget_s)}", path],
        "cvc5": [CVC5, "--strings-exp", f"--tlimit={int(budget_s * 1000)}", "--lang=smt2", path],
    }


def solve_many(vcs, budget_s=30.0, both=False, quick_ms=1500, par=4):
    """phase 1: in-process z3 with a short timeout; phase 2: z3 and cvc5 CLIs in parallel on what is left."""
    import shutil

    todo = []
    for vc in vcs:
        if vc.status is not None:
            continue
        t0 = time.time()
        s = z3.Solver()
        s.set("timeout", quick_ms)
        for a in vc.pc:
            s.add(a)
        if vc.kind != "cover":
            s.add(z3.Not(vc.goal))
        r = s.check()
        vc.secs = time.time() - t0
        vc.solver = "z3"
        if vc.kind == "cover":
            if r == z3.sat:
                vc.status = "discharged"
            elif r == z3.unsat:
                vc.status, vc.note = "failed", "cover unreachable on this path"
            else:
                todo.append(vc)
            continue
        if r == z3.unsat and not both:
            vc.status = "discharged"
        elif r == z3.sat and not both:
            vc.status = "failed"
            try:
                vc.model = model_to_dict(s.model())
            except Exception:
                vc.model = {}
        else:
            vc.z3_quick = "unsat" if r == z3.unsat else ("sat" if r == z3.sat else "unknown")
            if r == z3.sat:
                try:
                    vc.model = model_to_dict(s.model())
                except Exception:
                    vc.model = {}
            todo.append(vc)
    if not todo:
        return
    tmpdir = tempfile.mkdtemp(prefix="pyvc_")
    try:
        pending = []  # (vc, solver, Popen, t0)
        queue = []
        for i, vc in enumerate(todo):
            b = min(budget_s, 5.0) if vc.kind == "cover" else budget_s
            jobs = _cli_jobs(vc, b, tmpdir, i)
            vc._answers = {}
            if getattr(vc, "z3_quick", "unknown") != "unknown":
                vc._answers["z3"] = vc.z3_quick
                jobs.pop("z3")
            for name, cmd in jobs.items():
                queue.append((vc, name, cmd, b))
            vc._want = set(jobs)
        running = []
        while queue or running:
            while queue and len(running) < par:
                vc, name, cmd, b = queue.pop(0)
                if _decided(vc, both):
                    continue
                p = subprocess.Popen(cmd, stdout=subprocess.PIPE, stderr=subprocess.STDOUT, text=True)
                running.append((vc, name, p, time.time(), b))
            still = []
            for vc, name, p, t0, b in running:
                if _decided(vc, both) and p.poll() is None:
                    p.kill()
                    p.wait()
                    continue
                if p.poll() is None:
                    if time.time() - t0 > b + 10:
                        p.kill()
                        p.wait()
                        vc._answers[name] = "unknown"
                    else:
                        still.append((vc, name, p, t0, b))
                    continue
                out = p.stdout.read() or ""
                first = out.strip().split("\n")[0].strip() if out.strip() else "unknown"
                vc._answers[name] = first if first in ("sat", "unsat") else "unknown"
                vc.secs += time.time() - t0
            running = still
            if running:
                time.sleep(0.02)
        for vc in todo:
            ans = vc._answers
            defin = {k: v for k, v in ans.items() if v in ("sat", "unsat")}
            vc.note = (vc.note + " " if vc.note else "") + " ".join(f"{k}={v}" for k, v in sorted(ans.items()))
            if both and len(set(defin.values())) > 1:
                vc.status = "disagree"
                continue
            if not defin:
                vc.status = "unknown"
                vc.solver = "z3+cvc5"
                continue
            v = next(iter(defin.values()))
            vc.solver = "+".join(sorted(defin))
            if vc.kind == "cover":
                vc.status = "discharged" if v == "sat" else "failed"
            else:
                vc.status = "discharged" if v == "unsat" else "failed"
    finally:
        shutil.rmtree(tmpdir, ignore_errors=True)


def _decided(vc, both):
    ans = getattr(vc, "_answers", {})
    defin = [v for v in ans.values() if v in ("sat", "unsat")]
    if not both:
        return bool(defin)
    return len(ans) >= 2 and all(k in ans for k in ("z3", "cvc5"))


# ------------------------------------------------------------------------------------ cone-of-influence fallback
def _symbols(e, cache={}):
    key = e.get_id()
    if key in cache:
        return cache[key]
    out = set()
    seen = set()
    stack = [e]
    while stack:
        x = stack.pop()
        i = x.get_id()
        if i in seen:
            continue
        seen.add(i)
        if z3.is_quantifier(x):
            stack.append(x.body())
            continue
        if z3.is_app(x):
            d = x.decl()
            if d.kind() == z3.Z3_OP_UNINTERPRETED:
                out.add(d.name())
            stack.extend(x.children())
    cache[key] = out
    return out


def _has_quantifier(e):
    seen = set()
    stack = [e]
    while stack:
        x = stack.pop()
        if x.get_id() in seen:
            continue
        seen.add(x.get_id())
        if z3.is_quantifier(x):
            return True
        if z3.is_app(x):
            stack.extend(x.children())
    return False


def strengthen_for_sat(assertions, K=2):
    """Replace bounded-index universal assumptions  forall i. (lo <= i < hi [and ...]) -> body(i)  by the stronger,
    quantifier-free  hi <= lo + K  and  body(lo) ... body(lo+K-1)  (each guarded by its own antecedent).  The result
    IMPLIES the original list, so a model of it (plus whatever else is asserted) is a genuine model of the original:
    used only to establish `sat`, i.e. that a path is feasible / a counter-model exists - never for `unsat`."""
    out = []
    changed = False
    for a in assertions:
        b = _strengthen_one(a, K)
        if b is not None:
            out.append(b)
            changed = True
        else:
            out.append(a)
    return out, changed


def _strengthen_one(q, K):
    if not (z3.is_quantifier(q) and q.is_forall() and q.num_vars() == 1 and q.var_sort(0) == z3.IntSort()):
        return None
    body = q.body()
    if not z3.is_implies(body):
        return None
    ante = body.arg(0)
    conj = list(ante.children()) if z3.is_and(ante) else [ante]
    v = z3.Var(0, z3.IntSort())
    lo = hi = None

    def novar(t):
        return not any(z3.is_var(x) for x in _subterms(t))

    for cj in conj:
        if cj.num_args() != 2:
            continue
        l, r = cj.arg(0), cj.arg(1)
        k = cj.decl().kind()
        if k == z3.Z3_OP_GE and l.eq(v) and novar(r):
            lo = r
        elif k == z3.Z3_OP_LE and r.eq(v) and novar(l):
            lo = l
        elif k == z3.Z3_OP_LT and l.eq(v) and novar(r):
            hi = r
        elif k == z3.Z3_OP_GT and r.eq(v) and novar(l):
            hi = l
        elif k == z3.Z3_OP_LE and l.eq(v) and novar(r):
            hi = r + 1
        elif k == z3.Z3_OP_GE and r.eq(v) and novar(l):
            hi = l + 1
    if lo is None or hi is None:
        return None
    insts = [z3.substitute_vars(body, lo + k) for k in range(K)]
    return z3.And(hi <= lo + K, *insts)


def _subterms(t):
    seen = set()
    stack = [t]
    while stack:
        x = stack.pop()
        if x.get_id() in seen:
            continue
        seen.add(x.get_id())
        yield x
        if z3.is_app(x):
            stack.extend(x.children())
        elif z3.is_quantifier(x):
            stack.append(x.body())


def strengthened_retry(vcs, budget_s=8.0):
    """for VCs both solvers left open: look for a counter-model of a STRENGTHENED path condition (bounded-index
    universals instantiated for sequences of length <= 2).  `sat` is a genuine counter-model of the original VC."""
    for vc in vcs:
        if vc.status != "unknown" or vc.kind == "cover":
            continue
        pc2, changed = strengthen_for_sat(vc.pc)
        if not changed:
            continue
        s = z3.Solver()
        s.set("timeout", int(budget_s * 1000))
        for a in pc2:
            s.add(a)
        s.add(z3.Not(vc.goal))
        t0 = time.time()
        r = s.check()
        vc.secs += time.time() - t0
        if r == z3.sat:
            vc.status, vc.solver = "failed", "z3(strengthened)"
            vc.note = (vc.note + " " if vc.note else "") + "counter-model of the path condition with its bounded-index universals instantiated for lengths <= 2 (implies the original condition)"
            try:
                vc.model = model_to_dict(s.model())
            except Exception:
                vc.model = {}


def slice_vc(vc):
    """assertions of the path condition connected (through shared uninterpreted symbols) to the goal"""
    goal_syms = set(_symbols(vc.goal))
    items = [(a, _symbols(a)) for a in vc.pc]
    keep = [False] * len(items)
    changed = True
    while changed:
        changed = False
        for i, (a, syms) in enumerate(items):
            if not keep[i] and syms & goal_syms:
                keep[i] = True
                goal_syms |= syms
                changed = True
    return [a for (a, _), k in zip(items, keep) if k]


def sliced_retry(vcs, budget_s=8.0):
    """for VCs both solvers left open: decide the cone-of-influence slice.  unsat is a proof of the full VC (fewer
    assumptions); sat gives a counter-model of the slice — the dropped assumptions share no symbol with it, so it extends
    to the full VC *if the dropped assumptions are satisfiable on their own*, which is checked here (a solver `sat` on
    them); otherwise the VC stays unknown.  (Without that check a `pc => False` obligation - "this path cannot happen" -
    whose goal mentions no symbol would have an empty slice and be reported as violated whenever the solvers ran out of
    budget on the full query: a false alarm under load.)"""
    for vc in vcs:
        if vc.status != "unknown" or vc.kind == "cover":
            continue
        sl = slice_vc(vc)
        if len(sl) == len(vc.pc):
            continue
        s = z3.Solver()
        s.set("timeout", int(budget_s * 1000))
        for a in sl:
            s.add(a)
        s.add(z3.Not(vc.goal))
        t0 = time.time()
        r = s.check()
        vc.secs += time.time() - t0
        if r == z3.unsat:
            vc.status, vc.solver = "discharged", "z3(sliced)"
        elif r == z3.sat:
            keep = {a.get_id() for a in sl}
            dropped = [a for a in vc.pc if a.get_id() not in keep]
            s2 = z3.Solver()
            s2.set("timeout", int(budget_s * 1000))
            for a in dropped:
                s2.add(a)
            t1 = time.time()
            r2 = s2.check()
            vc.secs += time.time() - t1
            how = "the dropped assumptions are satisfiable"
            if r2 == z3.unknown:
                # the solver cannot build a model of the bounded-index universals among the dropped assumptions: show
                # satisfiability of a STRONGER set instead (strengthen_for_sat), which is sound for `sat`
                stronger, changed = strengthen_for_sat(dropped)
                if changed:
                    s3 = z3.Solver()
                    s3.set("timeout", int(budget_s * 1000))
                    for a in stronger:
                        s3.add(a)
                    t2 = time.time()
                    r2 = s3.check()
                    vc.secs += time.time() - t2
                    how = "a strengthening of the dropped assumptions (bounded-index universals instantiated for lengths <= 2) is satisfiable"
            if r2 != z3.sat:
                vc.note = (vc.note + " " if vc.note else "") + f"slice sat but the {len(dropped)} dropped assumptions were not shown satisfiable ({r2}): undecided"
                continue
            vc.status, vc.solver = "failed", "z3(sliced)"
            vc.note = (vc.note + " " if vc.note else "") + how
            vc.note = (vc.note + " " if vc.note else "") + f"counter-model of the cone-of-influence slice ({len(sl)} of {len(vc.pc)} assumptions)"
            try:
                vc.model = model_to_dict(s.model())
            except Exception:
                vc.model = {}
