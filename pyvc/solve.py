"""SMT back ends: z3 in-process first, cvc5 (CLI, SMT-LIB dump) for what z3 leaves open."""
from __future__ import annotations

import os
import re
import subprocess
import tempfile
import time

import z3

CVC5 = "/usr/bin/cvc5"


def _smt2(assertions, logic="ALL"):
    s = z3.Solver()
    for a in assertions:
        s.add(a)
    txt = s.to_smt2()
    # z3 prints (set-info ...) and no logic; cvc5 wants a logic
    txt = "(set-logic ALL)\n" + txt
    # cvc5 1.0 spells a few z3 extensions differently
    txt = txt.replace("(declare-fun seq.", "; (declare-fun seq.")
    return txt


def run_cvc5(assertions, timeout_s, want_model=False):
    txt = _smt2(assertions)
    if want_model:
        txt = txt.replace("(check-sat)", "(check-sat)\n(get-model)")
    fd, path = tempfile.mkstemp(suffix=".smt2", prefix="pyvc_")
    os.write(fd, txt.encode())
    os.close(fd)
    try:
        args = [CVC5, "--strings-exp", f"--tlimit={int(timeout_s * 1000)}", "--lang=smt2"]
        if want_model:
            args.append("--produce-models")
        t0 = time.time()
        try:
            p = subprocess.run(args + [path], capture_output=True, text=True, timeout=timeout_s + 5)
            out = (p.stdout or "") + (p.stderr or "")
        except subprocess.TimeoutExpired:
            out = "timeout"
        secs = time.time() - t0
        first = out.strip().split("\n")[0].strip() if out.strip() else "empty"
        if first in ("sat", "unsat"):
            return first, secs, out
        return "unknown", secs, out[:400]
    finally:
        try:
            os.unlink(path)
        except OSError:
            pass


def model_to_dict(m):
    d = {}
    for decl in m.decls():
        try:
            if decl.arity() == 0:
                v = m[decl]
                d[decl.name()] = _val(v)
        except Exception:
            pass
    return d


def _val(v):
    try:
        if z3.is_int_value(v):
            return v.as_long()
        if z3.is_rational_value(v):
            return f"{v.numerator_as_long()}/{v.denominator_as_long()}"
        if z3.is_true(v):
            return True
        if z3.is_false(v):
            return False
        if z3.is_string_value(v):
            s = v.as_string()
            return re.sub(r"\\u\{([0-9a-fA-F]+)\}", lambda mm: chr(int(mm.group(1), 16)), s)
    except Exception:
        pass
    return str(v)


def solve_vc(vc, budget_s=30.0, use_cvc5=True, both=False):
    """Decide pc ==> goal.  Sets vc.status in {'discharged','failed','unknown'}."""
    if vc.status is not None:
        return vc
    t0 = time.time()
    if vc.kind == "cover":
        s = z3.Solver()
        s.set("timeout", int(budget_s * 1000))
        for a in vc.pc:
            s.add(a)
        r = s.check()
        vc.secs = time.time() - t0
        vc.solver = "z3"
        if r == z3.sat:
            vc.status = "discharged"
        elif r == z3.unsat:
            vc.status = "failed"
            vc.note = "cover unreachable (vacuous precondition?)"
        else:
            if use_cvc5:
                rr, secs, out = run_cvc5(vc.pc, budget_s)
                vc.solver = "cvc5"
                vc.status = {"sat": "discharged", "unsat": "failed"}.get(rr, "unknown")
            else:
                vc.status = "unknown"
        return vc
    s = z3.Solver()
    s.set("timeout", int(budget_s * 1000))
    for a in vc.pc:
        s.add(a)
    s.add(z3.Not(vc.goal))
    r = s.check()
    vc.secs = time.time() - t0
    vc.solver = "z3"
    zres = "unsat" if r == z3.unsat else ("sat" if r == z3.sat else "unknown")
    if zres == "unsat" and not both:
        vc.status = "discharged"
        return vc
    if zres == "sat":
        try:
            vc.model = model_to_dict(s.model())
        except Exception:
            vc.model = {}
        if not both:
            vc.status = "failed"
            return vc
    cres = None
    if use_cvc5 and (zres == "unknown" or both):
        cres, csecs, out = run_cvc5(vc.pc + [z3.Not(vc.goal)], budget_s)
        vc.secs += csecs
        if cres != "unknown":
            vc.solver = "cvc5" if zres == "unknown" else "z3+cvc5"
        vc.note = (vc.note + " " if vc.note else "") + f"z3={zres} cvc5={cres}"
    final = zres if zres != "unknown" else (cres or "unknown")
    if both and cres not in (None, "unknown") and zres != "unknown" and cres != zres:
        vc.status = "disagree"
        return vc
    vc.status = {"unsat": "discharged", "sat": "failed"}.get(final, "unknown")
    return vc
