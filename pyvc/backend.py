"""Abstract storage backend: a subclass of the *real* pathio.AbstractPathIO whose abstract coroutines are
assumed contracts (every operation may suspend, may raise PathIOError at any call — the fault quantifier of
C13 — or returns an arbitrary well-typed result).  `open()` and AsyncPathIOContext are the real code."""
from __future__ import annotations

import z3

from .core import SV, PathEnd, PyRaise, Unsupported, as_int, fresh, term
from .models_path import PathVal
from .values import Builtin, ClassVal, Coro, Model, Obj, Opaque


class FileHandle(Model):
    """Abstract backend file (assumed contract, DESIGN.md C01): sequential access after an optional seek.
    old  = content when opened ('wb' truncates it to b"");  off = position set by seek (0 if none; 'ab': end of file);
    W    = bytes written since (every write lands at the current position, which then advances);
    done / remaining = bytes already returned by read / still to be returned (their concatenation is old[off:])."""

    model_name = "file"

    def __init__(self, path, mode, tag):
        super().__init__()
        self.path = path
        self.mode = mode
        self.tag = tag
        self.closed = False
        self.before = fresh("bytes", "file_before").t  # what the path held before this open
        self.old = z3.StringVal("") if mode == "wb" else self.before
        self.off = None  # z3 Int once seek() was called
        self.seeks = 0
        self.W = z3.StringVal("")
        self.done = z3.StringVal("")
        self.remaining = self.old
        self.writes = 0

    def start(self):
        """position of the first write"""
        n = z3.Length(self.old)
        if self.mode == "ab":
            return n  # append mode: every write goes to the end, whatever was seeked
        return self.off if self.off is not None else z3.IntVal(0)

    def content(self):
        """bytes of the file now"""
        n = z3.Length(self.old)
        st = self.start()
        pad = z3.Function("zeros", z3.IntSort(), z3.StringSort())
        head = z3.If(st <= n, z3.SubString(self.old, 0, st), z3.Concat(self.old, pad(st - n)))
        wl = z3.Length(self.W)
        tail = z3.SubString(self.old, st + wl, z3.If(n - st - wl > 0, n - st - wl, 0))
        return z3.If(wl == 0, self.old, z3.Concat(head, self.W, tail))


class ListerModel(Model):
    """result of path_io.list(path): async iterator yielding children of `path`"""

    model_name = "lister"

    def __init__(self, sess, path):
        super().__init__()
        self.sess = sess
        self.path = path
        self.count = 0

    def getattr(self, it, name):
        if name == "__aiter__":
            return Builtin("lister.__aiter__", lambda i, a, k: self)
        if name == "__anext__":

            def anext(i, a, k):
                def run():
                    self.sess.backend_call(i, "list.next", self.path)
                    c = i.ctx.choose(2, "list-next")
                    if c == 1:
                        i.throw("StopAsyncIteration")
                    self.count += 1
                    child = self.sess.mk_real_path("child")
                    child.listed_from = self.path
                    i.ctx.ghost.setdefault("children", {})[id(child)] = self.path
                    i.ctx.ghost.setdefault("children_objs", []).append(child)
                    return child

                return Coro(run, "lister.__anext__")

            return Builtin("lister.__anext__", anext)
        raise Unsupported("lister." + name)


def make_backend(sess):
    it = sess.it
    base = it.modules["aioftp.pathio"].attrs["AbstractPathIO"]
    cls = ClassVal("AbstractBackend", [base], {})

    def op(name, result=None, nargs=1):
        def f(i, a, k):
            args = a[1:]

            def run():
                sess.backend_call(i, name, *args, **k)
                if result is None:
                    return None
                res = result(i, args, k)
                i.ctx.event("backend-result", name, args, res)
                return res

            return Coro(run, "backend." + name)

        b = Builtin("backend." + name, f)
        b.is_method = True
        cls.attrs[name] = b

    def boolres(i, args, k):
        return fresh("bool", "fsbool")

    def statres(i, args, k):
        st = Obj(ClassVal("stat_result"), tag="stat")
        for n in ("st_size", "st_nlink", "st_mode"):
            st.fields[n] = fresh("int", n)
            i.ctx.assume(st.fields[n].t >= 0)
        for n in ("st_ctime", "st_mtime"):
            st.fields[n] = fresh("real", n)
        return st

    op("exists", boolres)
    op("is_dir", boolres)
    op("is_file", boolres)
    op("stat", statres)
    op("mkdir")
    op("rmdir")
    op("unlink")
    op("rename")

    def open_res(i, args, k):
        h = FileHandle(args[0], args[1] if len(args) > 1 else k.get("mode", "rb"), tag=f"file{len(sess.files)}")
        sess.files.append(h)
        i.ctx.event("file.open", h)
        return h

    op("_open", open_res)

    def close_res(i, args, k):
        h = args[0]
        h.closed = True
        i.ctx.event("file.close", h)
        return None

    # close: the handle counts as closed even when the backend reports an error from close()
    def close_f(i, a, k):
        h = a[1]

        def run():
            h.closed = True
            i.ctx.event("file.close", h)
            sess.backend_call(i, "close", h)

        return Coro(run, "backend.close")

    cb = Builtin("backend.close", close_f)
    cb.is_method = True
    cls.attrs["close"] = cb
    def seek_res(i, args, k):
        h, off = args[0], args[1]
        h.off = as_int(off)
        h.seeks += 1
        n = z3.Length(h.old)
        h.remaining = z3.SubString(h.old, h.off, z3.If(n - h.off > 0, n - h.off, 0))
        h.done = z3.StringVal("")
        i.ctx.event("file.seek", h, off)
        return None

    op("seek", seek_res)

    def write_res(i, args, k):
        h, data = args[0], args[1]
        h.W = z3.Concat(h.W, term(data))
        h.writes += 1
        i.ctx.event("file.write", h, data)
        return None

    op("write", write_res)

    def read_res(i, args, k):
        h, n = args[0], args[1]
        d = fresh("bytes", "filedata")
        rest = fresh("bytes", "filerest")
        A = i.ctx.assume
        A(h.remaining == z3.Concat(d.t, rest.t))
        A(z3.Length(d.t) <= as_int(n))
        A((z3.Length(d.t) == 0) == (z3.Length(h.remaining) == 0))
        h.remaining = rest.t
        h.done = z3.Concat(h.done, d.t)
        return d

    op("read", read_res)

    def list_f(i, a, k):
        return ListerModel(sess, a[1])

    lb = Builtin("backend.list", list_f)
    lb.is_method = True
    cls.attrs["list"] = lb
    o = Obj(cls, tag="path_io")
    o.fields["timeout"] = None
    o.fields["connection"] = None
    sess.files = []

    def backend_call(i, name, *args, **k):
        i.ctx.event("backend", name, args)
        sess.effect("backend", op=name, args=args)
        if sess.backend_suspends:
            i.suspend("backend." + name)
        if i.ctx.choose(2, f"backend.{name}-fault") == 1:
            i.ctx.event("backend-fault", name)
            sess.faults = getattr(sess, "faults", 0) + 1
            exc = i.make_exc(i.modules["aioftp.errors"].attrs["PathIOError"])
            raise PyRaise(exc)

    sess.backend_call = backend_call
    sess.backend_suspends = True
    return o
