"""pyvc core: values, path context, decision-trace exploration, VC recording.

Everything here runs under python3-vt (has z3).  The interpreter (interp.py) is written in
direct style; forking is done by *replay*: a path is identified by its vector of decisions and
re-executed from the start (no state copying, heap is mutated in place).
"""
from __future__ import annotations

import fractions
import itertools
import time

import z3

# --------------------------------------------------------------------------------------------
# control-flow signals of the interpreter


class Unsupported(Exception):
    """Construct outside the supported subset: the unit becomes *undecided* (exit 2)."""


class PathEnd(Exception):
    """The current path ends here (loop iteration closed, infeasible path, assume False)."""

    def __init__(self, why=""):
        super().__init__(why)
        self.why = why


class PyRaise(Exception):
    """A Python exception raised by the interpreted program."""

    def __init__(self, exc):
        super().__init__(getattr(exc, "cls", None) and exc.cls.name)
        self.exc = exc


class ReturnSig(Exception):
    def __init__(self, value):
        self.value = value


class BreakSig(Exception):
    pass


class ContinueSig(Exception):
    pass


# --------------------------------------------------------------------------------------------
# symbolic values

KINDS = ("int", "real", "bool", "str", "bytes")
_SORT = {
    "int": z3.IntSort(),
    "real": z3.RealSort(),
    "bool": z3.BoolSort(),
    "str": z3.StringSort(),
    "bytes": z3.StringSort(),
}


class SV:
    """A symbolic scalar: z3 term + Python kind."""

    __slots__ = ("k", "t")

    def __init__(self, k, t):
        assert k in KINDS, k
        self.k = k
        self.t = t

    def __repr__(self):
        return f"SV<{self.k}:{self.t}>"

    def __hash__(self):
        return hash((self.k, self.t.get_id()))

    def __eq__(self, other):  # structural identity only (python-level); use ops.eq for semantics
        return isinstance(other, SV) and self.k == other.k and self.t.eq(other.t)


class BytesLit:
    """Concrete bytes are kept as python bytes; this helper converts to a z3 string literal where each
    char is the byte value (latin-1 view)."""


def lit(v):
    """Lift a concrete python scalar to (kind, z3 term)."""
    if isinstance(v, bool):
        return "bool", z3.BoolVal(v)
    if isinstance(v, int):
        return "int", z3.IntVal(v)
    if isinstance(v, float):
        fr = fractions.Fraction(v)
        return "real", z3.RealVal(f"{fr.numerator}/{fr.denominator}")
    if isinstance(v, fractions.Fraction):
        return "real", z3.RealVal(f"{v.numerator}/{v.denominator}")
    if isinstance(v, str):
        return "str", z3.StringVal(v)
    if isinstance(v, bytes):
        return "bytes", z3.StringVal(v.decode("latin-1"))
    raise Unsupported(f"cannot lift {type(v).__name__} to a term")


def is_scalar(v):
    return isinstance(v, (SV, bool, int, float, str, bytes, fractions.Fraction))


def kind_of(v):
    if hasattr(v, "force"):
        v = v.force()
    if hasattr(v, "as_sv"):
        v = v.as_sv()
    if isinstance(v, SV):
        return v.k
    return lit(v)[0]


def term(v):
    if hasattr(v, "force"):
        v = v.force()
    if hasattr(v, "as_sv"):
        v = v.as_sv()
    if isinstance(v, SV):
        return v.t
    return lit(v)[1]


def as_real(v):
    k = kind_of(v)
    t = term(v)
    if k == "real":
        return t
    if k == "int":
        return z3.ToReal(t)
    if k == "bool":
        return z3.If(t, z3.RealVal(1), z3.RealVal(0))
    raise Unsupported(f"as_real of {k}")


def as_int(v):
    k = kind_of(v)
    t = term(v)
    if k == "int":
        return t
    if k == "bool":
        return z3.If(t, z3.IntVal(1), z3.IntVal(0))
    raise Unsupported(f"as_int of {k}")


_fresh_counter = itertools.count()


def fresh(kind, hint="v"):
    n = next(_fresh_counter)
    return SV(kind, z3.Const(f"{hint}!{n}", _SORT[kind]))


def reset_fresh():
    global _fresh_counter
    _fresh_counter = itertools.count()


def simplify_bool(t):
    """Return True/False when the term is syntactically decided, else None."""
    s = z3.simplify(t)
    if z3.is_true(s):
        return True
    if z3.is_false(s):
        return False
    return None


# --------------------------------------------------------------------------------------------
# verification conditions


class VC:
    __slots__ = ("name", "pc", "goal", "path", "kind", "status", "solver", "secs", "model", "note", "info", "z3_quick", "_answers", "_want")

    def __init__(self, name, pc, goal, path, kind="assert", info=None):
        self.name = name
        self.pc = list(pc)
        self.goal = goal
        self.path = path
        self.kind = kind  # assert | cover
        self.status = None  # discharged | failed | unknown
        self.solver = None
        self.secs = 0.0
        self.model = None
        self.note = ""
        self.info = info or {}


class Ctx:
    """State of one path."""

    def __init__(self, prefix=(), opts=None):
        self.prefix = list(prefix)
        self.taken = []  # list of (choice, n, label, forced)
        self.pc = []
        self.vcs = []
        self.events = []  # ghost event trace (python list of tuples)
        self.ghost = {}
        self.opts = opts or {}
        self.solver = z3.Solver()
        self.solver.set("timeout", int(self.opts.get("feas_timeout_ms", 1500)) or 1)
        self.notes = []
        self.solver_secs = 0.0
        self.axioms = []  # global axioms (quantified facts of spec functions) — part of every VC
        self.assumptions_used = set()
        self.bool_labels = set()

    # ---- path condition ------------------------------------------------------------------
    def assume(self, t, why=None):
        if isinstance(t, bool):
            if not t:
                raise PathEnd("assume False" + (f" ({why})" if why else ""))
            return
        d = simplify_bool(t)
        if d is True:
            return
        if d is False:
            raise PathEnd("assume False" + (f" ({why})" if why else ""))
        self.pc.append(t)
        self.solver.add(t)

    def add_axiom(self, t):
        self.axioms.append(t)
        self.solver.add(t)

    def feasible(self, extra=None):
        t0 = time.time()
        try:
            if extra is None:
                r = self.solver.check()
            else:
                r = self.solver.check(extra)
        finally:
            self.solver_secs += time.time() - t0
        return r != z3.unsat

    # ---- decisions -----------------------------------------------------------------------
    def path_sig(self):
        def show(c, n, lbl):
            if lbl.startswith(("if@", "while@", "for@")) or n == 2 and lbl in self.bool_labels:
                return f"{lbl}={'T' if c == 0 else 'F'}"
            return f"{lbl}={c}"

        return ".".join(show(c, n, lbl) for (c, n, lbl, forced) in self.taken if lbl)

    def choose(self, n, label="", feasible_of=None):
        """n-way nondeterministic choice.  feasible_of(i) -> optional z3 condition that choice i implies;
        infeasible alternatives are skipped."""
        idx = len(self.taken)
        if idx < len(self.prefix):
            c = self.prefix[idx]
            self.taken.append((c, n, label, True))
            return c
        # new decision: schedule alternatives
        options = list(range(n))
        if feasible_of is not None:
            options = [i for i in options if self._cond_feasible(feasible_of(i))]
            if not options:
                raise PathEnd("no feasible option at " + label)
        c = options[0]
        self.taken.append((c, n, label, False))
        self.alternatives = getattr(self, "alternatives", [])
        for alt in options[1:]:
            self.alternatives.append([x[0] for x in self.taken[:-1]] + [alt])
        return c

    def proved(self, cond, label="proved"):
        """Is pc ==> cond valid?  (engine-internal query, e.g. 'this part is a clean path component'.)
        The answer is recorded in the decision trace so that replays of this path do not depend on solver timing."""
        idx = len(self.taken)
        if idx < len(self.prefix):
            c = self.prefix[idx]
            self.taken.append((c, 2, "", True))
            return c == 1
        d = simplify_bool(cond) if not isinstance(cond, bool) else cond
        if d is None:
            t0 = time.time()
            r = self.solver.check(z3.Not(cond))
            self.solver_secs += time.time() - t0
            d = r == z3.unsat
        self.taken.append((1 if d else 0, 2, "", True))
        return d

    def _cond_feasible(self, cond):
        if cond is None:
            return True
        if isinstance(cond, bool):
            return cond
        d = simplify_bool(cond)
        if d is not None:
            return d
        if self.opts.get("feas_timeout_ms", 1500) == 0:
            return True  # no pruning: every syntactic path is explored (sound over-approximation)
        return self.feasible(cond)

    def branch(self, cond, label="if"):
        """Decide a boolean z3 condition; returns python bool, extends the path condition."""
        if isinstance(cond, bool):
            return cond
        d = simplify_bool(cond)
        if d is not None:
            return d
        self.bool_labels.add(label)
        c = self.choose(2, label, feasible_of=lambda i: cond if i == 0 else z3.Not(cond))
        if c == 0:
            self.assume(cond)
            return True
        self.assume(z3.Not(cond))
        return False

    # ---- obligations ---------------------------------------------------------------------
    def check(self, name, goal, info=None):
        """Record the VC  pc ==> goal  and continue under the assumption goal."""
        if getattr(self, "muted", False):
            return  # set-up phase of a unit that replays another function first: its obligations belong to that function's unit
        if isinstance(goal, bool):
            goal = z3.BoolVal(goal)
        vc = VC(name, self.axioms + self.pc, goal, self.path_sig(), info=info)
        d = simplify_bool(goal)
        if d is True:
            vc.status, vc.solver = "discharged", "simplifier"
        self.vcs.append(vc)
        if d is False:
            # definitely fails if the path is feasible; keep going is pointless
            raise PathEnd("obligation syntactically false: " + name)
        self.assume(goal)

    def cover(self, name, info=None):
        if self.opts.get("no_covers"):
            return
        vc = VC(name, self.axioms + self.pc, z3.BoolVal(True), self.path_sig(), kind="cover", info=info)
        self.vcs.append(vc)

    def event(self, *ev):
        self.events.append(ev)


def explore(run, opts=None, max_paths=20000):
    """Enumerate all paths of `run(ctx)`.  Returns list of (ctx, outcome) where outcome is
    ('ok', value) | ('raise', exc) | ('end', why) | ('unsupported', msg)."""
    work = [[]]
    results = []
    while work:
        prefix = work.pop()
        reset_fresh()
        ctx = Ctx(prefix, opts)
        ctx.alternatives = []
        try:
            v = run(ctx)
            out = ("ok", v)
        except PyRaise as e:
            out = ("raise", e.exc)
        except PathEnd as e:
            out = ("end", e.why)
        except Unsupported as e:
            out = ("unsupported", str(e))
        results.append((ctx, out))
        work.extend(ctx.alternatives)
        ctx.solver = None  # free the incremental solver of a finished path
        if len(results) > max_paths:
            raise Unsupported(f"path explosion (> {max_paths} paths)")
    return results
