"""Abstract FTP session environment for the server-side units (DESIGN.md 2.4, 3.3).

* ConnModel   — the view of server.Connection: per key absent / pending / done(value)   [T-conn]
* Session     — builds a Server object, a connection in an *arbitrary* state satisfying Inv, the abstract
                storage backend, streams and user manager; PIPE/SEQ interference at suspension points
* effect guards — obligations attached to effects (backend calls, cwd stores, listener start, detaching a
                data connection), used by C02/C03/C04/C13/C17
"""
from __future__ import annotations

import z3

from . import models_aio, models_path
from .core import SV, PathEnd, PyRaise, Unsupported, as_int, fresh, simplify_bool, term
from .models_aio import FutureModel, ListenerModel, PortPool, QueueModel, TaskModel
from .models_path import PathVal
from .values import BoundMethod, Builtin, ClassVal, Closure, Coro, Model, Obj, Opaque


def tt(x):
    return z3.BoolVal(x) if isinstance(x, bool) else x


def b_and(*xs):
    xs = [x for x in xs if x is not True]
    if any(x is False for x in xs):
        return False
    if not xs:
        return True
    return z3.And(*xs) if len(xs) > 1 else xs[0]


def b_or(*xs):
    xs = [x for x in xs if x is not False]
    if any(x is True for x in xs):
        return True
    if not xs:
        return False
    return z3.Or(*xs) if len(xs) > 1 else xs[0]


def b_not(x):
    if isinstance(x, bool):
        return not x
    return z3.Not(x)


def b_implies(a, b):
    return b_or(b_not(a), b)


class Slot:
    __slots__ = ("present", "fut")

    def __init__(self, present, fut):
        self.present = present  # python bool | z3 Bool
        self.fut = fut  # FutureModel


class ConnModel(Model):
    """server.Connection seen through its four access forms (DESIGN.md 2.4):
    connection.X | connection.future.X / connection[X] | connection.X = v | del connection.X / del connection.future.X"""

    model_name = "connection"

    def __init__(self, session):
        super().__init__()
        self.slots = {}
        self.session = session
        self.future = ConnFutureView(self)

    # -- raw helpers
    def slot(self, name):
        if name not in self.slots:
            self.slots[name] = Slot(False, FutureModel(False, None, tag=name))
        return self.slots[name]

    def is_present(self, it, name, label=None):
        s = self.slot(name)
        if isinstance(s.present, bool):
            return s.present
        r = it.ctx.branch(s.present, label or f"conn.{name}-present")
        s.present = r
        return r

    def done_term(self, name):
        """formula: key present and its future done"""
        s = self.slot(name)
        return b_and(s.present, s.fut.done)

    def set_done(self, name, value):
        self.slots[name] = Slot(True, FutureModel(True, value, tag=name))

    def set_absent(self, name):
        self.slots[name] = Slot(False, FutureModel(False, None, tag=name))

    def value(self, name):
        return self.slots[name].fut.value

    # -- connection[name]  (defaultdict semantics)
    def getitem(self, it, name):
        if not isinstance(name, str):
            raise Unsupported("connection[<symbolic key>]")
        s = self.slot(name)
        if not self.is_present(it, name):
            s.present = True
            s.fut = FutureModel(False, None, tag=name)
            self.session.on_store(it, name, "create-pending")
        return s.fut

    def contains(self, it, name):
        s = self.slot(name)
        return it.mk_bool(s.present)

    # -- connection.name
    def getattr(self, it, name):
        if name == "future":
            return self.future
        if name in ("items", "keys", "values", "pop"):
            raise Unsupported("Connection." + name)
        self.session.on_load(it, name)
        s = self.slot(name)
        if not self.is_present(it, name):
            it.throw("AttributeError", f"{name!r} not in storage")
        f = s.fut
        d = f.done if isinstance(f.done, bool) else it.ctx.branch(f.done, f"conn.{name}-done")
        f.done = d
        if not d:
            it.throw("InvalidStateError", "Result is not set.")
        if name == "data_connection":
            self.session.last_loaded_data = f.value
            self.session.loaded_epoch = self.session.epoch
        return f.value

    def setattr(self, it, name, value):
        if name == "future":
            raise Unsupported("assignment to Connection.future")
        s = self.slot(name)
        # real code: `if self[name].done(): self[name] = Future()` then `self[name].set_result(value)`;
        # self[name] creates a pending future when the key is absent.
        if self.is_present(it, name):
            f = s.fut
            d = f.done if isinstance(f.done, bool) else it.ctx.branch(f.done, f"conn.{name}-done")
            f.done = d
            if d:
                s.fut = FutureModel(True, value, tag=name)  # a done future is replaced by a fresh one
            else:
                f.done = True  # a pending future is completed in place (waiters holding it see it)
                f.value = value
        else:
            s.present = True
            s.fut = FutureModel(True, value, tag=name)
        self.session.on_store(it, name, "set", value)

    def delattr(self, it, name):
        s = self.slot(name)
        if self.is_present(it, name):
            self.set_absent(name)
            self.session.on_store(it, name, "del")

    def __repr__(self):
        return "<connection>"


class ConnFutureView(Model):
    model_name = "connection.future"

    def __init__(self, conn):
        super().__init__()
        self.conn = conn

    def getattr(self, it, name):
        f = self.conn.getitem(it, name)
        f.shared = True
        return f

    def delattr(self, it, name):
        c = self.conn
        if not c.is_present(it, name):
            it.throw("KeyError", name)
        c.set_absent(name)
        c.session.on_store(it, name, "del")


class Writer(Model):
    """asyncio.StreamWriter"""

    model_name = "writer"

    def __init__(self, tag):
        super().__init__()
        self.tag = tag
        self.closed = False
        self.written = z3.StringVal("")

    def getattr(self, it, name):
        if name == "close":

            def close(i, a, k):
                self.closed = True
                i.ctx.event("close", self.tag)

            return Builtin("writer.close", close)
        if name == "write":

            def write(i, a, k):
                from .models_aio import clock

                i.ctx.ghost["io_clock"] = clock(i)
                self.written = z3.Concat(self.written, term(a[0]))
                i.ctx.event("write", self.tag, a[0])

            return Builtin("writer.write", write)
        if name == "wait_closed":

            def wait_closed(i, a, k):
                def run():
                    net_wait(i, "writer.wait_closed")
                    i.suspend("wait_closed")

                return Coro(run, "wait_closed")

            return Builtin("writer.wait_closed", wait_closed)
        if name == "drain":

            def drain(i, a, k):
                def run():
                    net_wait(i, "writer.drain")
                    i.suspend("drain")
                    if i.ctx.choose(2, "drain-outcome") == 1:
                        i.throw("ConnectionResetError")

                return Coro(run, "drain")

            return Builtin("writer.drain", drain)
        if name == "transport":
            return Opaque("transport")
        raise Unsupported("StreamWriter." + name)

    def __repr__(self):
        return f"<writer {self.tag}>"


class Reader(Model):
    """asyncio.StreamReader with ghost `incoming` (bytes still to come; unknown but fixed)."""

    model_name = "reader"

    def __init__(self, tag, incoming=None):
        super().__init__()
        self.tag = tag
        self.incoming = incoming if incoming is not None else fresh("bytes", "incoming").t
        self.consumed = z3.StringVal("")

    def getattr(self, it, name):
        if name == "read":

            def read(i, a, k):
                n = a[0] if a else -1

                def run():
                    from .models_aio import clock

                    i.ctx.ghost["io_clock"] = clock(i)
                    net_wait(i, "reader.read")
                    i.suspend("reader.read")
                    c = i.ctx.choose(2, "read-outcome")
                    if c == 1:
                        i.throw("ConnectionResetError")
                    d = fresh("bytes", "chunk")
                    rest = fresh("bytes", "rest")
                    i.ctx.assume(self.incoming == z3.Concat(d.t, rest.t))
                    if isinstance(n, int) and n < 0:
                        i.ctx.assume(rest.t == z3.StringVal(""))
                    else:
                        nt = as_int(n)
                        i.ctx.assume(z3.Length(d.t) <= nt)
                        # b"" iff nothing remains (EOF)
                        i.ctx.assume((z3.Length(d.t) == 0) == (z3.Length(self.incoming) == 0))
                    self.incoming = rest.t
                    self.consumed = z3.Concat(self.consumed, d.t)
                    return d

                return Coro(run, "reader.read")

            return Builtin("reader.read", read)
        if name == "readline":

            def readline(i, a, k):
                def run():
                    from .models_aio import clock

                    i.ctx.ghost["io_clock"] = clock(i)
                    net_wait(i, "reader.readline")
                    i.suspend("reader.readline")
                    c = i.ctx.choose(3, "readline-outcome")
                    if c == 1:
                        i.throw("ConnectionResetError")
                    if c == 2:
                        i.throw("ValueError", "Separator is not found, and chunk exceed the limit")
                    d = fresh("bytes", "line")
                    rest = fresh("bytes", "rest")
                    A = i.ctx.assume
                    A(self.incoming == z3.Concat(d.t, rest.t))
                    nl = z3.StringVal("\n")
                    # the shortest prefix ending in \n, or everything at EOF
                    A(
                        z3.Or(
                            z3.And(z3.SuffixOf(nl, d.t), z3.Not(z3.Contains(z3.SubString(d.t, 0, z3.Length(d.t) - 1), nl))),
                            z3.And(rest.t == z3.StringVal(""), z3.Not(z3.Contains(d.t, nl))),
                        )
                    )
                    self.incoming = rest.t
                    self.consumed = z3.Concat(self.consumed, d.t)
                    return d

                return Coro(run, "reader.readline")

            return Builtin("reader.readline", readline)
        raise Unsupported("StreamReader." + name)


def net_wait(it, what):
    """a wait on the peer.  Once cancellation has been delivered to the running task (ABOR, disconnect, shutdown) the
    task must unwind without waiting for the peer again (C12 'without waiting for further input', C14 'is answered')."""
    if getattr(it, "cancel_delivered", None):
        fn = it.call_stack[-1].qualname if it.call_stack else "<unit>"
        it.ctx.check(f"{fn}/no-wait-on-the-peer-after-cancellation:{what}", z3.BoolVal(False), info={"props": ["C12", "C14"]})


GUARDS = {}


def guard(kind):
    def deco(fn):
        GUARDS.setdefault(kind, []).append(fn)
        return fn

    return deco
