"""Replay files: concretise a counter-model into a script that runs the *real* aioftp (AIOFTP_REPO) under
/venv/bin/python and re-evaluates the violated clause.  Prints REPRODUCED / NOT-REPRODUCED."""
from __future__ import annotations

import importlib
import json
import os
import re
import subprocess

HEADER = '''#!/venv/bin/python
# replay for obligation {tag}
# path: {path}
# run: AIOFTP_REPO=/repo /venv/bin/python {fname}
import os, sys
sys.path.insert(0, os.path.join(os.environ.get("AIOFTP_REPO", "/repo"), "src"))
OBLIGATION = {tag!r}
MODEL = {model!r}
SOLVER_NOTE = {note!r}
'''

GENERIC = '''
print("obligation", OBLIGATION, "failed; no concrete failing input could be constructed automatically")
print("counter-model (may be spurious where string builtins are uninterpreted):")
for k, v in sorted(MODEL.items()):
    print("   ", k, "=", repr(v))
print("NOT-REPRODUCED no-failing-input-found")
'''


def _safe(s):
    return re.sub(r"[^A-Za-z0-9_.-]+", "_", s)[:150]


def make_replay(prop, key, vc, meta, replay_dir):
    tag = f"{key[0]}::{vc['name']}"
    fname = os.path.join(replay_dir, f"{prop}_{_safe(tag)}.py")
    body = None
    rp = meta.get("replayers", {})
    fn = None
    for pat, f in rp.items():
        if pat in tag:
            fn = f
            break
    if fn is not None:
        try:
            mod, name = fn.rsplit(".", 1)
            body = getattr(importlib.import_module(mod), name)(vc.get("model") or {}, vc, key)
        except Exception as e:  # replay generation must never crash a check
            body = None
            vc["note"] = (vc.get("note") or "") + f" replay-generator-error: {e!r}"
    src = HEADER.format(tag=tag, path=vc.get("path", ""), fname=fname, model=vc.get("model") or {}, note=vc.get("note") or "")
    src += body if body else GENERIC
    open(fname, "w").write(src)
    verdict = "NOT-REPRODUCED"
    if body:
        try:
            env = dict(os.environ)
            env.setdefault("AIOFTP_REPO", "/repo")
            p = subprocess.run(["/venv/bin/python", fname], capture_output=True, text=True, timeout=120, env=env)
            out = p.stdout + p.stderr
            if "NOT-REPRODUCED" in out:
                verdict = "NOT-REPRODUCED"
            elif "REPRODUCED" in out:
                verdict = "REPRODUCED"
        except Exception:
            pass
    return fname, verdict


def write_extra_replay(prop, v, replay_dir):
    fname = os.path.join(replay_dir, f"{prop}_{_safe(v['name'])}.py")
    src = HEADER.format(tag=v["name"], path="", fname=fname, model=v.get("input"), note=v.get("note", ""))
    src += v.get("replay") or GENERIC
    open(fname, "w").write(src)
    return fname
