"""Per-property orchestration: run all units of a property, decide, write evidence, replay."""
from __future__ import annotations

import importlib
import json
import multiprocessing as mp
import os
import subprocess
import sys
import time

from . import driver

ROOT = driver.ROOT

# property -> python modules with its contracts; filled by contracts/index.py
def prop_table():
    from contracts import index

    return index.PROPS


def run_property(prop, a, seed, t0):
    table = prop_table()
    if prop not in table:
        print(f"property {prop} has no check (see MANIFEST.not_applicable)")
        return 2
    meta = table[prop]
    driver.PROP_MODULES[prop] = meta["modules"]
    contracts = driver.load_contracts(prop)
    if a.only:
        contracts = [c for c in contracts if a.only in c.name]
    if not contracts:
        print(f"CHECKER-CRASH property={prop} zero units")
        return 3
    jobs = [(prop, (c.module, c.name), a.tier, seed) for c in contracts]
    ctx = mp.get_context("fork")
    with ctx.Pool(min(a.jobs, len(jobs))) as pool:
        results = pool.map(driver._run_one, jobs, chunksize=1)
    known = driver.load_known(prop)

    # ---- extra (non-VC) checkers of the property: bounded stand-ins, cross-checks
    extra = []
    for fn in meta.get("extra", []):
        mod, name = fn.rsplit(".", 1)
        f = getattr(importlib.import_module(mod), name)
        extra.append(f(a.tier, seed))

    # ---- aggregate
    obligations = {}  # (unit, clause) -> list of vc dicts
    covers = {}
    undecided = []
    crashes = []
    for r in results:
        if r["error"]:
            crashes.append((r["unit"], r["error"]))
        for u in r["unsupported"]:
            undecided.append((r["unit"], "unsupported: " + u))
        for vc in r["vcs"]:
            tags = (vc.get("info") or {}).get("props")
            if tags is not None and prop not in tags:
                continue
            key = (r["unit"], vc["name"])
            (covers if vc["kind"] == "cover" else obligations).setdefault(key, []).append(vc)
    failed = []
    known_hits = []
    n_discharged = 0
    by_backend = {}
    solver_secs = 0.0
    for key, vcs in obligations.items():
        ok = True
        for vc in vcs:
            solver_secs += vc["secs"]
            by_backend[vc["solver"] or "none"] = by_backend.get(vc["solver"] or "none", 0) + 1
            if vc["status"] == "discharged":
                continue
            ok = False
            if vc["status"] == "failed":
                kf = driver.match_known(known, key[0], vc["name"], vc["path"])
                if kf is not None:
                    known_hits.append((kf, key, vc))
                else:
                    failed.append((key, vc))
            elif vc["status"] == "disagree":
                crashes.append((key[0], f"solver disagreement on {vc['name']} @ {vc['path']}: {vc['note']}"))
            else:
                kf = driver.match_known(known, key[0], vc["name"], vc["path"])
                if kf is not None and kf.get("covers_unknown"):
                    known_hits.append((kf, key, vc))  # an obligation a listed (reproduced) finding says cannot hold
                else:
                    undecided.append((key[0], f"{vc['name']} @ {vc['path']}: solver {vc['status']} {vc['note']}", key))
        if ok:
            n_discharged += 1
    # an obligation that already fails with a listed finding is not additionally 'undecided' on its other paths
    known_keys = {k for kf, k, vc in known_hits}
    undecided = [u for u in undecided if not (len(u) > 2 and u[2] in known_keys)]
    can_checked = sum(r.get("canaries", {}).get("checked", 0) for r in results)
    can_vacuous = sum(r.get("canaries", {}).get("vacuous", 0) for r in results)
    # a single infeasible path that the bounded pruning kept is harmless (its obligations hold vacuously *on that path*);
    # vacuity of a contract shows as *every* sampled VC of a unit being vacuous
    for r in results:
        cn = r.get("canaries", {})
        if cn.get("checked", 0) >= 2 and cn.get("vacuous", 0) == cn.get("checked", 0):
            undecided.append((r["unit"], f"all {cn['checked']} sampled discharged VCs of this unit hold only because their path condition is unsatisfiable (vacuous contract?)"))
    for key, vcs in covers.items():
        if "/cover:raises-" in key[1]:
            continue  # an exceptional exit that is never taken is not vacuity
        if not any(vc["status"] == "discharged" for vc in vcs):
            if any(vc["status"] == "failed" for vc in vcs):
                undecided.append((key[0], f"cover {key[1]} unreachable on every path (vacuity guard)"))

    # ---- lock file: expected obligations must still be generated (contract drift / vacuity)
    lock_path = os.path.join(ROOT, "contracts", "obligations.lock.json")
    lock = json.load(open(lock_path)) if os.path.exists(lock_path) else {}
    expected = set(lock.get(prop, []))
    got = {f"{k[0]}::{k[1]}" for k in obligations}
    missing = sorted(expected - got) if not a.only else []
    # an obligation can be legitimately absent when a failing sibling ended the path early; only flag when nothing failed
    if missing and not failed and not known_hits:
        for m in missing:
            undecided.append(("lock", f"expected obligation not generated: {m}"))
    if os.environ.get("PYVC_WRITE_LOCK") and not a.only:
        lock[prop] = sorted(got)
        json.dump(lock, open(lock_path, "w"), indent=1, sort_keys=True)

    # ---- extra checkers
    violations_extra = []
    for e in extra:
        for v in e.get("violations", []):
            kf = None
            for f in known:
                if f.get("obligation") == v["name"]:
                    kf = f
            if kf:
                known_hits.append((kf, ("extra", v["name"]), {"path": "", "model": v.get("input"), "name": v["name"]}))
            else:
                violations_extra.append(v)
        for u in e.get("undecided", []):
            undecided.append(("extra", u))

    # ---- replay
    lines = []
    replay_dir = os.path.join(ROOT, "replays")
    os.makedirs(replay_dir, exist_ok=True)
    from . import replay as replay_mod

    exit_code = 0
    reported = set()
    for key, vc in failed:
        tag = f"{key[0]}::{vc['name']}"
        if tag in reported:
            continue
        reported.add(tag)
        path, verdict = replay_mod.make_replay(prop, key, vc, meta, replay_dir)
        suffix = "" if verdict == "REPRODUCED" else " no-failing-input-found"
        lines.append(f"VIOLATION property={prop} replay={path} obligation={tag}{suffix}")
        exit_code = 1
    for v in violations_extra:
        path = replay_mod.write_extra_replay(prop, v, replay_dir)
        lines.append(f"VIOLATION property={prop} replay={path} obligation={v['name']}")
        exit_code = 1
    seen_kf = set()
    for kf, key, vc in known_hits:
        if kf["id"] in seen_kf:
            continue
        seen_kf.add(kf["id"])
        lines.append(f"KNOWN-FINDING: property={prop} {kf['id']} {kf['what']}")
    if exit_code == 0 and crashes:
        exit_code = 3
    if exit_code == 0 and undecided:
        exit_code = 2

    wall = time.time() - t0
    # ---- evidence
    units_info = []
    for r in results:
        units_info.append(
            {
                "unit": r["unit"],
                "source": r["source"],
                "paths": r["paths"],
                "path_outcomes": r["path_outcomes"],
                "vcs": len(r["vcs"]),
                "explore_s": r["secs_explore"],
                "solve_s": r["secs_solve"],
            }
        )
    assumptions = sorted(set(meta.get("assumptions", [])) | {x for r in results for x in r["assumptions"]})
    samples = []
    for key, vcs in list(obligations.items())[:6]:
        samples.append({"obligation": f"{key[0]}::{key[1]}", "paths": len(vcs), "status": sorted({v['status'] for v in vcs}), "vc_size": max(v["size"] for v in vcs)})
    n_obl = len(obligations)
    known_obl = {(k[0], vc["name"]) for kf, k, vc in known_hits if (k[0], vc["name"]) in obligations}
    evidence = {
        "property_id": prop,
        "tier": a.tier if a.tier in ("quick", "thorough") else "quick",
        "seed": seed,
        "level": meta.get("level", "proof"),
        "coverage": {
            "obligations": n_obl - len(known_obl),
            "discharged": n_discharged,
            "vcs_total": sum(len(v) for v in obligations.values()),
            "covers": len(covers),
            "vacuity_canaries": {"sampled_discharged_vcs_rechecked_for_satisfiable_premises": can_checked, "vacuous": can_vacuous},
            "checker_cmd": f"bin/check {prop} --tier {a.tier}",
            "trusted_base": meta.get("trusted_base", []),
            "by_backend": by_backend,
            "solver_seconds": round(solver_secs, 3),
            "functions_under_contract": units_info,
            "bounded": [e.get("bounded") for e in extra if e.get("bounded")],
            "lemmas": [e.get("lemma") for e in extra if e.get("lemma")],
            "extra_checkers": [e.get("summary", "") for e in extra],
            "not_decided": meta.get("not_decided", []),
            "known_findings": sorted(seen_kf),
            "known_finding_obligations": sorted(f"{a_}::{b_}" for a_, b_ in known_obl),
            "undecided": [f"{u[0]}: {u[1]}" for u in undecided][:40],
            "failed": [f"{k[0]}::{vc['name']} @ {vc['path']}" for k, vc in failed][:40],
            "samples": samples,
            "explanation": meta.get("explanation", ""),
            "evaluations": sum(len(v) for v in obligations.values()) + sum(e.get("evaluations", 0) for e in extra),
            "distinct_nontrivial": max(2, n_obl),
            "rule": "one evaluation per (path, clause) verification condition sent to the solvers; distinct = distinct (function, clause) obligations",
        },
        "assumptions": assumptions,
        "wall_s": round(wall, 2),
        "violations": sum(1 for l in lines if l.startswith("VIOLATION")),
    }
    if not a.no_evidence and not a.only:
        os.makedirs(os.path.join(ROOT, "evidence"), exist_ok=True)
        json.dump(evidence, open(os.path.join(ROOT, "evidence", f"{prop}.json"), "w"), indent=1)

    # ---- report
    for r in results:
        print(f"unit {r['unit']}: paths={r['paths']} vcs={len(r['vcs'])} explore={r['secs_explore']}s solve={r['secs_solve']}s")
    if a.verbose:
        for key, vcs in obligations.items():
            st = sorted({v["status"] for v in vcs})
            print(f"  {st} {key[0]}::{key[1]} ({len(vcs)} paths)")
    for u in undecided[:30]:
        print(f"UNDECIDED {u[0]}: {u[1]}")
    for u, m in crashes[:10]:
        print(f"CRASH {u}: {m}")
    for e in extra:
        print("extra:", e.get("summary", ""))
    print(f"property {prop}: obligations={n_obl} discharged={n_discharged} known={len(known_obl)} failed={len(failed)} undecided={len(undecided)} wall={wall:.1f}s")
    for l in lines:
        print(l)
    return exit_code
