"""CPython cross-check of the executor (T-engine mitigation, DESIGN.md 2.11.5): pure functions of the real tree are
run on concrete inputs (a) by CPython and (b) by the pyvc interpreter in concrete mode; results and exception classes
must agree.  A mismatch is a checker crash (exit 3), never a verdict about aioftp.  Bounded, seeded."""
from __future__ import annotations

import asyncio
import os
import pathlib
import random
import sys

ROOT = os.path.dirname(os.path.dirname(os.path.abspath(__file__)))


def _norm(v):
    """comparable view of a result from either side"""
    from .core import SV
    from .models_path import PathVal
    from .values import Obj

    import z3

    if isinstance(v, PathVal):
        ps = z3.simplify(v.parts)
        parts = []

        def walk(t):
            if z3.is_app(t) and t.decl().kind() == z3.Z3_OP_SEQ_CONCAT:
                for c in t.children():
                    walk(c)
            elif z3.is_app(t) and t.decl().kind() == z3.Z3_OP_SEQ_UNIT:
                parts.append(_norm(SV("str", t.children()[0])))
            elif z3.is_app(t) and t.decl().kind() == z3.Z3_OP_SEQ_EMPTY:
                pass
            else:
                parts.append("?" + str(t))

        walk(ps)
        a = v.anchor if isinstance(v.anchor, str) else _norm(v.anchor)
        return ("path", a, tuple(parts))
    if isinstance(v, pathlib.PurePath):
        a = v.anchor
        return ("path", a, tuple(v.parts[1:] if a else v.parts))
    if isinstance(v, SV):
        s = z3.simplify(v.t)
        if z3.is_string_value(s):
            import re

            return re.sub(r"\\u\{([0-9a-fA-F]+)\}", lambda m: chr(int(m.group(1), 16)), s.as_string())
        if z3.is_int_value(s):
            return s.as_long()
        if z3.is_true(s):
            return True
        if z3.is_false(s):
            return False
        return "?" + str(s)
    if isinstance(v, Obj) and "__value__" in v.fields:
        return _norm(v.fields["__value__"])
    if isinstance(v, (tuple, list)):
        return tuple(_norm(x) for x in v)
    if isinstance(v, dict):
        return tuple(sorted((k, _norm(x)) for k, x in v.items()))
    return v


def run(seed=0, n=200):
    sys.path.insert(0, os.path.join(os.environ.get("AIOFTP_REPO", "/repo"), "src"))
    import aioftp

    import z3

    from .core import Ctx, PathEnd, PyRaise, Unsupported
    from .interp import Interp
    from .values import Builtin

    rnd = random.Random(seed)
    repo = os.environ.get("AIOFTP_REPO", "/repo")
    it = Interp(Ctx(), repo)
    for m in ("aioftp.common", "aioftp.errors", "aioftp.pathio", "aioftp.server", "aioftp.client"):
        it.load_module(m)
    cl_cls = it.modules["aioftp.client"].attrs["BaseClient"]
    code_cls = it.modules["aioftp.client"].attrs["Code"]
    perm_cls = it.modules["aioftp.server"].attrs["Permission"]
    ac_cls = it.modules["aioftp.server"].attrs["AvailableConnections"]
    real_client = aioftp.BaseClient()
    user_cls = it.modules["aioftp.server"].attrs["User"]
    throttle_cls = it.modules["aioftp.common"].attrs["Throttle"]
    client_obj = it.call(cl_cls, [], {"path_io_factory": Builtin("factory", lambda i, a, k: None)})

    def _pathstr(pv):
        n = _norm(pv)
        return (n[1] if n[1] else "") + "/".join(n[2]) if n[2] or n[1] else "."

    def _num(v):
        n = _norm(v)
        if isinstance(n, str) and n.startswith("?"):
            s = z3.simplify(v.t)
            if z3.is_rational_value(s):
                f = s.numerator_as_long() / s.denominator_as_long()
                return int(f) if f == int(f) and v.k == "int" else f
        return n
    alpha = ['"', '""', " ", "a", "b", "/", "x", "-", "rwx", "rw-", "s", "S", "t", "1", "2", "250", "\u00b2"]

    def rstr(k=6):
        return "".join(rnd.choice(alpha) for _ in range(rnd.randint(0, k)))

    cases = []
    for _ in range(n):
        s = rstr()
        cases.append(("parse_directory_response", lambda s=s: real_client.parse_directory_response(s), lambda s=s: it.call(it.getattr_(cl_cls, "parse_directory_response"), [s], {})))
        m = "".join(rnd.choice("rwxsStT-?") for _ in range(rnd.choice([9, 9, 9, 5, 10])))
        cases.append(("parse_unix_mode", lambda m=m: real_client.parse_unix_mode(m), lambda m=m: it.call(it.getattr_(cl_cls, "parse_unix_mode"), [m], {})))
        c3, mk = "".join(rnd.choice("0123456789") for _ in range(3)), "".join(rnd.choice("0123456789x") for _ in range(rnd.randint(1, 3)))
        cases.append(("Code.matches", lambda c3=c3, mk=mk: aioftp.Code(c3).matches(mk), lambda c3=c3, mk=mk: it.call(it.getattr_(it.call(code_cls, [c3], {}), "matches"), [mk], {})))
        pp, qq = "/" + "/".join(rnd.choice(["a", "b", "ab"]) for _ in range(rnd.randint(0, 3))), "/" + "/".join(rnd.choice(["a", "b", "ab"]) for _ in range(rnd.randint(0, 3)))
        cases.append(("Permission.is_parent", lambda pp=pp, qq=qq: aioftp.Permission(pp).is_parent(pathlib.PurePosixPath(qq)), lambda pp=pp, qq=qq: it.call(it.getattr_(it.call(perm_cls, [pp], {}), "is_parent"), [it.call(it.model_modules["pathlib"].attrs["PurePosixPath"], [qq], {})], {})))
        v = rnd.choice([None, 0, 1, 2, 5])

        def ac_real(v=v, ops=tuple(rnd.choice("ar") for _ in range(4))):
            a = aioftp.AvailableConnections(v)
            out = []
            for o in ops:
                try:
                    (a.acquire if o == "a" else a.release)()
                    out.append((a.value, a.locked()))
                except ValueError:
                    out.append("ValueError")
            return tuple(out)

        def ac_sym(v=v, ops=None):
            pass

        ops = tuple(rnd.choice("ar") for _ in range(4))

        def ac_real2(v=v, ops=ops):
            a = aioftp.AvailableConnections(v)
            out = []
            for o in ops:
                try:
                    (a.acquire if o == "a" else a.release)()
                    out.append((a.value, a.locked()))
                except ValueError:
                    out.append("ValueError")
            return tuple(out)

        def ac_sym2(v=v, ops=ops):
            a = it.call(ac_cls, [v], {})
            out = []
            for o in ops:
                try:
                    it.call(it.getattr_(a, "acquire" if o == "a" else "release"), [], {})
                    out.append((a.fields["value"], it.call(it.getattr_(a, "locked"), [], {})))
                except PyRaise as pr:
                    out.append(pr.exc.cls.name)
            return tuple(out)

        cases.append(("AvailableConnections", ac_real2, ac_sym2))
        # ---- MLSx line parser (name after the first space, facts lower-cased)
        nm = rnd.choice(["f", "a b", " x", "é", "k=v;", "a;b"])
        ml = (rnd.choice(["Size=3;Type=file;", "type=dir;MODIFY=20200101000000;", "", "Type=file;Size=0;Unix.mode=0644;"]) + " " + nm + rnd.choice(["\r\n", "\n", ""])).encode()
        cases.append(("parse_mlsx_line", lambda ml=ml: (lambda r: (str(r[0]), tuple(sorted(r[1].items()))))(real_client.parse_mlsx_line(ml)), lambda ml=ml: (lambda r: (_pathstr(r[0]), tuple(sorted((k, _norm(v)) for k, v in r[1].items()))))(it.call(it.getattr_(client_obj, "parse_mlsx_line"), [ml], {}))))
        # ---- nearest-ancestor permission lookup
        table = [("/", True, True)] + [("/" + "/".join(rnd.choice(["a", "b", "ab"]) for _ in range(rnd.randint(1, 2))), rnd.random() < 0.5, rnd.random() < 0.5) for _ in range(rnd.randint(0, 2))]
        q = "/" + "/".join(rnd.choice(["a", "b", "ab"]) for _ in range(rnd.randint(0, 3)))

        def perm_real(table=table, q=q):
            import asyncio as _a

            u = aioftp.User(permissions=[aioftp.Permission(p, readable=r, writable=w) for p, r, w in table])
            pr = _a.run(u.get_permissions(q))
            return (str(pr.path), pr.readable, pr.writable)

        def perm_sym(table=table, q=q):
            perms = [it.call(perm_cls, [p], {"readable": r, "writable": w}) for p, r, w in table]
            u = it.call(user_cls, [], {"permissions": perms})
            pr = it.await_(it.call(it.getattr_(u, "get_permissions"), [q], {}))
            return (_pathstr(pr.fields["path"]), _norm(pr.fields["readable"]), _norm(pr.fields["writable"]))

        cases.append(("User.get_permissions", perm_real, perm_sym))
        # ---- throttle accounting
        lim = rnd.choice([None, 0, 1, 10, 1000])
        seq = []
        t = 0.0
        for _ in range(4):
            t += rnd.choice([0.0, 0.5, 3.0, 11.0, 12.5])
            seq.append((rnd.choice([0, 1, 7, 1000]), t))

        def th_real(lim=lim, seq=tuple(seq)):
            th = aioftp.Throttle(limit=lim, reset_rate=10)
            out = []
            for n, at in seq:
                th.append(b"x" * n, at)
                out.append((th._sum, th._start))
            return tuple(out)

        def th_sym(lim=lim, seq=tuple(seq)):
            th = it.call(throttle_cls, [], {"limit": lim, "reset_rate": 10})
            out = []
            for n, at in seq:
                it.call(it.getattr_(th, "append"), [b"x" * n, at], {})
                out.append((_num(th.fields["_sum"]), _num(th.fields["_start"])))
            return tuple(out)

        cases.append(("Throttle.append", th_real, th_sym))
    mismatches = []
    unsup, unsup_why = {}, {}
    counts = {}
    for name, real, sym in cases:
        try:
            r1 = ("ok", _norm(real()))
        except Exception as e:
            r1 = ("raise", type(e).__name__)
        try:
            r2 = ("ok", _norm(sym()))
        except PyRaise as pr:
            r2 = ("raise", pr.exc.cls.name)
        except (Unsupported, PathEnd) as e:
            r2 = ("unsupported", str(e))
        counts[name] = counts.get(name, 0) + 1
        if r2[0] == "unsupported":
            unsup[name] = unsup.get(name, 0) + 1
            unsup_why.setdefault(name, r2[1][:120])
        elif r1 != r2:
            mismatches.append((name, r1, r2))
    return {"cases": sum(counts.values()), "per_function": counts, "outside_the_subset": unsup, "why": unsup_why, "mismatches": mismatches[:5]}


if __name__ == "__main__":
    sys.path.insert(0, ROOT)
    r = run(int(os.environ.get("VERIF_SEED", "0")), int(sys.argv[1]) if len(sys.argv) > 1 else 200)
    print(r)
    sys.exit(3 if r["mismatches"] else 0)
