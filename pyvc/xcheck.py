"""CPython cross-check of the executor (T-engine mitigation, DESIGN.md 2.11.5): pure functions of the real tree are
run on concrete inputs (a) by CPython and (b) by the pyvc interpreter in concrete mode; results and exception classes
must agree.  A mismatch is a checker crash (exit 3), never a verdict about aioftp.  Bounded, seeded."""
from __future__ import annotations

import asyncio
import os
import pathlib
import random
import sys

ROOT = os.path.dirname(os.path.dirname(os.path.abspath(__file__)))


def _norm(v):
    """comparable view of a result from either side"""
    from .core import SV
    from .models_path import PathVal
    from .values import Obj

    import z3

    if isinstance(v, PathVal):
        ps = z3.simplify(v.parts)
        parts = []

        def walk(t):
            if z3.is_app(t) and t.decl().kind() == z3.Z3_OP_SEQ_CONCAT:
                for c in t.children():
                    walk(c)
            elif z3.is_app(t) and t.decl().kind() == z3.Z3_OP_SEQ_UNIT:
                parts.append(_norm(SV("str", t.children()[0])))
            elif z3.is_app(t) and t.decl().kind() == z3.Z3_OP_SEQ_EMPTY:
                pass
            else:
                parts.append("?" + str(t))

        walk(ps)
        a = v.anchor if isinstance(v.anchor, str) else _norm(v.anchor)
        return ("path", a, tuple(parts))
    if isinstance(v, pathlib.PurePath):
        a = v.anchor
        return ("path", a, tuple(v.parts[1:] if a else v.parts))
    if isinstance(v, SV):
        s = z3.simplify(v.t)
        if z3.is_string_value(s):
            import re

            return re.sub(r"\\u\{([0-9a-fA-F]+)\}", lambda m: chr(int(m.group(1), 16)), s.as_string())
        if z3.is_int_value(s):
            return s.as_long()
        if z3.is_true(s):
            return True
        if z3.is_false(s):
            return False
        return "?" + str(s)
    if isinstance(v, Obj) and "__value__" in v.fields:
        return _norm(v.fields["__value__"])
    if isinstance(v, (tuple, list)):
        return tuple(_norm(x) for x in v)
    if isinstance(v, dict):
        return tuple(sorted((k, _norm(x)) for k, x in v.items()))
    return v


def run(seed=0, n=200):
    sys.path.insert(0, os.path.join(os.environ.get("AIOFTP_REPO", "/repo"), "src"))
    import aioftp

    from .core import Ctx, PathEnd, PyRaise, Unsupported
    from .interp import Interp

    rnd = random.Random(seed)
    repo = os.environ.get("AIOFTP_REPO", "/repo")
    it = Interp(Ctx(), repo)
    for m in ("aioftp.common", "aioftp.errors", "aioftp.pathio", "aioftp.server", "aioftp.client"):
        it.load_module(m)
    cl_cls = it.modules["aioftp.client"].attrs["BaseClient"]
    code_cls = it.modules["aioftp.client"].attrs["Code"]
    perm_cls = it.modules["aioftp.server"].attrs["Permission"]
    ac_cls = it.modules["aioftp.server"].attrs["AvailableConnections"]
    real_client = aioftp.BaseClient()
    alpha = ['"', '""', " ", "a", "b", "/", "x", "-", "rwx", "rw-", "s", "S", "t", "1", "2", "250", "\u00b2"]

    def rstr(k=6):
        return "".join(rnd.choice(alpha) for _ in range(rnd.randint(0, k)))

    cases = []
    for _ in range(n):
        s = rstr()
        cases.append(("parse_directory_response", lambda s=s: real_client.parse_directory_response(s), lambda s=s: it.call(it.getattr_(cl_cls, "parse_directory_response"), [s], {})))
        m = "".join(rnd.choice("rwxsStT-?") for _ in range(rnd.choice([9, 9, 9, 5, 10])))
        cases.append(("parse_unix_mode", lambda m=m: real_client.parse_unix_mode(m), lambda m=m: it.call(it.getattr_(cl_cls, "parse_unix_mode"), [m], {})))
        c3, mk = "".join(rnd.choice("0123456789") for _ in range(3)), "".join(rnd.choice("0123456789x") for _ in range(rnd.randint(1, 3)))
        cases.append(("Code.matches", lambda c3=c3, mk=mk: aioftp.Code(c3).matches(mk), lambda c3=c3, mk=mk: it.call(it.getattr_(it.call(code_cls, [c3], {}), "matches"), [mk], {})))
        pp, qq = "/" + "/".join(rnd.choice(["a", "b", "ab"]) for _ in range(rnd.randint(0, 3))), "/" + "/".join(rnd.choice(["a", "b", "ab"]) for _ in range(rnd.randint(0, 3)))
        cases.append(("Permission.is_parent", lambda pp=pp, qq=qq: aioftp.Permission(pp).is_parent(pathlib.PurePosixPath(qq)), lambda pp=pp, qq=qq: it.call(it.getattr_(it.call(perm_cls, [pp], {}), "is_parent"), [it.call(it.model_modules["pathlib"].attrs["PurePosixPath"], [qq], {})], {})))
        v = rnd.choice([None, 0, 1, 2, 5])

        def ac_real(v=v, ops=tuple(rnd.choice("ar") for _ in range(4))):
            a = aioftp.AvailableConnections(v)
            out = []
            for o in ops:
                try:
                    (a.acquire if o == "a" else a.release)()
                    out.append((a.value, a.locked()))
                except ValueError:
                    out.append("ValueError")
            return tuple(out)

        def ac_sym(v=v, ops=None):
            pass

        ops = tuple(rnd.choice("ar") for _ in range(4))

        def ac_real2(v=v, ops=ops):
            a = aioftp.AvailableConnections(v)
            out = []
            for o in ops:
                try:
                    (a.acquire if o == "a" else a.release)()
                    out.append((a.value, a.locked()))
                except ValueError:
                    out.append("ValueError")
            return tuple(out)

        def ac_sym2(v=v, ops=ops):
            a = it.call(ac_cls, [v], {})
            out = []
            for o in ops:
                try:
                    it.call(it.getattr_(a, "acquire" if o == "a" else "release"), [], {})
                    out.append((a.fields["value"], it.call(it.getattr_(a, "locked"), [], {})))
                except PyRaise as pr:
                    out.append(pr.exc.cls.name)
            return tuple(out)

        cases.append(("AvailableConnections", ac_real2, ac_sym2))
    mismatches = []
    counts = {}
    for name, real, sym in cases:
        try:
            r1 = ("ok", _norm(real()))
        except Exception as e:
            r1 = ("raise", type(e).__name__)
        try:
            r2 = ("ok", _norm(sym()))
        except PyRaise as pr:
            r2 = ("raise", pr.exc.cls.name)
        except (Unsupported, PathEnd) as e:
            r2 = ("unsupported", str(e))
        counts[name] = counts.get(name, 0) + 1
        if r1 != r2 and r2[0] != "unsupported":
            mismatches.append((name, r1, r2))
    return {"cases": sum(counts.values()), "per_function": counts, "mismatches": mismatches[:5]}


if __name__ == "__main__":
    sys.path.insert(0, ROOT)
    r = run(int(os.environ.get("VERIF_SEED", "0")), int(sys.argv[1]) if len(sys.argv) > 1 else 200)
    print(r)
    sys.exit(3 if r["mismatches"] else 0)
