"""Check driver: bin/check <property> --tier quick|thorough

exit 0 held (possibly with KNOWN-FINDING lines) / 1 violation / 2 undecided / 3 checker crash.
"""
from __future__ import annotations

import argparse
import hashlib
import importlib
import json
import multiprocessing as mp
import os
import subprocess
import sys
import time
import traceback

ROOT = os.path.dirname(os.path.dirname(os.path.abspath(__file__)))
sys.path.insert(0, ROOT)

PROP_MODULES = {
    "C10": ["contracts.c10_limits"],
}


def repo_root():
    return os.environ.get("AIOFTP_REPO", "/repo")


def load_contracts(prop):
    from pyvc import unit

    for m in PROP_MODULES.get(prop, []):
        importlib.import_module(m)
    out = [c for c in unit.REGISTRY.values() if prop in c.props and c.self_check]
    from contracts import index

    flt = index.PROPS.get(prop, {}).get("unit_filter")
    if flt:
        out = [c for c in out if c.name in flt]
    pfx = index.PROPS.get(prop, {}).get("unit_filter_prefix")
    if pfx:
        out = [c for c in out if any(c.name.startswith(p) for p in pfx)]
    return out


def _run_one(args):
    prop, key, tier, seed = args
    from pyvc import unit

    for m in PROP_MODULES.get(prop, []):
        importlib.import_module(m)
    c = unit.REGISTRY[key]
    budget = 30.0 if tier == "quick" else 120.0
    t0 = time.time()
    try:
        res = unit.run_unit(c, repo_root(), opts={"seed": seed})
        unit.solve_all(res, budget_s=max(budget, c.opts.get("solve_budget_s", 0)), both=(tier == "thorough"), par=c.opts.get("solve_par", 4))
    except Exception:
        res = unit.UnitResult(f"{key[0]}:{key[1]}")
        res.error = traceback.format_exc()
    canaries = {"checked": 0, "vacuous": 0}
    try:
        import random as _r
        import z3 as _z3

        rnd = _r.Random(seed)
        cand = [vc for vc in res.vcs if vc.kind != "cover" and vc.status == "discharged" and vc.solver not in (None, "simplifier")]
        for vc in rnd.sample(cand, min(3, len(cand))):
            s = _z3.Solver()
            s.set("timeout", 2000)
            for a_ in vc.pc:
                s.add(a_)
            s.add(vc.goal)
            r_ = s.check()
            canaries["checked"] += 1
            if r_ == _z3.unsat:
                canaries["vacuous"] += 1
    except Exception:
        pass
    out = {
        "unit": res.name,
        "canaries": canaries,
        "key": list(key),
        "paths": res.paths,
        "path_outcomes": res.path_outcomes,
        "unsupported": res.unsupported[:5],
        "error": res.error,
        "secs_explore": round(res.secs_explore, 3),
        "secs_solve": round(res.secs_solve, 3),
        "assumptions": sorted(res.assumptions) + list(c.assumptions),
        "vcs": [
            {
                "name": vc.name,
                "path": vc.path,
                "kind": vc.kind,
                "status": vc.status,
                "solver": vc.solver,
                "secs": round(vc.secs, 4),
                "model": vc.model,
                "note": vc.note,
                "size": len(vc.pc),
                "info": vc.info,
            }
            for vc in res.vcs
        ],
        "source": unit_source_info(c),
        "wall": round(time.time() - t0, 3),
    }
    return out


def unit_source_info(c):
    """sha256 of the real function's source segment + loop/await counts (re-extracted on every run)."""
    import ast

    modfile = os.path.join(repo_root(), "src", *c.module.split(".")) + ".py"
    try:
        src = open(modfile, encoding="utf-8").read()
        tree = ast.parse(src)
    except Exception as e:
        return {"error": str(e)}
    parts = [p for p in c.qualname.split(".") if p != "<locals>"]
    node = tree
    for p in parts:
        found = None
        for n in ast.walk(node):
            if isinstance(n, (ast.FunctionDef, ast.AsyncFunctionDef, ast.ClassDef)) and n.name == p and n is not node:
                found = n
                break
        if found is None:
            return {"error": f"{c.qualname} not found in {modfile}"}
        node = found
    seg = ast.get_source_segment(src, node) or ""
    loops = sum(isinstance(n, (ast.For, ast.While, ast.AsyncFor)) for n in ast.walk(node))
    awaits = sum(isinstance(n, ast.Await) for n in ast.walk(node))
    return {
        "file": os.path.relpath(modfile, repo_root()),
        "qualname": c.qualname,
        "sha256": hashlib.sha256(seg.encode()).hexdigest(),
        "lines": [node.lineno, node.end_lineno],
        "loops": loops,
        "awaits": awaits,
    }


def load_known(prop):
    p = os.path.join(ROOT, "known_findings.json")
    if not os.path.exists(p):
        return []
    data = json.load(open(p))
    return [f for f in data.get("findings", []) if prop in f.get("properties", [f.get("property")]) and f.get("status", "open") == "open"]


def match_known(known, unit_name, vc_name, path):
    import re

    for f in known:
        if "obligation_regex" in f:
            if re.search(f["obligation_regex"], vc_name) and re.search(f.get("unit_regex", "."), unit_name):
                return f
            continue
        if f.get("obligation") == vc_name and f.get("unit", unit_name) in (unit_name, None):
            pat = f.get("path_contains")
            anyp = f.get("path_contains_any")
            if anyp is not None and not any(p in path for p in anyp):
                continue
            if pat is None or all(p in path for p in ([pat] if isinstance(pat, str) else pat)):
                return f
    return None


def main(argv=None):
    ap = argparse.ArgumentParser()
    ap.add_argument("prop")
    ap.add_argument("--tier", default=os.environ.get("VERIF_TIER", "quick"))
    ap.add_argument("--jobs", type=int, default=int(os.environ.get("VERIF_JOBS", "16")))
    ap.add_argument("--only", default=None, help="substring filter on unit qualname")
    ap.add_argument("--verbose", "-v", action="store_true")
    ap.add_argument("--no-evidence", action="store_true")
    a = ap.parse_args(argv)
    seed = int(os.environ.get("VERIF_SEED", "0"))
    t0 = time.time()
    prop = a.prop
    try:
        from pyvc import props

        return props.run_property(prop, a, seed, t0)
    except SystemExit:
        raise
    except Exception:
        traceback.print_exc()
        print(f"CHECKER-CRASH property={prop}")
        return 3


if __name__ == "__main__":
    sys.exit(main())
