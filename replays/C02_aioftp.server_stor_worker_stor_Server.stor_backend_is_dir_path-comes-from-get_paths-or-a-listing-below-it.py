#!/venv/bin/python
# replay for obligation aioftp.server:stor_worker@stor::Server.stor/backend:is_dir:path-comes-from-get_paths-or-a-listing-below-it
# path: conn.logged-present=T.conn.passive_server-present=T.wait_for-outcome=0.conn.user-present=T.conn.user-done=T.if@6=F
# run: AIOFTP_REPO=/repo /venv/bin/python /verif/replays/C02_aioftp.server_stor_worker_stor_Server.stor_backend_is_dir_path-comes-from-get_paths-or-a-listing-below-it.py
import os, sys
sys.path.insert(0, os.path.join(os.environ.get("AIOFTP_REPO", "/repo"), "src"))
OBLIGATION = 'aioftp.server:stor_worker@stor::Server.stor/backend:is_dir:path-comes-from-get_paths-or-a-listing-below-it'
MODEL = {'restart_offset!10': 0, 'block_size!0': 1, 'user_present!11': True, 'user_done!12': True, 'current_directory_present!15': True, 'current_directory_done!16': True, 'passive_server_present!19': True, 'logged_present!13': True, 'passive_server_done!20': True, 'logged_done!14': True, 'auth_ok!27': True, 'writable!33': True}
SOLVER_NOTE = ''

print("obligation", OBLIGATION, "failed; no concrete failing input could be constructed automatically")
print("counter-model (may be spurious where string builtins are uninterpreted):")
for k, v in sorted(MODEL.items()):
    print("   ", k, "=", repr(v))
print("NOT-REPRODUCED no-failing-input-found")
