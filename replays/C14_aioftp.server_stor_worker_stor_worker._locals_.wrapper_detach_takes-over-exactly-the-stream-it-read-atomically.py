#!/venv/bin/python
# replay for obligation aioftp.server:stor_worker@stor::worker.<locals>.wrapper/detach:takes-over-exactly-the-stream-it-read-atomically
# path: conn.logged-present=T.conn.passive_server-present=T.wait_for-outcome=0.conn.user-present=T.conn.user-done=T.if@6=F.backend.is_dir-fault=0.if@24=T.conn.data_connection-present=T.wait_future_timeout-is-None=0.cancel@wait_for(gather)=0.wait_for-outcome=0.conn.data_connection-done=T.if@2=T.cancel@backend._open=0.backend._open-fault=0.if@8=T.cancel@backend.seek=0.backend.seek-fault=0.cancel@reader.read=0.read-outcome=0.if@2=T.cancel@backend.write=0.backend.write-fault=1.cancel@backend.close=0.backend.close-fault=0
# run: AIOFTP_REPO=/repo /venv/bin/python /verif/replays/C14_aioftp.server_stor_worker_stor_worker._locals_.wrapper_detach_takes-over-exactly-the-stream-it-read-atomically.py
import os, sys
sys.path.insert(0, os.path.join(os.environ.get("AIOFTP_REPO", "/repo"), "src"))
OBLIGATION = 'aioftp.server:stor_worker@stor::worker.<locals>.wrapper/detach:takes-over-exactly-the-stream-it-read-atomically'
MODEL = {'block_size!0': 1, 'restart_offset!10': 1, 'data_connection_done!22': True, 'rest!102': '', 'dc_accepted!38': True, 'wait_future_timeout!48': '0/1', 'chunk!101': 'A', 'dc_accepted!50': False, 'dc_accepted!39': False, 'dc_accepted!35': False, 'dc_accepted!30': False, 'dc_accepted!34': False, 'dc_accepted!29': False, 'data_connection_present!21': False, 'user_present!11': True, 'current_directory_done!74': True, 'current_directory_present!52': True, 'current_directory_present!41': True, 'current_directory_present!94': True, 'current_directory_done!53': True, 'writable!33': True, 'current_directory_done!16': True, 'passive_server_present!19': True, 'current_directory_done!95': True, 'incoming!83': 'A', 'user_done!12': True, 'current_directory_done!63': True, 'passive_server_done!20': True, 'logged_done!14': True, 'current_directory_present!73': True, 'fsbool!37': True, 'current_directory_done!107': True, 'current_directory_done!117': True, 'current_directory_present!116': True, 'current_directory_present!15': True, 'logged_present!13': True, 'current_directory_done!42': True, 'current_directory_present!106': True, 'current_directory_present!62': True, 'auth_ok!27': True}
SOLVER_NOTE = ''

print("obligation", OBLIGATION, "failed; no concrete failing input could be constructed automatically")
print("counter-model (may be spurious where string builtins are uninterpreted):")
for k, v in sorted(MODEL.items()):
    print("   ", k, "=", repr(v))
print("NOT-REPRODUCED no-failing-input-found")
