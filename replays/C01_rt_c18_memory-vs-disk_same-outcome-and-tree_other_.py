#!/venv/bin/python
# replay for obligation rt:c18/memory-vs-disk/same-outcome-and-tree[other]
# path: 
# run: AIOFTP_REPO=/repo /venv/bin/python /verif/replays/C01_rt_c18_memory-vs-disk_same-outcome-and-tree_other_.py
import os, sys
sys.path.insert(0, os.path.join(os.environ.get("AIOFTP_REPO", "/repo"), "src"))
OBLIGATION = 'rt:c18/memory-vs-disk/same-outcome-and-tree[other]'
MODEL = {'seq': [['r+b', 'd/f'], ['ab', 'd/f']]}
SOLVER_NOTE = 'found by the bounded run-time contract checker on the real code'

import json, subprocess
inp = {'seq': [['r+b', 'd/f'], ['ab', 'd/f']]}
p = subprocess.run(["/venv/bin/python", '/verif/rt/c18_rt.py', "replay", json.dumps(inp)], capture_output=True, text=True, env=dict(os.environ))
print(p.stdout.strip() or p.stderr.strip())
