#!/venv/bin/python
# replay for obligation aioftp.server:Server.dispatcher/finally::Server.dispatcher/finally/exit:user-slot-returned
# path: data-ports-configured=0.srv_value-is-None=0.if@985=T.other-workers=T.conn.passive_server-present=T.if@989=T.conn.passive_server-done=T.conn.data_connection-present=T.if@994=T.conn.data_connection-done=T.if@997=T.AvailableConnections.release-outcome=0.conn.logged-present=T.if@999=F
# run: AIOFTP_REPO=/repo /venv/bin/python /verif/replays/C10_aioftp.server_Server.dispatcher_finally_Server.dispatcher_finally_exit_user-slot-returned.py
import os, sys
sys.path.insert(0, os.path.join(os.environ.get("AIOFTP_REPO", "/repo"), "src"))
OBLIGATION = 'aioftp.server:Server.dispatcher/finally::Server.dispatcher/finally/exit:user-slot-returned'
MODEL = {'srv_max!2': 1, 'srv_value!29': 0, 'block_size!0': 1, 'u_cur_home!7': 'Unit("!0!")', 'pool_size!10': 0, 'value!35': 1, 'cwd!8': 'Unit("!1!")', 'restart_offset!12': 0, 'pool_cnt0': 'K(Int, 22)', 'pool_size!1': 0, 'current_directory_present!17': True, 'srv_value!30': 0, 'user_present!13': True, 'loop_closed!34': False, 'logged_done!16': False, 'data_connection_present!23': True, 'logged_present!15': True, 'acquired!11': True, 'user_done!14': True, 'current_directory_done!18': True, 'data_connection_done!24': True, 'srv_rest!11': 1, 'pool_rest!10': 'K(Int, 0)', 'passive_port!9': 0, 'pool_cnt!10': 'Store(K(Int, 0), 0, -1)', 'other_workers!10': True, 'passive_server_done!22': True, 'passive_server_present!21': True}
SOLVER_NOTE = ''

print("obligation", OBLIGATION, "failed; no concrete failing input could be constructed automatically")
print("counter-model (may be spurious where string builtins are uninterpreted):")
for k, v in sorted(MODEL.items()):
    print("   ", k, "=", repr(v))
print("NOT-REPRODUCED no-failing-input-found")
