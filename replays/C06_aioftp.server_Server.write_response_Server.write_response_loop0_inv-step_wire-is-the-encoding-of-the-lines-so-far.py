#!/venv/bin/python
# replay for obligation aioftp.server:Server.write_response::Server.write_response/loop0/inv-step:wire-is-the-encoding-of-the-lines-so-far
# path: list-mode=0.lines-is-a-str=0.seqindex=T.seqindex=T.for@Server.write_response/loop0=T.if@23=T.Server.write_line-outcome=0
# run: AIOFTP_REPO=/repo /venv/bin/python /verif/replays/C06_aioftp.server_Server.write_response_Server.write_response_loop0_inv-step_wire-is-the-encoding-of-the-lines-so-far.py
import os, sys
sys.path.insert(0, os.path.join(os.environ.get("AIOFTP_REPO", "/repo"), "src"))
OBLIGATION = 'aioftp.server:Server.write_response::Server.write_response/loop0/inv-step:wire-is-the-encoding-of-the-lines-so-far'
MODEL = {'wire!2': 'Store(Store(Store(K(Int, "!1!"), -421678, ""), -1, ""),\n      0,\n      "")', 'wire!0': 'Store(Store(Store(K(Int, "!2!"), -421678, ""), -1, "C"),\n      0,\n      "")', 'code!0': '000', 'lines': 'Store(Store(Store(Store(K(Int, "!0!"), -421678, ""), -1, ""),\n            0,\n            "C"),\n      32353,\n      "C")', 'wirelen!1': 0, '_i!1': 0, 'nlines': 32354, 'wire!4': 'Store(Store(Store(K(Int, "!1!"), -421678, ""), -1, ""),\n      0,\n      "000 C")', 'wirelen!3': 0}
SOLVER_NOTE = ''

print("obligation", OBLIGATION, "failed; no concrete failing input could be constructed automatically")
print("counter-model (may be spurious where string builtins are uninterpreted):")
for k, v in sorted(MODEL.items()):
    print("   ", k, "=", repr(v))
print("NOT-REPRODUCED no-failing-input-found")
