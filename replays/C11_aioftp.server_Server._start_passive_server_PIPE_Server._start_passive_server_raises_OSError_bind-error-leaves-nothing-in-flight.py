#!/venv/bin/python
# replay for obligation aioftp.server:Server._start_passive_server#PIPE::Server._start_passive_server/raises:OSError:bind-error-leaves-nothing-in-flight
# path: data-ports-configured=0.pool-nonempty=T.if@6=F.cancel@start_server=0.start_server-outcome=1.if@23=T
# run: AIOFTP_REPO=/repo /venv/bin/python /verif/replays/C11_aioftp.server_Server._start_passive_server_PIPE_Server._start_passive_server_raises_OSError_bind-error-leaves-nothing-in-flight.py
import os, sys
sys.path.insert(0, os.path.join(os.environ.get("AIOFTP_REPO", "/repo"), "src"))
OBLIGATION = 'aioftp.server:Server._start_passive_server#PIPE::Server._start_passive_server/raises:OSError:bind-error-leaves-nothing-in-flight'
MODEL = {'pool_size!27': 0, 'restart_offset!11': 0, 'viewed!2': 'K(Int, False)', 'restart_offset!34': 0, 'pool_size!22': 1, 'pool_cnt0': 'Store(Store(K(Int, 4), 5, 26284), 6, 10450)', 'passive_server_present!43': True, 'block_size!0': 1, 'current_directory_done!17': True, 'cwd!19': 'Unit("!2!")', 'logged_present!37': False, 'pool_size!1': 0, 'port!30': 5, 'logged_present!14': False, 'current_directory_present!39': True, 'current_directory_present!16': True, 'current_directory_done!40': True, 'pool_rest!27': 'Store(Store(K(Int, 4), 5, 26285), 6, 10450)', 'pool_rest!22': 'K(Int, 1)', 'u_cur_home!18': 'Unit("!0!")', 'cwd!25': 'Unit("!3!")', 'u_cur_home!24': 'Unit("!1!")', 'passive_server_present!20': False, 'prio!29': 0, 'pool_size!21': 0, 'errno!52': 99, 'passive_port!31': 6, 'passive_server_done!44': True, 'logged_done!38': True, 'passive_server_done!21': True, 'logged_done!15': True, 'pool_cnt!27': 'Store(Store(K(Int, 4), 5, 26284), 6, 10449)', 'pool_rest!21': 'K(Int, 0)', 'pool_cnt!21': 'K(Int, 0)', 'pool_cnt!22': 'K(Int, 1)'}
SOLVER_NOTE = ''

print("obligation", OBLIGATION, "failed; no concrete failing input could be constructed automatically")
print("counter-model (may be spurious where string builtins are uninterpreted):")
for k, v in sorted(MODEL.items()):
    print("   ", k, "=", repr(v))
print("NOT-REPRODUCED no-failing-input-found")
