#!/venv/bin/python
# replay for obligation aioftp.server:Server.pasv#SEQ::Server.pasv/exit:ends-the-session-only-after-221-or-421
# path: data-ports-configured=0.conn.logged-present=T.wait_for-outcome=0.conn.passive_server-present=T.if@12=F.conn.passive_server-done=T.listener-families=1
# run: AIOFTP_REPO=/repo /venv/bin/python /verif/replays/C05_aioftp.server_Server.pasv_SEQ_Server.pasv_exit_ends-the-session-only-after-221-or-421.py
import os, sys
sys.path.insert(0, os.path.join(os.environ.get("AIOFTP_REPO", "/repo"), "src"))
OBLIGATION = 'aioftp.server:Server.pasv#SEQ::Server.pasv/exit:ends-the-session-only-after-221-or-421'
MODEL = {'restart_offset!11': 0, 'pool_size!101': 0, 'pool_size!1': 0, 'cwd!98': 'Unit("!1!")', 'u_cur_home!97': 'Unit("!0!")', 'pool_size!100': 0, 'pool_cnt0': 'K(Int, 1323)', 'block_size!0': 1, 'user_done!13': True, 'passive_server_present!20': True, 'pool_rest!100': 'K(Int, 0)', 'passive_port!8': 0, 'pool_cnt!100': 'Store(K(Int, 0), 0, -1)', 'current_directory_done!17': True, 'user_present!12': True, 'auth_ok!28': True, 'pool_rest!101': 'K(Int, 0)', 'pool_cnt!101': 'Store(K(Int, 0), 0, -1)', 'passive_server_done!21': True, 'current_directory_present!16': True, 'logged_done!15': True, 'logged_present!14': True}
SOLVER_NOTE = ''

print("obligation", OBLIGATION, "failed; no concrete failing input could be constructed automatically")
print("counter-model (may be spurious where string builtins are uninterpreted):")
for k, v in sorted(MODEL.items()):
    print("   ", k, "=", repr(v))
print("NOT-REPRODUCED no-failing-input-found")
