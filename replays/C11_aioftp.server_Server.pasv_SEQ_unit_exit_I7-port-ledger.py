#!/venv/bin/python
# replay for obligation aioftp.server:Server.pasv#SEQ::<unit>/exit:I7-port-ledger
# path: data-ports-configured=0.conn.logged-present=T.wait_for-outcome=0.conn.passive_server-present=T.if@12=F.conn.passive_server-done=T.listener-families=1
# run: AIOFTP_REPO=/repo /venv/bin/python /verif/replays/C11_aioftp.server_Server.pasv_SEQ_unit_exit_I7-port-ledger.py
import os, sys
sys.path.insert(0, os.path.join(os.environ.get("AIOFTP_REPO", "/repo"), "src"))
OBLIGATION = 'aioftp.server:Server.pasv#SEQ::<unit>/exit:I7-port-ledger'
MODEL = {'pool_size!1': 0, 'block_size!0': 1, 'pool_size!100': 0, 'restart_offset!11': 0, 'pool_rest!101': 'Store(K(Int, 3), 4, 28100)', 'pool_size!101': 0, 'u_cur_home!97': 'Unit("!0!")', 'passive_port!8': 4, 'cwd!98': 'Unit("!1!")', 'pool_cnt0': 'Store(K(Int, 3), 4, 28099)', 'user_done!13': True, 'passive_server_present!20': True, 'pool_rest!100': 'K(Int, 0)', 'pool_cnt!100': 'Store(K(Int, 0), 4, -1)', 'current_directory_done!17': True, 'user_present!12': True, 'auth_ok!28': True, 'passive_server_done!21': True, 'logged_done!15': True, 'current_directory_present!16': True, 'pool_cnt!101': 'Store(K(Int, 3), 4, 28099)', 'logged_present!14': True}
SOLVER_NOTE = ''

print("obligation", OBLIGATION, "failed; no concrete failing input could be constructed automatically")
print("counter-model (may be spurious where string builtins are uninterpreted):")
for k, v in sorted(MODEL.items()):
    print("   ", k, "=", repr(v))
print("NOT-REPRODUCED no-failing-input-found")
