#!/venv/bin/python
# replay for obligation aioftp.server:Server.pasv#SEQ::<unit>/exit:I7-port-ledger
# path: data-ports-configured=0.conn.logged-present=T.wait_for-outcome=0.conn.passive_server-present=T.if@12=F.conn.passive_server-done=T.listener-families=1
# run: AIOFTP_REPO=/repo /venv/bin/python /verif/replays/C11_aioftp.server_Server.pasv_SEQ_unit_exit_I7-port-ledger.py
import os, sys
sys.path.insert(0, os.path.join(os.environ.get("AIOFTP_REPO", "/repo"), "src"))
OBLIGATION = 'aioftp.server:Server.pasv#SEQ::<unit>/exit:I7-port-ledger'
MODEL = {'block_size!0': 1, 'pool_size!189': 0, 'restart_offset!11': 0, 'cwd!186': 'Unit("!1!")', 'u_cur_home!185': 'Unit("!0!")', 'pool_size!188': 0, 'pool_size!1': 0, 'passive_port!8': 4, 'pool_cnt0': 'Store(K(Int, 3), 4, 28100)', 'pool_rest!189': 'Store(K(Int, 3), 4, 28100)', 'user_done!13': True, 'passive_server_present!20': True, 'pool_cnt!189': 'Store(K(Int, 3), 4, 28099)', 'current_directory_done!17': True, 'user_present!12': True, 'auth_ok!28': True, 'passive_server_done!21': True, 'pool_rest!188': 'K(Int, 0)', 'pool_cnt!188': 'Store(K(Int, 0), 4, -1)', 'current_directory_present!16': True, 'logged_done!15': True, 'logged_present!14': True}
SOLVER_NOTE = ''

print("obligation", OBLIGATION, "failed; no concrete failing input could be constructed automatically")
print("counter-model (may be spurious where string builtins are uninterpreted):")
for k, v in sorted(MODEL.items()):
    print("   ", k, "=", repr(v))
print("NOT-REPRODUCED no-failing-input-found")
