#!/venv/bin/python
# replay for obligation aioftp:server.py:Server.list.<locals>.list_worker_loc::log-sink-is-audited
# path: 
# run: AIOFTP_REPO=/repo /venv/bin/python /verif/replays/C20_aioftp_server.py_Server.list._locals_.list_worker_loc_log-sink-is-audited.py
import os, sys
sys.path.insert(0, os.path.join(os.environ.get("AIOFTP_REPO", "/repo"), "src"))
OBLIGATION = 'aioftp:server.py:Server.list.<locals>.list_worker_loc::log-sink-is-audited'
MODEL = {'file': 'server.py', 'function': 'Server.list.<locals>.list_worker_loc', 'lines': [1024]}
SOLVER_NOTE = 'a logging call in a function that is not under the C20 audit'

print("obligation", OBLIGATION, "failed; no concrete failing input could be constructed automatically")
print("counter-model (may be spurious where string builtins are uninterpreted):")
for k, v in sorted(MODEL.items()):
    print("   ", k, "=", repr(v))
print("NOT-REPRODUCED no-failing-input-found")
