#!/venv/bin/python
# replay for obligation rt:c07/list/modify-to-the-day
# path: 
# run: AIOFTP_REPO=/repo /venv/bin/python /verif/replays/C07_rt_c07_list_modify-to-the-day.py
import os, sys
sys.path.insert(0, os.path.join(os.environ.get("AIOFTP_REPO", "/repo"), "src"))
OBLIGATION = 'rt:c07/list/modify-to-the-day'
MODEL = {'mode': 16804, 'size': 1, 'mtime': 1855720143, 'name': 'b c', 'kind': 'list'}
SOLVER_NOTE = 'found by the bounded run-time contract checker on the real code'

import json, subprocess
inp = {'mode': 16804, 'size': 1, 'mtime': 1855720143, 'name': 'b c', 'kind': 'list'}
p = subprocess.run(["/venv/bin/python", '/verif/rt/c07_rt.py', "replay", json.dumps(inp)], capture_output=True, text=True, env=dict(os.environ))
print(p.stdout.strip() or p.stderr.strip())
