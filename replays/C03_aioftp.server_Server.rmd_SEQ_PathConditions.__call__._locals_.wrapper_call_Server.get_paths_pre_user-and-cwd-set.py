#!/venv/bin/python
# replay for obligation aioftp.server:Server.rmd#SEQ::PathConditions.__call__.<locals>.wrapper/call:Server.get_paths/pre:user-and-cwd-set
# path: if@5=F
# run: AIOFTP_REPO=/repo /venv/bin/python /verif/replays/C03_aioftp.server_Server.rmd_SEQ_PathConditions.__call__._locals_.wrapper_call_Server.get_paths_pre_user-and-cwd-set.py
import os, sys
sys.path.insert(0, os.path.join(os.environ.get("AIOFTP_REPO", "/repo"), "src"))
OBLIGATION = 'aioftp.server:Server.rmd#SEQ::PathConditions.__call__.<locals>.wrapper/call:Server.get_paths/pre:user-and-cwd-set'
MODEL = {'restart_offset!10': 0, 'logged_done!14': False, 'block_size!0': 1, 'current_directory_done!16': True, 'cwd!115': 'Empty(Seq(String))', 'current_directory_present!15': True, 'user_done!12': False, 'u_cur_home!114': 'Empty(Seq(String))', 'logged_present!13': True}
SOLVER_NOTE = ''

print("obligation", OBLIGATION, "failed; no concrete failing input could be constructed automatically")
print("counter-model (may be spurious where string builtins are uninterpreted):")
for k, v in sorted(MODEL.items()):
    print("   ", k, "=", repr(v))
print("NOT-REPRODUCED no-failing-input-found")
