#!/venv/bin/python
# replay for obligation aioftp.server:Server._start_passive_server::Server._start_passive_server/raises:OSError:bind-error-leaves-nothing-in-flight
# path: data-ports-configured=0.pool-nonempty=T.if@6=F.cancel@start_server=0.start_server-outcome=1.if@23=T
# run: AIOFTP_REPO=/repo /venv/bin/python /verif/replays/C11_aioftp.server_Server._start_passive_server_Server._start_passive_server_raises_OSError_bind-error-leaves-nothing-in-flight.py
import os, sys
sys.path.insert(0, os.path.join(os.environ.get("AIOFTP_REPO", "/repo"), "src"))
OBLIGATION = 'aioftp.server:Server._start_passive_server::Server._start_passive_server/raises:OSError:bind-error-leaves-nothing-in-flight'
MODEL = {'viewed!2': 'K(Int, False)', 'prio!29': 0, 'pool_size!17': 0, 'passive_server_present!20': False, 'user_present!12': False, 'u_cur_home!14': 'Unit("!0!")', 'pool_rest!18': 'K(Int, 1)', 'pool_cnt0': 'K(Int, 28881)', 'block_size!0': 1, 'cwd!15': 'Empty(Seq(String))', 'logged_present!14': False, 'pool_size!19': 0, 'pool_size!1': 0, 'restart_offset!11': 0, 'errno!34': 99, 'pool_size!18': 1, 'passive_server_done!21': True, 'logged_done!15': True, 'pool_cnt!18': 'K(Int, 1)', 'pool_rest!17': 'K(Int, 0)', 'pool_cnt!17': 'K(Int, 0)', 'pool_rest!19': 'K(Int, 0)', 'port!30': 0, 'pool_cnt!19': 'Store(K(Int, 0), 0, -1)'}
SOLVER_NOTE = ''

print("obligation", OBLIGATION, "failed; no concrete failing input could be constructed automatically")
print("counter-model (may be spurious where string builtins are uninterpreted):")
for k, v in sorted(MODEL.items()):
    print("   ", k, "=", repr(v))
print("NOT-REPRODUCED no-failing-input-found")
