#!/venv/bin/python
# replay for obligation aioftp.server:Server.user#SEQ::<unit>/exit:I1-logged-implies-authorised-user
# path: srv_value-is-None=0.conn.user-present=T.if@1=T.conn.user-done=T.conn.logged-present=T.conn.rename_from-present=T.get_user-state=1.conn.current_directory-present=T.conn.current_directory-done=T.if@22=T
# run: AIOFTP_REPO=/repo /venv/bin/python /verif/replays/C03_aioftp.server_Server.user_SEQ_unit_exit_I1-logged-implies-authorised-user.py
import os, sys
sys.path.insert(0, os.path.join(os.environ.get("AIOFTP_REPO", "/repo"), "src"))
OBLIGATION = 'aioftp.server:Server.user#SEQ::<unit>/exit:I1-logged-implies-authorised-user'
MODEL = {'cwd!678': 'Empty(Seq(String))', 'restart_offset!11': 0, 'block_size!0': 1, 'acquired!10': True, 'srv_rest!680': 1, 'u_new_home!682': 'Empty(Seq(String))', 'srv_max!1': 1, 'srv_value!28': 0, 'u_cur_home!677': 'Empty(Seq(String))', 'auth_ok!30': True, 'logged_done!15': True, 'user_done!13': True, 'user_present!12': True, 'throttle_per_user_has!33': False, 'current_directory_done!17': True, 'current_directory_present!16': True, 'rename_from_present!18': True, 'logged_present!14': True, 'srv_value!29': 0}
SOLVER_NOTE = ''

print("obligation", OBLIGATION, "failed; no concrete failing input could be constructed automatically")
print("counter-model (may be spurious where string builtins are uninterpreted):")
for k, v in sorted(MODEL.items()):
    print("   ", k, "=", repr(v))
print("NOT-REPRODUCED no-failing-input-found")
