#!/venv/bin/python
# replay for obligation aioftp.server:Server.rnfr#SEQ::PathConditions.__call__.<locals>.wrapper/backend:exists:authorised
# path: if@5=F
# run: AIOFTP_REPO=/repo /venv/bin/python /verif/replays/C03_aioftp.server_Server.rnfr_SEQ_PathConditions.__call__._locals_.wrapper_backend_exists_authorised.py
import os, sys
sys.path.insert(0, os.path.join(os.environ.get("AIOFTP_REPO", "/repo"), "src"))
OBLIGATION = 'aioftp.server:Server.rnfr#SEQ::PathConditions.__call__.<locals>.wrapper/backend:exists:authorised'
MODEL = {}
SOLVER_NOTE = 'cvc5=unknown z3=sat'

print("obligation", OBLIGATION, "failed; no concrete failing input could be constructed automatically")
print("counter-model (may be spurious where string builtins are uninterpreted):")
for k, v in sorted(MODEL.items()):
    print("   ", k, "=", repr(v))
print("NOT-REPRODUCED no-failing-input-found")
