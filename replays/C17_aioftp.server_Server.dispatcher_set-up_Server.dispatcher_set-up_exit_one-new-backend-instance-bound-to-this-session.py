#!/venv/bin/python
# replay for obligation aioftp.server:Server.dispatcher/set-up::Server.dispatcher/set-up/exit:one-new-backend-instance-bound-to-this-session
# path: path_timeout-is-None=0.idle_timeout-is-None=0.or=T.socket_timeout-is-None=0.or=T.conn_rl-is-None=0.conn_wl-is-None=0
# run: AIOFTP_REPO=/repo /venv/bin/python /verif/replays/C17_aioftp.server_Server.dispatcher_set-up_Server.dispatcher_set-up_exit_one-new-backend-instance-bound-to-this-session.py
import os, sys
sys.path.insert(0, os.path.join(os.environ.get("AIOFTP_REPO", "/repo"), "src"))
OBLIGATION = 'aioftp.server:Server.dispatcher/set-up::Server.dispatcher/set-up/exit:one-new-backend-instance-bound-to-this-session'
MODEL = {'logged_present!13': False, 'path_timeout!28': '0/1', 'socket_timeout!35': '1/2', 'cwd!140': 'Empty(Seq(String))', 'block_size!0': 1, 'u_cur_home!139': 'Empty(Seq(String))', 'idle_timeout!34': '1/2', 'current_directory_done!16': True, 'current_directory_present!15': True, 'restart_offset!10': 0, 'logged_done!14': True}
SOLVER_NOTE = ''

print("obligation", OBLIGATION, "failed; no concrete failing input could be constructed automatically")
print("counter-model (may be spurious where string builtins are uninterpreted):")
for k, v in sorted(MODEL.items()):
    print("   ", k, "=", repr(v))
print("NOT-REPRODUCED no-failing-input-found")
