#!/venv/bin/python
# replay for obligation aioftp.server:Server.parse_command#undecodable-PASS::Server.parse_command/exit:no-log-record-depends-on-undecodable-PASS-bytes
# path: decodable=F.decodable=F
# run: AIOFTP_REPO=/repo /venv/bin/python /verif/replays/C20_aioftp.server_Server.parse_command_undecodable-PASS_Server.parse_command_exit_no-log-record-depends-on-undecodable-PASS-bytes.py
import os, sys
sys.path.insert(0, os.path.join(os.environ.get("AIOFTP_REPO", "/repo"), "src"))
OBLIGATION = 'aioftp.server:Server.parse_command#undecodable-PASS::Server.parse_command/exit:no-log-record-depends-on-undecodable-PASS-bytes'
MODEL = {'verb!0': '', 'secret_bytes!1': ''}
SOLVER_NOTE = ''

print("obligation", OBLIGATION, "failed; no concrete failing input could be constructed automatically")
print("counter-model (may be spurious where string builtins are uninterpreted):")
for k, v in sorted(MODEL.items()):
    print("   ", k, "=", repr(v))
print("NOT-REPRODUCED no-failing-input-found")
