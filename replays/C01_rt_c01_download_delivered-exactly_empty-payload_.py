#!/venv/bin/python
# replay for obligation rt:c01/download/delivered-exactly[empty-payload]
# path: 
# run: AIOFTP_REPO=/repo /venv/bin/python /verif/replays/C01_rt_c01_download_delivered-exactly_empty-payload_.py
import os, sys
sys.path.insert(0, os.path.join(os.environ.get("AIOFTP_REPO", "/repo"), "src"))
OBLIGATION = 'rt:c01/download/delivered-exactly[empty-payload]'
MODEL = {'kind': 'download', 'payload': 'empty', 'existing': False}
SOLVER_NOTE = 'found by the bounded run-time contract checker on the real code'

import json, subprocess
inp = {'kind': 'download', 'payload': 'empty', 'existing': False}
p = subprocess.run(["/venv/bin/python", '/verif/rt/c01_rt.py', "replay", json.dumps(inp)], capture_output=True, text=True, env=dict(os.environ))
print(p.stdout.strip() or p.stderr.strip())
