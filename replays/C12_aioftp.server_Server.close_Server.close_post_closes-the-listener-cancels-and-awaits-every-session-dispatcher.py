#!/venv/bin/python
# replay for obligation aioftp.server:Server.close::Server.close/post:closes-the-listener-cancels-and-awaits-every-session-dispatcher
# path: live-sessions=0
# run: AIOFTP_REPO=/repo /venv/bin/python /verif/replays/C12_aioftp.server_Server.close_Server.close_post_closes-the-listener-cancels-and-awaits-every-session-dispatcher.py
import os, sys
sys.path.insert(0, os.path.join(os.environ.get("AIOFTP_REPO", "/repo"), "src"))
OBLIGATION = 'aioftp.server:Server.close::Server.close/post:closes-the-listener-cancels-and-awaits-every-session-dispatcher'
MODEL = {'block_size!0': 1, 'current_directory_done!16': True, 'restart_offset!10': 0, 'current_directory_present!15': True, 'cwd!2': 'Empty(Seq(String))', 'logged_present!13': False, 'u_cur_home!1': 'Empty(Seq(String))', 'logged_done!14': True}
SOLVER_NOTE = ''

print("obligation", OBLIGATION, "failed; no concrete failing input could be constructed automatically")
print("counter-model (may be spurious where string builtins are uninterpreted):")
for k, v in sorted(MODEL.items()):
    print("   ", k, "=", repr(v))
print("NOT-REPRODUCED no-failing-input-found")
