#!/venv/bin/python
# replay for obligation aioftp.server:Server.mlst#SEQ::PathConditions.__call__.<locals>.wrapper/backend:exists:authorised
# path: if@5=F
# run: AIOFTP_REPO=/repo /venv/bin/python /verif/replays/C03_aioftp.server_Server.mlst_SEQ_PathConditions.__call__._locals_.wrapper_backend_exists_authorised.py
import os, sys
sys.path.insert(0, os.path.join(os.environ.get("AIOFTP_REPO", "/repo"), "src"))
OBLIGATION = 'aioftp.server:Server.mlst#SEQ::PathConditions.__call__.<locals>.wrapper/backend:exists:authorised'
MODEL = {'auth_ok!27': False, 'block_size!0': 1, 'u_cur_home!21': 'Unit("!2!")', 'restart_offset!10': 0, 'rest!28': '.', 'logged_done!14': False, 'virtual!25': 'Unit("!3!")', 'u_cur_base!20': 'OPath!val!1', 'cwd!22': 'Unit("!4!")', 'real!24': 'OPath!val!0', 'logged_present!13': True, 'user_done!12': True, 'current_directory_present!15': True, 'current_directory_done!16': True, 'user_present!11': True}
SOLVER_NOTE = ''

print("obligation", OBLIGATION, "failed; no concrete failing input could be constructed automatically")
print("counter-model (may be spurious where string builtins are uninterpreted):")
for k, v in sorted(MODEL.items()):
    print("   ", k, "=", repr(v))
print("NOT-REPRODUCED no-failing-input-found")
