#!/venv/bin/python
# replay for obligation aioftp.server:Server._start_passive_server#PIPE::Server._start_passive_server/raises:NoAvailablePort:exhaustion-leaves-nothing-in-flight
# path: data-ports-configured=0.pool-nonempty=T.if@6=T
# run: AIOFTP_REPO=/repo /venv/bin/python /verif/replays/C11_aioftp.server_Server._start_passive_server_PIPE_Server._start_passive_server_raises_NoAvailablePort_exhaustion-leaves-nothing-in-flight.py
import os, sys
sys.path.insert(0, os.path.join(os.environ.get("AIOFTP_REPO", "/repo"), "src"))
OBLIGATION = 'aioftp.server:Server._start_passive_server#PIPE::Server._start_passive_server/raises:NoAvailablePort:exhaustion-leaves-nothing-in-flight'
MODEL = {'prio!29': 0, 'cwd!2': 'Empty(Seq(String))', 'pool_size!5': 1, 'passive_server_present!20': False, 'pool_size!1': 0, 'pool_cnt0': 'K(Int, 28881)', 'block_size!0': 1, 'user_done!13': False, 'pool_rest!5': 'K(Int, 1)', 'logged_present!14': False, 'pool_size!4': 0, 'viewed!0': 'K(Int, True)', 'restart_offset!11': 0, 'u_cur_home!1': 'Unit("!0!")', 'passive_server_done!21': True, 'logged_done!15': True, 'pool_rest!4': 'K(Int, 0)', 'pool_cnt!4': 'K(Int, 0)', 'pool_cnt!5': 'K(Int, 1)'}
SOLVER_NOTE = ''

print("obligation", OBLIGATION, "failed; no concrete failing input could be constructed automatically")
print("counter-model (may be spurious where string builtins are uninterpreted):")
for k, v in sorted(MODEL.items()):
    print("   ", k, "=", repr(v))
print("NOT-REPRODUCED no-failing-input-found")
