#!/venv/bin/python
# replay for obligation aioftp.server:Server.pasv#SEQ::Server.pasv/listen:open-data-listener:authorised
# path: data-ports-configured=0.if@5=F.conn.passive_server-present=T.if@12=T
# run: AIOFTP_REPO=/repo /venv/bin/python /verif/replays/C03_aioftp.server_Server.pasv_SEQ_Server.pasv_listen_open-data-listener_authorised.py
import os, sys
sys.path.insert(0, os.path.join(os.environ.get("AIOFTP_REPO", "/repo"), "src"))
OBLIGATION = 'aioftp.server:Server.pasv#SEQ::Server.pasv/listen:open-data-listener:authorised'
MODEL = {'logged_done!15': False, 'current_directory_done!17': True, 'pool_size!14': 0, 'block_size!0': 1, 'current_directory_present!16': True, 'user_present!12': False, 'pool_size!1': 0, 'cwd!12': 'Unit("!1!")', 'u_cur_home!11': 'Unit("!0!")', 'pool_cnt0': 'K(Int, 2)', 'restart_offset!11': 0, 'passive_server_done!21': False, 'passive_server_present!20': True, 'logged_present!14': True, 'pool_rest!14': 'K(Int, 0)', 'pool_cnt!14': 'K(Int, 0)'}
SOLVER_NOTE = ''

print("obligation", OBLIGATION, "failed; no concrete failing input could be constructed automatically")
print("counter-model (may be spurious where string builtins are uninterpreted):")
for k, v in sorted(MODEL.items()):
    print("   ", k, "=", repr(v))
print("NOT-REPRODUCED no-failing-input-found")
