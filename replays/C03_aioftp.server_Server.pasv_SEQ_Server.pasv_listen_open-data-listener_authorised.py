#!/venv/bin/python
# replay for obligation aioftp.server:Server.pasv#SEQ::Server.pasv/listen:open-data-listener:authorised
# path: data-ports-configured=0.if@5=F.conn.passive_server-present=T.if@12=T
# run: AIOFTP_REPO=/repo /venv/bin/python /verif/replays/C03_aioftp.server_Server.pasv_SEQ_Server.pasv_listen_open-data-listener_authorised.py
import os, sys
sys.path.insert(0, os.path.join(os.environ.get("AIOFTP_REPO", "/repo"), "src"))
OBLIGATION = 'aioftp.server:Server.pasv#SEQ::Server.pasv/listen:open-data-listener:authorised'
MODEL = {'block_size!0': 1, 'logged_done!15': False, 'current_directory_done!17': True, 'current_directory_present!16': True, 'restart_offset!11': 0, 'cwd!192': 'Unit("!0!")', 'pool_size!194': 0, 'pool_size!1': 0, 'pool_cnt0': 'K(Int, 2)', 'u_cur_home!191': 'Unit("!1!")', 'passive_server_done!21': False, 'passive_server_present!20': True, 'pool_rest!194': 'K(Int, 0)', 'pool_cnt!194': 'K(Int, 0)', 'logged_present!14': True}
SOLVER_NOTE = ''

print("obligation", OBLIGATION, "failed; no concrete failing input could be constructed automatically")
print("counter-model (may be spurious where string builtins are uninterpreted):")
for k, v in sorted(MODEL.items()):
    print("   ", k, "=", repr(v))
print("NOT-REPRODUCED no-failing-input-found")
