#!/venv/bin/python
# replay for obligation aioftp.server:Server.epsv#SEQ::Server.epsv/raises:unexpected-OSError
# path: data-ports-configured=0.conn.logged-present=T.wait_for-outcome=0.if@12=F.conn.passive_server-present=T.if@16=T.Server._start_passive_server-outcome=2
# run: AIOFTP_REPO=/repo /venv/bin/python /verif/replays/C05_aioftp.server_Server.epsv_SEQ_Server.epsv_raises_unexpected-OSError.py
import os, sys
sys.path.insert(0, os.path.join(os.environ.get("AIOFTP_REPO", "/repo"), "src"))
OBLIGATION = 'aioftp.server:Server.epsv#SEQ::Server.epsv/raises:unexpected-OSError'
MODEL = {'u_cur_home!15': 'Unit("!0!")', 'block_size!0': 1, 'restart_offset!11': 0, 'pool_size!19': 0, 'pool_size!21': 0, 'pool_size!20': 0, 'pool_size!18': 0, 'rest!29': '', 'pool_size!1': 0, 'cwd!16': 'Unit("!1!")', 'pool_cnt0': 'K(Int, 1323)', 'current_directory_done!17': True, 'user_done!13': True, 'pool_rest!21': 'K(Int, 0)', 'pool_cnt!21': 'K(Int, 0)', 'passive_server_present!20': True, 'pool_rest!20': 'K(Int, 0)', 'pool_cnt!20': 'K(Int, 0)', 'pool_rest!19': 'K(Int, 0)', 'pool_cnt!19': 'K(Int, 0)', 'user_present!12': True, 'pool_rest!18': 'K(Int, 0)', 'pool_cnt!18': 'K(Int, 0)', 'auth_ok!28': True, 'passive_server_done!21': False, 'current_directory_present!16': True, 'logged_done!15': True, 'logged_present!14': True}
SOLVER_NOTE = ''

print("obligation", OBLIGATION, "failed; no concrete failing input could be constructed automatically")
print("counter-model (may be spurious where string builtins are uninterpreted):")
for k, v in sorted(MODEL.items()):
    print("   ", k, "=", repr(v))
print("NOT-REPRODUCED no-failing-input-found")
