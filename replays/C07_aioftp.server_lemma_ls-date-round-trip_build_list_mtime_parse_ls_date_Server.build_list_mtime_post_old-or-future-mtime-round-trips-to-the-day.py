#!/venv/bin/python
# replay for obligation aioftp.server:lemma:ls-date-round-trip(build_list_mtime;parse_ls_date)::Server.build_list_mtime/post:old-or-future-mtime-round-trips-to-the-day
# path: if@8=T.if@14=T.while@BaseClient.parse_ls_date/loop0=T.while@BaseClient.parse_ls_date/loop0=T.while@BaseClient.parse_ls_date/loop0=T.while@BaseClient.parse_ls_date/loop0=F.strptime-valid=T.if@25=T.replace-year-valid=T
# run: AIOFTP_REPO=/repo /venv/bin/python /verif/replays/C07_aioftp.server_lemma_ls-date-round-trip_build_list_mtime_parse_ls_date_Server.build_list_mtime_post_old-or-future-mtime-round-trips-to-the-day.py
import os, sys
sys.path.insert(0, os.path.join(os.environ.get("AIOFTP_REPO", "/repo"), "src"))
OBLIGATION = 'aioftp.server:lemma:ls-date-round-trip(build_list_mtime;parse_ls_date)::Server.build_list_mtime/post:old-or-future-mtime-round-trips-to-the-day'
MODEL = {'s_mi!10': 59, 's_Y!6': 2003, 'c_mi!16': 58, 's_h!9': 23, 'm_M!1': 2, 'c_D!14': 1, 'frac_m!19': '1/2', 's_D!8': 30, 'm_mi!4': 59, 'frac_s!20': '1/2', 'm_s!5': 59, 'c_M!13': 5, 's_s!11': 59, 's_M!7': 4, 'c_s!17': 59, 'm_Y!0': 2008, 'c_h!15': 0, 'frac_c!21': '1/2', 'm_h!3': 23, 'm_D!2': 29, 'int2str!22': '2000', 'c_Y!12': 2003}
SOLVER_NOTE = ''

print("obligation", OBLIGATION, "failed; no concrete failing input could be constructed automatically")
print("counter-model (may be spurious where string builtins are uninterpreted):")
for k, v in sorted(MODEL.items()):
    print("   ", k, "=", repr(v))
print("NOT-REPRODUCED no-failing-input-found")
