#!/venv/bin/python
# replay for obligation aioftp.server:Server.get_paths::Server.get_paths/post:real-confined-any-flavour
# path: 
# run: AIOFTP_REPO=/repo /venv/bin/python /verif/replays/C02_aioftp.server_Server.get_paths_Server.get_paths_post_real-confined-any-flavour.py
import os, sys
sys.path.insert(0, os.path.join(os.environ.get("AIOFTP_REPO", "/repo"), "src"))
OBLIGATION = 'aioftp.server:Server.get_paths::Server.get_paths/post:real-confined-any-flavour'
MODEL = {'cwd': ['b', 'b'], 'path': '///C:/.hidden/..a/C://', 'base': 'ftp', 'flavour': 'windows'}
SOLVER_NOTE = 'found by the bounded run-time contract checker on the real code'

import json, subprocess
inp = {'cwd': ['b', 'b'], 'path': '///C:/.hidden/..a/C://', 'base': 'ftp', 'flavour': 'windows'}
p = subprocess.run(["/venv/bin/python", '/verif/rt/c02_rt.py', "replay", json.dumps(inp)], capture_output=True, text=True, env=dict(os.environ))
print(p.stdout.strip() or p.stderr.strip())
