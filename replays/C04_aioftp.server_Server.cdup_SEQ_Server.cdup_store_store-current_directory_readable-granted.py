#!/venv/bin/python
# replay for obligation aioftp.server:Server.cdup#SEQ::Server.cdup/store:store-current_directory:readable-granted
# path: conn.logged-present=T.wait_for-outcome=0.conn.current_directory-present=T.conn.current_directory-done=T.parent-nonroot=T
# run: AIOFTP_REPO=/repo /venv/bin/python /verif/replays/C04_aioftp.server_Server.cdup_SEQ_Server.cdup_store_store-current_directory_readable-granted.py
import os, sys
sys.path.insert(0, os.path.join(os.environ.get("AIOFTP_REPO", "/repo"), "src"))
OBLIGATION = 'aioftp.server:Server.cdup#SEQ::Server.cdup/store:store-current_directory:readable-granted'
MODEL = {'block_size!0': 1, 'cwd!2': 'Unit("!0!")', 'restart_offset!10': 0, 'u_cur_home!1': 'Empty(Seq(String))', 'logged_present!13': True, 'logged_done!14': True, 'user_done!12': True, 'current_directory_present!15': True, 'auth_ok!27': True, 'current_directory_done!16': True, 'user_present!11': True}
SOLVER_NOTE = ''

print("obligation", OBLIGATION, "failed; no concrete failing input could be constructed automatically")
print("counter-model (may be spurious where string builtins are uninterpreted):")
for k, v in sorted(MODEL.items()):
    print("   ", k, "=", repr(v))
print("NOT-REPRODUCED no-failing-input-found")
