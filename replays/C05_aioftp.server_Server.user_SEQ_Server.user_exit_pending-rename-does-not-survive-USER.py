#!/venv/bin/python
# replay for obligation aioftp.server:Server.user#SEQ::Server.user/exit:pending-rename-does-not-survive-USER
# path: srv_value-is-None=0.conn.user-present=T.if@1=T.conn.user-done=T.conn.logged-present=T.get_user-state=0.conn.current_directory-present=T.conn.current_directory-done=T.if@21=T
# run: AIOFTP_REPO=/repo /venv/bin/python /verif/replays/C05_aioftp.server_Server.user_SEQ_Server.user_exit_pending-rename-does-not-survive-USER.py
import os, sys
sys.path.insert(0, os.path.join(os.environ.get("AIOFTP_REPO", "/repo"), "src"))
OBLIGATION = 'aioftp.server:Server.user#SEQ::Server.user/exit:pending-rename-does-not-survive-USER'
MODEL = {'restart_offset!11': 0, 'cwd!102': 'Empty(Seq(String))', 'logged_done!15': False, 'srv_rest!104': 1, 'srv_max!1': 1, 'acquired!10': True, 'u_cur_home!101': 'Empty(Seq(String))', 'u_new_home!106': 'Empty(Seq(String))', 'block_size!0': 1, 'srv_value!28': 0, 'auth_ok!30': False, 'user_done!13': True, 'user_present!12': True, 'rename_from_present!18': True, 'throttle_per_user_has!33': False, 'current_directory_present!16': True, 'current_directory_done!17': True, 'logged_present!14': True, 'srv_value!29': 0, 'rename_from_done!19': True}
SOLVER_NOTE = ''

print("obligation", OBLIGATION, "failed; no concrete failing input could be constructed automatically")
print("counter-model (may be spurious where string builtins are uninterpreted):")
for k, v in sorted(MODEL.items()):
    print("   ", k, "=", repr(v))
print("NOT-REPRODUCED no-failing-input-found")
