#!/venv/bin/python
# replay for obligation aioftp.server:Server.parse_command::Server.parse_command/post:splits-at-the-first-space-and-lowercases-only-the-verb
# path: has-argument=0.if@16=F.decodable=T.partition-found=T.if@23=T
# run: AIOFTP_REPO=/repo /venv/bin/python /verif/replays/C08_aioftp.server_Server.parse_command_Server.parse_command_post_splits-at-the-first-space-and-lowercases-only-the-verb.py
import os, sys
sys.path.insert(0, os.path.join(os.environ.get("AIOFTP_REPO", "/repo"), "src"))
OBLIGATION = 'aioftp.server:Server.parse_command::Server.parse_command/post:splits-at-the-first-space-and-lowercases-only-the-verb'
MODEL = {}
SOLVER_NOTE = 'cvc5=sat'

print("obligation", OBLIGATION, "failed; no concrete failing input could be constructed automatically")
print("counter-model (may be spurious where string builtins are uninterpreted):")
for k, v in sorted(MODEL.items()):
    print("   ", k, "=", repr(v))
print("NOT-REPRODUCED no-failing-input-found")
