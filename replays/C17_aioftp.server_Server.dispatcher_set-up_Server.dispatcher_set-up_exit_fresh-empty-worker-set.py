#!/venv/bin/python
# replay for obligation aioftp.server:Server.dispatcher/set-up::Server.dispatcher/set-up/exit:fresh-empty-worker-set
# path: idle_timeout-is-None=0.or=T.socket_timeout-is-None=0.or=T.conn_rl-is-None=0.conn_wl-is-None=0
# run: AIOFTP_REPO=/repo /venv/bin/python /verif/replays/C17_aioftp.server_Server.dispatcher_set-up_Server.dispatcher_set-up_exit_fresh-empty-worker-set.py
import os, sys
sys.path.insert(0, os.path.join(os.environ.get("AIOFTP_REPO", "/repo"), "src"))
OBLIGATION = 'aioftp.server:Server.dispatcher/set-up::Server.dispatcher/set-up/exit:fresh-empty-worker-set'
MODEL = {'restart_offset!10': 0, 'block_size!0': 1, 'socket_timeout!34': '1/2', 'idle_timeout!33': '1/2', 'u_cur_home!115': 'Empty(Seq(String))', 'user_done!12': False, 'cwd!116': 'Empty(Seq(String))', 'logged_present!13': False, 'logged_done!14': True}
SOLVER_NOTE = ''

print("obligation", OBLIGATION, "failed; no concrete failing input could be constructed automatically")
print("counter-model (may be spurious where string builtins are uninterpreted):")
for k, v in sorted(MODEL.items()):
    print("   ", k, "=", repr(v))
print("NOT-REPRODUCED no-failing-input-found")
