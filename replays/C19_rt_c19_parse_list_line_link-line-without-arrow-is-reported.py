#!/venv/bin/python
# replay for obligation rt:c19/parse_list_line/link-line-without-arrow-is-reported
# path: 
# run: AIOFTP_REPO=/repo /venv/bin/python /verif/replays/C19_rt_c19_parse_list_line_link-line-without-arrow-is-reported.py
import os, sys
sys.path.insert(0, os.path.join(os.environ.get("AIOFTP_REPO", "/repo"), "src"))
OBLIGATION = 'rt:c19/parse_list_line/link-line-without-arrow-is-reported'
MODEL = {'line': 'lrwxrwxrwx 1 none none 3 Mar 03 03:03 link'}
SOLVER_NOTE = 'found by the bounded run-time contract checker on the real code'

import json, subprocess
inp = {'line': 'lrwxrwxrwx 1 none none 3 Mar 03 03:03 link'}
p = subprocess.run(["/venv/bin/python", '/verif/rt/c19_rt.py', "replay", json.dumps(inp)], capture_output=True, text=True, env=dict(os.environ))
print(p.stdout.strip() or p.stderr.strip())
