#!/venv/bin/python
# replay for obligation aioftp.common:ThrottleStreamIO.readline::ThrottleStreamIO.readline/post:throttle-sleep-is-outside-the-io-timeout
# path: r0_limit-is-None=0.r0_start-is-None=0.read_timeout-is-None=0.if@12=T.timeout@asyncio.wait=0.and=T.div0=T.minmax=T.timeout@sleep=0.timeout@reader.readline=0.readline-outcome=0
# run: AIOFTP_REPO=/repo /venv/bin/python /verif/replays/C16_aioftp.common_ThrottleStreamIO.readline_ThrottleStreamIO.readline_post_throttle-sleep-is-outside-the-io-timeout.py
import os, sys
sys.path.insert(0, os.path.join(os.environ.get("AIOFTP_REPO", "/repo"), "src"))
OBLIGATION = 'aioftp.common:ThrottleStreamIO.readline::ThrottleStreamIO.readline/post:throttle-sleep-is-outside-the-io-timeout'
MODEL = {'r0_sum!1': 0, 'r0_B!3': 0, 'w0_reset_rate!5': '1/1', 'read_timeout!13': '1/1', 'r0_reset_rate!0': '1/1', 'r0_start!11': '0/1', 'clock!15': '0/1', 'r0_limit!10': '1/1', 'line!16': 'A', 'r0_rho!4': '0/1', 'r0_t0!2': '0/1', 'clock!14': '-1/1', 'rest!17': '', 'incoming!12': 'A'}
SOLVER_NOTE = ''

print("obligation", OBLIGATION, "failed; no concrete failing input could be constructed automatically")
print("counter-model (may be spurious where string builtins are uninterpreted):")
for k, v in sorted(MODEL.items()):
    print("   ", k, "=", repr(v))
print("NOT-REPRODUCED no-failing-input-found")
