#!/venv/bin/python
# replay for obligation aioftp.pathio:universal_exception.<locals>.wrapper::universal_exception/raises:only-PathIOError-or-documented-pass-through
# path: inner-outcome=65
# run: AIOFTP_REPO=/repo /venv/bin/python /verif/replays/C13_aioftp.pathio_universal_exception._locals_.wrapper_universal_exception_raises_only-PathIOError-or-documented-pass-through.py
import os, sys
sys.path.insert(0, os.path.join(os.environ.get("AIOFTP_REPO", "/repo"), "src"))
OBLIGATION = 'aioftp.pathio:universal_exception.<locals>.wrapper::universal_exception/raises:only-PathIOError-or-documented-pass-through'
MODEL = {}
SOLVER_NOTE = ''

print("obligation", OBLIGATION, "failed; no concrete failing input could be constructed automatically")
print("counter-model (may be spurious where string builtins are uninterpreted):")
for k, v in sorted(MODEL.items()):
    print("   ", k, "=", repr(v))
print("NOT-REPRODUCED no-failing-input-found")
