#!/venv/bin/python
# replay for obligation aioftp.server:Server.user#SEQ::<unit>/exit:I6-holds-a-slot-of-its-user-iff-attached
# path: srv_value-is-None=0.conn.user-present=T.if@1=T.conn.user-done=T.conn.logged-present=T.get_user-state=2.get_user-error-user=1.conn.current_directory-present=T.conn.current_directory-done=T.if@20=T
# run: AIOFTP_REPO=/repo /venv/bin/python /verif/replays/C10_aioftp.server_Server.user_SEQ_unit_exit_I6-holds-a-slot-of-its-user-iff-attached.py
import os, sys
sys.path.insert(0, os.path.join(os.environ.get("AIOFTP_REPO", "/repo"), "src"))
OBLIGATION = 'aioftp.server:Server.user#SEQ::<unit>/exit:I6-holds-a-slot-of-its-user-iff-attached'
MODEL = {'u_cur_home!20': 'Empty(Seq(String))', 'auth_ok!30': True, 'srv_max!1': 0, 'block_size!0': 1, 'cwd!21': 'Empty(Seq(String))', 'u_err_home!25': 'Empty(Seq(String))', 'srv_value!28': 0, 'srv_rest!23': 0, 'restart_offset!11': 0, 'logged_done!15': True, 'acquired!10': False, 'throttle_per_user_has!33': False, 'user_done!13': True, 'current_directory_present!16': True, 'current_directory_done!17': True, 'logged_present!14': True, 'srv_value!29': 0, 'user_present!12': True}
SOLVER_NOTE = ''

print("obligation", OBLIGATION, "failed; no concrete failing input could be constructed automatically")
print("counter-model (may be spurious where string builtins are uninterpreted):")
for k, v in sorted(MODEL.items()):
    print("   ", k, "=", repr(v))
print("NOT-REPRODUCED no-failing-input-found")
