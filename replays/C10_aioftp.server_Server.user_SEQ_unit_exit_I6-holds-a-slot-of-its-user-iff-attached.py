#!/venv/bin/python
# replay for obligation aioftp.server:Server.user#SEQ::<unit>/exit:I6-holds-a-slot-of-its-user-iff-attached
# path: srv_value-is-None=0.conn.user-present=T.if@1=T.conn.user-done=T.conn.logged-present=T.conn.rename_from-present=T.get_user-state=2.get_user-error-user=1.conn.current_directory-present=T.conn.current_directory-done=T.if@21=T
# run: AIOFTP_REPO=/repo /venv/bin/python /verif/replays/C10_aioftp.server_Server.user_SEQ_unit_exit_I6-holds-a-slot-of-its-user-iff-attached.py
import os, sys
sys.path.insert(0, os.path.join(os.environ.get("AIOFTP_REPO", "/repo"), "src"))
OBLIGATION = 'aioftp.server:Server.user#SEQ::<unit>/exit:I6-holds-a-slot-of-its-user-iff-attached'
MODEL = {'auth_ok!30': True, 'u_err_home!296': 'Empty(Seq(String))', 'cwd!292': 'Empty(Seq(String))', 'srv_max!1': 1, 'block_size!0': 1, 'u_cur_home!291': 'Empty(Seq(String))', 'acquired!10': True, 'srv_value!28': 0, 'srv_rest!294': 1, 'restart_offset!11': 0, 'logged_done!15': True, 'user_done!13': True, 'user_present!12': True, 'throttle_per_user_has!33': False, 'current_directory_done!17': True, 'current_directory_present!16': True, 'rename_from_present!18': True, 'logged_present!14': True, 'srv_value!29': 0}
SOLVER_NOTE = ''

print("obligation", OBLIGATION, "failed; no concrete failing input could be constructed automatically")
print("counter-model (may be spurious where string builtins are uninterpreted):")
for k, v in sorted(MODEL.items()):
    print("   ", k, "=", repr(v))
print("NOT-REPRODUCED no-failing-input-found")
