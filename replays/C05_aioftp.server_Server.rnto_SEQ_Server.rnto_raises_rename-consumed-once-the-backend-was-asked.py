#!/venv/bin/python
# replay for obligation aioftp.server:Server.rnto#SEQ::Server.rnto/raises:rename-consumed-once-the-backend-was-asked
# path: conn.logged-present=T.conn.rename_from-present=T.wait_for-outcome=0.backend.exists-fault=0.if@4=F.conn.user-present=T.conn.user-done=T.if@6=F.conn.rename_from-done=T.backend.rename-fault=1.wait_future_timeout-is-None=0
# run: AIOFTP_REPO=/repo /venv/bin/python /verif/replays/C05_aioftp.server_Server.rnto_SEQ_Server.rnto_raises_rename-consumed-once-the-backend-was-asked.py
import os, sys
sys.path.insert(0, os.path.join(os.environ.get("AIOFTP_REPO", "/repo"), "src"))
OBLIGATION = 'aioftp.server:Server.rnto#SEQ::Server.rnto/raises:rename-consumed-once-the-backend-was-asked'
MODEL = {'rest!28': '/', 'real!127': 'OPath!val!3', 'u_cur_home!117': 'Empty(Seq(String))', 'restart_offset!10': 0, 'virtual!128': 'Empty(Seq(String))', 'block_size!0': 1, 'cwd!118': 'Unit("!2!")', 'wait_future_timeout!41': '0/1', 'virtual!121': 'Empty(Seq(String))', 'real!120': 'OPath!val!0', 'u_cur_base!116': 'OPath!val!1', 'real!123': 'OPath!val!2', 'virtual!124': 'Empty(Seq(String))', 'user_present!11': True, 'fsbool!35': False, 'rename_from_done!18': True, 'user_done!12': True, 'current_directory_present!15': True, 'current_directory_done!16': True, 'logged_present!13': True, 'rename_from_present!17': True, 'logged_done!14': True, 'writable!37': True, 'auth_ok!27': True}
SOLVER_NOTE = 'cvc5=unknown z3=unknown counter-model of the path condition with its bounded-index universals instantiated for lengths <= 2 (implies the original condition)'

print("obligation", OBLIGATION, "failed; no concrete failing input could be constructed automatically")
print("counter-model (may be spurious where string builtins are uninterpreted):")
for k, v in sorted(MODEL.items()):
    print("   ", k, "=", repr(v))
print("NOT-REPRODUCED no-failing-input-found")
