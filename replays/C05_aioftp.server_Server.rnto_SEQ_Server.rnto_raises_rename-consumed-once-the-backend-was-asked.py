#!/venv/bin/python
# replay for obligation aioftp.server:Server.rnto#SEQ::Server.rnto/raises:rename-consumed-once-the-backend-was-asked
# path: conn.logged-present=T.conn.rename_from-present=T.wait_for-outcome=0.backend.exists-fault=0.if@4=F.conn.user-present=T.conn.user-done=T.if@6=F.conn.rename_from-done=T.backend.rename-fault=1.wait_future_timeout-is-None=0
# run: AIOFTP_REPO=/repo /venv/bin/python /verif/replays/C05_aioftp.server_Server.rnto_SEQ_Server.rnto_raises_rename-consumed-once-the-backend-was-asked.py
import os, sys
sys.path.insert(0, os.path.join(os.environ.get("AIOFTP_REPO", "/repo"), "src"))
OBLIGATION = 'aioftp.server:Server.rnto#SEQ::Server.rnto/raises:rename-consumed-once-the-backend-was-asked'
MODEL = {}
SOLVER_NOTE = 'cvc5=unknown z3=unknown counter-model of the cone-of-influence slice (0 of 78 assumptions)'

print("obligation", OBLIGATION, "failed; no concrete failing input could be constructed automatically")
print("counter-model (may be spurious where string builtins are uninterpreted):")
for k, v in sorted(MODEL.items()):
    print("   ", k, "=", repr(v))
print("NOT-REPRODUCED no-failing-input-found")
