#!/venv/bin/python
# replay for obligation aioftp.server:Server.epsv#SEQ::Server.epsv/exit:reply-code-is-one-the-model-allows
# path: data-ports-configured=0.conn.logged-present=T.wait_for-outcome=0.if@12=T
# run: AIOFTP_REPO=/repo /venv/bin/python /verif/replays/C05_aioftp.server_Server.epsv_SEQ_Server.epsv_exit_reply-code-is-one-the-model-allows.py
import os, sys
sys.path.insert(0, os.path.join(os.environ.get("AIOFTP_REPO", "/repo"), "src"))
OBLIGATION = 'aioftp.server:Server.epsv#SEQ::Server.epsv/exit:reply-code-is-one-the-model-allows'
MODEL = {'restart_offset!11': 0, 'u_cur_home!1': 'Unit("!0!")', 'pool_size!4': 0, 'pool_size!1': 0, 'pool_size!5': 0, 'passive_server_present!20': True, 'block_size!0': 1, 'cwd!2': 'Unit("!1!")', 'passive_port!8': 5, 'rest!29': 'A', 'pool_rest!5': 'Store(K(Int, 6), 5, 8855)', 'pool_rest!4': 'Store(K(Int, 4), 5, 28100)', 'pool_cnt0': 'Store(K(Int, 4), 5, 28099)', 'passive_server_done!21': True, 'user_done!13': True, 'pool_cnt!4': 'Store(K(Int, 4), 5, 28099)', 'user_present!12': True, 'current_directory_done!17': True, 'auth_ok!28': True, 'current_directory_present!16': True, 'logged_done!15': True, 'logged_present!14': True, 'pool_cnt!5': 'Store(K(Int, 6), 5, 8854)'}
SOLVER_NOTE = ''

print("obligation", OBLIGATION, "failed; no concrete failing input could be constructed automatically")
print("counter-model (may be spurious where string builtins are uninterpreted):")
for k, v in sorted(MODEL.items()):
    print("   ", k, "=", repr(v))
print("NOT-REPRODUCED no-failing-input-found")
