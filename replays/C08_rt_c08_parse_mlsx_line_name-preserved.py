#!/venv/bin/python
# replay for obligation rt:c08/parse_mlsx_line/name-preserved
# path: 
# run: AIOFTP_REPO=/repo /venv/bin/python /verif/replays/C08_rt_c08_parse_mlsx_line_name-preserved.py
import os, sys
sys.path.insert(0, os.path.join(os.environ.get("AIOFTP_REPO", "/repo"), "src"))
OBLIGATION = 'rt:c08/parse_mlsx_line/name-preserved'
MODEL = {'kind': 'mlsx', 'name': 'rev=2; final'}
SOLVER_NOTE = 'found by the bounded run-time contract checker on the real code'

import json, subprocess
inp = {'kind': 'mlsx', 'name': 'rev=2; final'}
p = subprocess.run(["/venv/bin/python", '/verif/rt/c08_rt.py', "replay", json.dumps(inp)], capture_output=True, text=True, env=dict(os.environ))
print(p.stdout.strip() or p.stderr.strip())
