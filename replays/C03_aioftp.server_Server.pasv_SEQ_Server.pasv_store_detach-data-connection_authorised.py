#!/venv/bin/python
# replay for obligation aioftp.server:Server.pasv#SEQ::Server.pasv/store:detach-data-connection:authorised
# path: data-ports-configured=0.if@5=F.conn.passive_server-present=T.if@12=F.conn.passive_server-done=T.listener-families=0.forced_addr-is-None=0.conn.data_connection-present=T.if@38=T.conn.data_connection-done=T
# run: AIOFTP_REPO=/repo /venv/bin/python /verif/replays/C03_aioftp.server_Server.pasv_SEQ_Server.pasv_store_detach-data-connection_authorised.py
import os, sys
sys.path.insert(0, os.path.join(os.environ.get("AIOFTP_REPO", "/repo"), "src"))
OBLIGATION = 'aioftp.server:Server.pasv#SEQ::Server.pasv/store:detach-data-connection:authorised'
MODEL = {'pool_size!229': 0, 'bound_port!31': 514, 'logged_done!15': False, 'restart_offset!11': 0, 'u_cur_home!226': 'Unit("!1!")', 'pool_size!1': 0, 'cwd!227': 'Empty(Seq(String))', 'block_size!0': 1, 'user_done!13': False, 'pool_cnt0': 'K(Int, 43)', 'int2str!32': '2', 'passive_server_present!20': True, 'int2str!33': '2', 'data_connection_done!23': True, 'data_connection_present!22': True, 'passive_server_done!21': True, 'logged_present!14': True, 'pool_rest!229': 'K(Int, 0)', 'passive_port!8': 0, 'pool_cnt!229': 'Store(K(Int, 0), 0, -1)'}
SOLVER_NOTE = ''

print("obligation", OBLIGATION, "failed; no concrete failing input could be constructed automatically")
print("counter-model (may be spurious where string builtins are uninterpreted):")
for k, v in sorted(MODEL.items()):
    print("   ", k, "=", repr(v))
print("NOT-REPRODUCED no-failing-input-found")
