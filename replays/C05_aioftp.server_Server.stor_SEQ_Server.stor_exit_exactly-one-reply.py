#!/venv/bin/python
# replay for obligation aioftp.server:Server.stor#SEQ::Server.stor/exit:exactly-one-reply
# path: conn.logged-present=T.conn.passive_server-present=T.wait_for-outcome=1.if@15=T.if@15=T.wait_future_timeout-is-None=0
# run: AIOFTP_REPO=/repo /venv/bin/python /verif/replays/C05_aioftp.server_Server.stor_SEQ_Server.stor_exit_exactly-one-reply.py
import os, sys
sys.path.insert(0, os.path.join(os.environ.get("AIOFTP_REPO", "/repo"), "src"))
OBLIGATION = 'aioftp.server:Server.stor#SEQ::Server.stor/exit:exactly-one-reply'
MODEL = {'user_present!11': False, 'block_size!0': 1, 'restart_offset!10': 0, 'wait_future_timeout!32': '0/1', 'u_cur_home!80': 'Empty(Seq(String))', 'cwd!81': 'Empty(Seq(String))', 'user_done!12': True, 'logged_present!13': True, 'passive_server_done!20': False, 'logged_done!14': False, 'passive_server_present!19': True}
SOLVER_NOTE = ''

print("obligation", OBLIGATION, "failed; no concrete failing input could be constructed automatically")
print("counter-model (may be spurious where string builtins are uninterpreted):")
for k, v in sorted(MODEL.items()):
    print("   ", k, "=", repr(v))
print("NOT-REPRODUCED no-failing-input-found")
