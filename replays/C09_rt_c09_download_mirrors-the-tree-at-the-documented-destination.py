#!/venv/bin/python
# replay for obligation rt:c09/download/mirrors-the-tree-at-the-documented-destination
# path: 
# run: AIOFTP_REPO=/repo /venv/bin/python /verif/replays/C09_rt_c09_download_mirrors-the-tree-at-the-documented-destination.py
import os, sys
sys.path.insert(0, os.path.join(os.environ.get("AIOFTP_REPO", "/repo"), "src"))
OBLIGATION = 'rt:c09/download/mirrors-the-tree-at-the-documented-destination'
MODEL = {'kind': 'download', 'tree': 3, 'dest': 'd', 'write_into': False, 'cwd': 'w'}
SOLVER_NOTE = 'found by the bounded run-time contract checker on the real code'

import json, subprocess
inp = {'kind': 'download', 'tree': 3, 'dest': 'd', 'write_into': False, 'cwd': 'w'}
p = subprocess.run(["/venv/bin/python", '/verif/rt/c09_rt.py', "replay", json.dumps(inp)], capture_output=True, text=True, env=dict(os.environ))
print(p.stdout.strip() or p.stderr.strip())
