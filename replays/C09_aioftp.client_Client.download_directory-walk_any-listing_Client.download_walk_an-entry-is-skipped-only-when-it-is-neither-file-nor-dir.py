#!/venv/bin/python
# replay for obligation aioftp.client:Client.download/directory-walk#any-listing::Client.download/walk:an-entry-is-skipped-only-when-it-is-neither-file-nor-dir
# path: source-absolute=0.for@block/loop=F
# run: AIOFTP_REPO=/repo /venv/bin/python /verif/replays/C09_aioftp.client_Client.download_directory-walk_any-listing_Client.download_walk_an-entry-is-skipped-only-when-it-is-neither-file-nor-dir.py
import os, sys
sys.path.insert(0, os.path.join(os.environ.get("AIOFTP_REPO", "/repo"), "src"))
OBLIGATION = 'aioftp.client:Client.download/directory-walk#any-listing::Client.download/walk:an-entry-is-skipped-only-when-it-is-neither-file-nor-dir'
MODEL = {'dest!7': 'Empty(Seq(String))', 'listed_type': 'K(Int, "dir")', '_i!1': 0, 'listing_len!3': 0, 'source!6': 'Empty(Seq(String))'}
SOLVER_NOTE = ''

print("obligation", OBLIGATION, "failed; no concrete failing input could be constructed automatically")
print("counter-model (may be spurious where string builtins are uninterpreted):")
for k, v in sorted(MODEL.items()):
    print("   ", k, "=", repr(v))
print("NOT-REPRODUCED no-failing-input-found")
