#!/venv/bin/python
# replay for obligation rt:c07/mlsx/modify-utc-seconds
# path: 
# run: AIOFTP_REPO=/repo /venv/bin/python /verif/replays/C07_rt_c07_mlsx_modify-utc-seconds.py
import os, sys
sys.path.insert(0, os.path.join(os.environ.get("AIOFTP_REPO", "/repo"), "src"))
OBLIGATION = 'rt:c07/mlsx/modify-utc-seconds'
MODEL = {'mode': 16877, 'size': 2147483648, 'mtime': 1076091139.9999998, 'name': 'a;b=c', 'kind': 'mlsx'}
SOLVER_NOTE = 'found by the bounded run-time contract checker on the real code'

import json, subprocess
inp = {'mode': 16877, 'size': 2147483648, 'mtime': 1076091139.9999998, 'name': 'a;b=c', 'kind': 'mlsx'}
p = subprocess.run(["/venv/bin/python", '/verif/rt/c07_rt.py', "replay", json.dumps(inp)], capture_output=True, text=True, env=dict(os.environ))
print(p.stdout.strip() or p.stderr.strip())
