#!/venv/bin/python
# replay for obligation aioftp.server:Server._start_passive_server#PIPE::<unit>/exit:I7-port-ledger
# path: data-ports-configured=0.pool-nonempty=T.cancel@start_server=0.start_server-outcome=0
# run: AIOFTP_REPO=/repo /venv/bin/python /verif/replays/C11_aioftp.server_Server._start_passive_server_PIPE_unit_exit_I7-port-ledger.py
import os, sys
sys.path.insert(0, os.path.join(os.environ.get("AIOFTP_REPO", "/repo"), "src"))
OBLIGATION = 'aioftp.server:Server._start_passive_server#PIPE::<unit>/exit:I7-port-ledger'
MODEL = {'u_cur_home!1': 'Unit("!0!")', 'restart_offset!11': 0, 'current_directory_present!39': True, 'cwd!2': 'Unit("!1!")', 'pool_size!5': 1, 'passive_server_present!20': False, 'pool_size!1': 0, 'pool_rest!5': 'K(Int, 1)', 'logged_present!37': False, 'current_directory_done!40': True, 'cwd!8': 'Unit("!2!")', 'logged_present!14': False, 'user_done!13': False, 'prio!29': 0, 'restart_offset!34': 0, 'pool_rest!10': 'Store(Store(K(Int, 3), 5, 14680), 4, 5853)', 'pool_cnt0': 'Store(Store(K(Int, 3), 5, 14680), 4, 5853)', 'u_cur_home!7': 'Unit("!3!")', 'pool_size!4': 0, 'block_size!0': 1, 'port!30': 5, 'passive_server_present!43': True, 'pool_size!10': 0, 'passive_port!31': 4, 'passive_server_done!44': True, 'logged_done!38': True, 'passive_server_done!21': True, 'logged_done!15': True, 'pool_cnt!10': 'Store(Store(K(Int, 3), 5, 14679), 4, 5852)', 'pool_rest!4': 'K(Int, 0)', 'pool_cnt!4': 'K(Int, 0)', 'pool_cnt!5': 'K(Int, 1)'}
SOLVER_NOTE = ''

print("obligation", OBLIGATION, "failed; no concrete failing input could be constructed automatically")
print("counter-model (may be spurious where string builtins are uninterpreted):")
for k, v in sorted(MODEL.items()):
    print("   ", k, "=", repr(v))
print("NOT-REPRODUCED no-failing-input-found")
