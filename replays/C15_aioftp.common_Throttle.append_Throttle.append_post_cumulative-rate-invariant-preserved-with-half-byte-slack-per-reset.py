#!/venv/bin/python
# replay for obligation aioftp.common:Throttle.append::Throttle.append/post:cumulative-rate-invariant-preserved-with-half-byte-slack-per-reset
# path: th_limit-is-None=0.th_start-is-None=0.if@11=T.if@14=T
# run: AIOFTP_REPO=/repo /venv/bin/python /verif/replays/C15_aioftp.common_Throttle.append_Throttle.append_post_cumulative-rate-invariant-preserved-with-half-byte-slack-per-reset.py
import os, sys
sys.path.insert(0, os.path.join(os.environ.get("AIOFTP_REPO", "/repo"), "src"))
OBLIGATION = 'aioftp.common:Throttle.append::Throttle.append/post:cumulative-rate-invariant-preserved-with-half-byte-slack-per-reset'
MODEL = {'th_limit!5': '13/1', 'th_start!6': '-1/1', 'th_reset_rate!0': '1/2', 'th_B!3': 0, 'th_sum!1': 1, 'th_rho!4': '0/1', 'th_t0!2': '-9/8', 'round!9': 1, 'data!7': '', 'io_start!8': '-1/4', 'len!10': 0}
SOLVER_NOTE = ''

print("obligation", OBLIGATION, "failed; no concrete failing input could be constructed automatically")
print("counter-model (may be spurious where string builtins are uninterpreted):")
for k, v in sorted(MODEL.items()):
    print("   ", k, "=", repr(v))
print("NOT-REPRODUCED no-failing-input-found")
