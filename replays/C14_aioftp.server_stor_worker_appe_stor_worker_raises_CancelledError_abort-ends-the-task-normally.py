#!/venv/bin/python
# replay for obligation aioftp.server:stor_worker@appe::stor_worker/raises:CancelledError:abort-ends-the-task-normally
# path: conn.logged-present=T.conn.passive_server-present=T.wait_for-outcome=0.conn.user-present=T.conn.user-done=T.if@6=F.backend.is_dir-fault=0.if@25=T.conn.data_connection-present=T.wait_future_timeout-is-None=1.cancel@gather=1
# run: AIOFTP_REPO=/repo /venv/bin/python /verif/replays/C14_aioftp.server_stor_worker_appe_stor_worker_raises_CancelledError_abort-ends-the-task-normally.py
import os, sys
sys.path.insert(0, os.path.join(os.environ.get("AIOFTP_REPO", "/repo"), "src"))
OBLIGATION = 'aioftp.server:stor_worker@appe::stor_worker/raises:CancelledError:abort-ends-the-task-normally'
MODEL = {'block_size!0': 1, 'restart_offset!10': 0, 'dc_accepted!38': True, 'dc_accepted!34': False, 'dc_accepted!29': False, 'data_connection_present!21': False, 'user_present!11': True, 'user_done!12': True, 'current_directory_present!15': True, 'current_directory_done!16': True, 'passive_server_present!19': True, 'logged_present!13': True, 'passive_server_done!20': True, 'logged_done!14': True, 'fsbool!37': True, 'auth_ok!27': True, 'writable!33': True}
SOLVER_NOTE = ''

print("obligation", OBLIGATION, "failed; no concrete failing input could be constructed automatically")
print("counter-model (may be spurious where string builtins are uninterpreted):")
for k, v in sorted(MODEL.items()):
    print("   ", k, "=", repr(v))
print("NOT-REPRODUCED no-failing-input-found")
