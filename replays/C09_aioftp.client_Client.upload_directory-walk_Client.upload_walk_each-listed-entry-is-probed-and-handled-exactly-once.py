#!/venv/bin/python
# replay for obligation aioftp.client:Client.upload/directory-walk::Client.upload/walk:each-listed-entry-is-probed-and-handled-exactly-once
# path: destination-absolute=0.worklist-nonempty=T.list-next=0.is_dir=0
# run: AIOFTP_REPO=/repo /venv/bin/python /verif/replays/C09_aioftp.client_Client.upload_directory-walk_Client.upload_walk_each-listed-entry-is-probed-and-handled-exactly-once.py
import os, sys
sys.path.insert(0, os.path.join(os.environ.get("AIOFTP_REPO", "/repo"), "src"))
OBLIGATION = 'aioftp.client:Client.upload/directory-walk::Client.upload/walk:each-listed-entry-is-probed-and-handled-exactly-once'
MODEL = {'queued_below!2': 'Empty(Seq(String))', 'source!0': 'Empty(Seq(String))', 'child_name!2': 'A', 'dest!1': 'Empty(Seq(String))', 'worklist_nonempty!1': True}
SOLVER_NOTE = ''

print("obligation", OBLIGATION, "failed; no concrete failing input could be constructed automatically")
print("counter-model (may be spurious where string builtins are uninterpreted):")
for k, v in sorted(MODEL.items()):
    print("   ", k, "=", repr(v))
print("NOT-REPRODUCED no-failing-input-found")
