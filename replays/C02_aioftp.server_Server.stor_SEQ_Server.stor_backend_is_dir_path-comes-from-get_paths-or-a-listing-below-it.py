#!/venv/bin/python
# replay for obligation aioftp.server:Server.stor#SEQ::Server.stor/backend:is_dir:path-comes-from-get_paths-or-a-listing-below-it
# path: conn.logged-present=T.conn.passive_server-present=T.wait_for-outcome=0.conn.user-present=T.conn.user-done=T.if@6=F
# run: AIOFTP_REPO=/repo /venv/bin/python /verif/replays/C02_aioftp.server_Server.stor_SEQ_Server.stor_backend_is_dir_path-comes-from-get_paths-or-a-listing-below-it.py
import os, sys
sys.path.insert(0, os.path.join(os.environ.get("AIOFTP_REPO", "/repo"), "src"))
OBLIGATION = 'aioftp.server:Server.stor#SEQ::Server.stor/backend:is_dir:path-comes-from-get_paths-or-a-listing-below-it'
MODEL = {}
SOLVER_NOTE = 'cvc5=unknown z3=unknown counter-model of the cone-of-influence slice (0 of 44 assumptions)'

print("obligation", OBLIGATION, "failed; no concrete failing input could be constructed automatically")
print("counter-model (may be spurious where string builtins are uninterpreted):")
for k, v in sorted(MODEL.items()):
    print("   ", k, "=", repr(v))
print("NOT-REPRODUCED no-failing-input-found")
