#!/venv/bin/python
# replay for obligation aioftp.server:stor_worker@stor::ThrottleStreamIO.__aexit__/no-wait-on-the-peer-after-cancellation:writer.wait_closed
# path: conn.logged-present=T.conn.passive_server-present=T.wait_for-outcome=0.conn.user-present=T.conn.user-done=T.if@6=F.backend.is_dir-fault=0.if@25=T.conn.data_connection-present=T.wait_future_timeout-is-None=0.cancel@wait_for(gather)=0.wait_for-outcome=0.conn.data_connection-done=T.if@3=T.cancel@backend._open=0.backend._open-fault=0.if@9=T.cancel@backend.seek=0.backend.seek-fault=0.cancel@reader.read=0.read-outcome=0.if@2=T.cancel@backend.write=0.backend.write-fault=1.cancel@backend.close=1
# run: AIOFTP_REPO=/repo /venv/bin/python /verif/replays/C14_aioftp.server_stor_worker_stor_ThrottleStreamIO.__aexit___no-wait-on-the-peer-after-cancellation_writer.wait_closed.py
import os, sys
sys.path.insert(0, os.path.join(os.environ.get("AIOFTP_REPO", "/repo"), "src"))
OBLIGATION = 'aioftp.server:stor_worker@stor::ThrottleStreamIO.__aexit__/no-wait-on-the-peer-after-cancellation:writer.wait_closed'
MODEL = {'block_size!0': 1, 'data_connection_done!22': True, 'restart_offset!10': 1, 'rest!106': '', 'chunk!105': 'A', 'wait_future_timeout!48': '0/1', 'dc_accepted!38': True, 'dc_accepted!50': False, 'dc_accepted!39': False, 'dc_accepted!35': False, 'dc_accepted!30': False, 'dc_accepted!34': False, 'dc_accepted!29': False, 'data_connection_present!21': False, 'user_present!11': True, 'current_directory_present!52': True, 'current_directory_present!41': True, 'current_directory_present!74': True, 'current_directory_done!99': True, 'current_directory_done!53': True, 'writable!33': True, 'current_directory_done!75': True, 'current_directory_done!16': True, 'passive_server_present!19': True, 'consumed!88': '', 'incoming!23': 'A', 'current_directory_done!121': True, 'current_directory_present!63': True, 'current_directory_done!64': True, 'current_directory_present!98': True, 'user_done!12': True, 'fileW!90': '', 'passive_server_done!20': True, 'logged_done!14': True, 'fsbool!37': True, 'incoming!87': 'A', 'current_directory_done!111': True, 'current_directory_present!15': True, 'logged_present!13': True, 'current_directory_present!120': True, 'current_directory_done!42': True, 'current_directory_present!110': True, 'auth_ok!27': True}
SOLVER_NOTE = ''

print("obligation", OBLIGATION, "failed; no concrete failing input could be constructed automatically")
print("counter-model (may be spurious where string builtins are uninterpreted):")
for k, v in sorted(MODEL.items()):
    print("   ", k, "=", repr(v))
print("NOT-REPRODUCED no-failing-input-found")
