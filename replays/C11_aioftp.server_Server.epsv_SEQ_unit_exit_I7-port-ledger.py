#!/venv/bin/python
# replay for obligation aioftp.server:Server.epsv#SEQ::<unit>/exit:I7-port-ledger
# path: data-ports-configured=0.conn.logged-present=T.wait_for-outcome=0.if@12=F.conn.passive_server-present=T.if@16=T.Server._start_passive_server-outcome=0.conn.passive_server-done=F.listener-families=0.conn.data_connection-present=T.if@33=T.conn.data_connection-done=T
# run: AIOFTP_REPO=/repo /venv/bin/python /verif/replays/C11_aioftp.server_Server.epsv_SEQ_unit_exit_I7-port-ledger.py
import os, sys
sys.path.insert(0, os.path.join(os.environ.get("AIOFTP_REPO", "/repo"), "src"))
OBLIGATION = 'aioftp.server:Server.epsv#SEQ::<unit>/exit:I7-port-ledger'
MODEL = {'pool_rest!11': 'Store(K(Int, 4), 6, 8366)', 'pool_size!12': 0, 'u_cur_home!7': 'Unit("!0!")', 'pool_size!10': 0, 'block_size!0': 1, 'pool_rest!12': 'Store(K(Int, 5), 6, 8367)', 'restart_offset!11': 0, 'cwd!8': 'Unit("!1!")', 'rest!29': '', 'passive_port!38': 6, 'pool_size!1': 0, 'pool_cnt0': 'Store(K(Int, 5), 6, 8366)', 'bound_port!39': 1, 'passive_server_present!20': True, 'pool_cnt!12': 'Store(K(Int, 5), 6, 8367)', 'current_directory_done!17': True, 'logged_done!15': True, 'passive_server_done!21': False, 'auth_ok!28': True, 'data_connection_present!34': True, 'user_done!13': True, 'pool_size!11': 1, 'pool_cnt!11': 'Store(K(Int, 4), 6, 8366)', 'user_present!12': True, 'data_connection_done!35': True, 'pool_cnt!0': 'Store(K(Int, 4), 6, 8365)', 'pool_rest!10': 'K(Int, 0)', 'pool_cnt!10': 'K(Int, 0)', 'current_directory_present!16': True, 'logged_present!14': True}
SOLVER_NOTE = ''

print("obligation", OBLIGATION, "failed; no concrete failing input could be constructed automatically")
print("counter-model (may be spurious where string builtins are uninterpreted):")
for k, v in sorted(MODEL.items()):
    print("   ", k, "=", repr(v))
print("NOT-REPRODUCED no-failing-input-found")
