#!/venv/bin/python
# replay for obligation aioftp.client:BaseClient.parse_line::BaseClient.parse_line/raises:ConnectionResetError:only-when-nothing-was-read
# path: readline-outcome=0.decodable=T.if@16=T
# run: AIOFTP_REPO=/repo /venv/bin/python /verif/replays/C06_aioftp.client_BaseClient.parse_line_BaseClient.parse_line_raises_ConnectionResetError_only-when-nothing-was-read.py
import os, sys
sys.path.insert(0, os.path.join(os.environ.get("AIOFTP_REPO", "/repo"), "src"))
OBLIGATION = 'aioftp.client:BaseClient.parse_line::BaseClient.parse_line/raises:ConnectionResetError:only-when-nothing-was-read'
MODEL = {'line!2': '\U00014c11', 'rest!3': '', 'incoming!0': '\U00014c11'}
SOLVER_NOTE = ''

print("obligation", OBLIGATION, "failed; no concrete failing input could be constructed automatically")
print("counter-model (may be spurious where string builtins are uninterpreted):")
for k, v in sorted(MODEL.items()):
    print("   ", k, "=", repr(v))
print("NOT-REPRODUCED no-failing-input-found")
