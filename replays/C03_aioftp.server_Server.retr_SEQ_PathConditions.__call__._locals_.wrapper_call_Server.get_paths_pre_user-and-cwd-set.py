#!/venv/bin/python
# replay for obligation aioftp.server:Server.retr#SEQ::PathConditions.__call__.<locals>.wrapper/call:Server.get_paths/pre:user-and-cwd-set
# path: if@5=F.if@5=F
# run: AIOFTP_REPO=/repo /venv/bin/python /verif/replays/C03_aioftp.server_Server.retr_SEQ_PathConditions.__call__._locals_.wrapper_call_Server.get_paths_pre_user-and-cwd-set.py
import os, sys
sys.path.insert(0, os.path.join(os.environ.get("AIOFTP_REPO", "/repo"), "src"))
OBLIGATION = 'aioftp.server:Server.retr#SEQ::PathConditions.__call__.<locals>.wrapper/call:Server.get_paths/pre:user-and-cwd-set'
MODEL = {'user_present!11': False, 'current_directory_done!16': True, 'logged_done!14': False, 'current_directory_present!15': True, 'restart_offset!10': 0, 'cwd!103': 'Empty(Seq(String))', 'block_size!0': 1, 'u_cur_home!102': 'Empty(Seq(String))', 'logged_present!13': True, 'passive_server_present!19': True}
SOLVER_NOTE = ''

print("obligation", OBLIGATION, "failed; no concrete failing input could be constructed automatically")
print("counter-model (may be spurious where string builtins are uninterpreted):")
for k, v in sorted(MODEL.items()):
    print("   ", k, "=", repr(v))
print("NOT-REPRODUCED no-failing-input-found")
