#!/venv/bin/python
# replay for obligation aioftp.server:Server.write_response::Server.write_response/loop0/inv-init:wire-is-the-encoding-of-the-lines-so-far
# path: list-mode=1.seqindex=T.seqindex=T
# run: AIOFTP_REPO=/repo /venv/bin/python /verif/replays/C06_aioftp.server_Server.write_response_Server.write_response_loop0_inv-init_wire-is-the-encoding-of-the-lines-so-far.py
import os, sys
sys.path.insert(0, os.path.join(os.environ.get("AIOFTP_REPO", "/repo"), "src"))
OBLIGATION = 'aioftp.server:Server.write_response::Server.write_response/loop0/inv-init:wire-is-the-encoding-of-the-lines-so-far'
MODEL = {'wirelen!31': 0, 'code!0': '000', 'nlines': 2}
SOLVER_NOTE = ''

print("obligation", OBLIGATION, "failed; no concrete failing input could be constructed automatically")
print("counter-model (may be spurious where string builtins are uninterpreted):")
for k, v in sorted(MODEL.items()):
    print("   ", k, "=", repr(v))
print("NOT-REPRODUCED no-failing-input-found")
