#!/venv/bin/python
# replay for obligation aioftp.server:Server.pasv#SEQ::Server.pasv/raises:unexpected-OSError
# path: data-ports-configured=0.conn.logged-present=T.wait_for-outcome=0.conn.passive_server-present=T.if@12=T.Server._start_passive_server-outcome=2
# run: AIOFTP_REPO=/repo /venv/bin/python /verif/replays/C05_aioftp.server_Server.pasv_SEQ_Server.pasv_raises_unexpected-OSError.py
import os, sys
sys.path.insert(0, os.path.join(os.environ.get("AIOFTP_REPO", "/repo"), "src"))
OBLIGATION = 'aioftp.server:Server.pasv#SEQ::Server.pasv/raises:unexpected-OSError'
MODEL = {'pool_size!1': 0, 'pool_size!12': 0, 'block_size!0': 1, 'pool_size!13': 0, 'restart_offset!11': 0, 'pool_size!15': 0, 'u_cur_home!9': 'Unit("!1!")', 'pool_size!14': 0, 'cwd!10': 'Unit("!0!")', 'pool_cnt0': 'K(Int, 3)', 'current_directory_done!17': True, 'user_done!13': True, 'pool_rest!15': 'K(Int, 0)', 'pool_cnt!15': 'K(Int, 0)', 'passive_server_present!20': True, 'pool_rest!14': 'K(Int, 0)', 'pool_cnt!14': 'K(Int, 0)', 'pool_rest!13': 'K(Int, 0)', 'pool_cnt!13': 'K(Int, 0)', 'user_present!12': True, 'pool_rest!12': 'K(Int, 0)', 'pool_cnt!12': 'K(Int, 0)', 'auth_ok!28': True, 'passive_server_done!21': False, 'current_directory_present!16': True, 'logged_done!15': True, 'logged_present!14': True}
SOLVER_NOTE = ''

print("obligation", OBLIGATION, "failed; no concrete failing input could be constructed automatically")
print("counter-model (may be spurious where string builtins are uninterpreted):")
for k, v in sorted(MODEL.items()):
    print("   ", k, "=", repr(v))
print("NOT-REPRODUCED no-failing-input-found")
