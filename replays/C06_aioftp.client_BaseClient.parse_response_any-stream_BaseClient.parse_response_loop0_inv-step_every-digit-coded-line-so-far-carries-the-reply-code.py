#!/venv/bin/python
# replay for obligation aioftp.client:BaseClient.parse_response#any-stream::BaseClient.parse_response/loop0/inv-step:every-digit-coded-line-so-far-carries-the-reply-code
# path: BaseClient.parse_line-outcome=0.or=T.while@BaseClient.parse_response/loop0=T.BaseClient.parse_line-outcome=0.if@17=T
# run: AIOFTP_REPO=/repo /venv/bin/python /verif/replays/C06_aioftp.client_BaseClient.parse_response_any-stream_BaseClient.parse_response_loop0_inv-step_every-digit-coded-line-so-far-carries-the-reply-code.py
import os, sys
sys.path.insert(0, os.path.join(os.environ.get("AIOFTP_REPO", "/repo"), "src"))
OBLIGATION = 'aioftp.client:BaseClient.parse_response#any-stream::BaseClient.parse_response/loop0/inv-step:every-digit-coded-line-so-far-carries-the-reply-code'
MODEL = {'linecode!5': '\U0001ebd7', 'linecode!0': '', 'rest!3': '-', 'linerest!1': '', 'linerest!6': '', 'info!0': 'K(Int, "")', 'infolen!1': 0, 'seq!2': 'K(Int, "")', 'all_same!4': True}
SOLVER_NOTE = ''

print("obligation", OBLIGATION, "failed; no concrete failing input could be constructed automatically")
print("counter-model (may be spurious where string builtins are uninterpreted):")
for k, v in sorted(MODEL.items()):
    print("   ", k, "=", repr(v))
print("NOT-REPRODUCED no-failing-input-found")
