#!/venv/bin/python
# replay for obligation aioftp.server:stor_worker@appe::stor_worker/exit:owned-data-stream-closed
# path: conn.logged-present=T.conn.passive_server-present=T.wait_for-outcome=0.conn.user-present=T.conn.user-done=T.if@6=F.backend.is_dir-fault=0.if@25=T.conn.data_connection-present=T.wait_future_timeout-is-None=0.cancel@wait_for(gather)=0.wait_for-outcome=0.conn.data_connection-done=T.if@3=T.cancel@backend._open=0.backend._open-fault=0.if@8=T.cancel@backend.seek=0.backend.seek-fault=1.cancel@backend.close=0.backend.close-fault=0
# run: AIOFTP_REPO=/repo /venv/bin/python /verif/replays/C13_aioftp.server_stor_worker_appe_stor_worker_exit_owned-data-stream-closed.py
import os, sys
sys.path.insert(0, os.path.join(os.environ.get("AIOFTP_REPO", "/repo"), "src"))
OBLIGATION = 'aioftp.server:stor_worker@appe::stor_worker/exit:owned-data-stream-closed'
MODEL = {'data_connection_done!22': True, 'block_size!0': 1, 'wait_future_timeout!48': '0/1', 'restart_offset!10': 1, 'data_connection_present!21': True, 'dc_accepted!35': False, 'dc_accepted!39': False, 'dc_accepted!50': False, 'dc_accepted!30': False, 'dc_accepted!34': False, 'dc_accepted!38': False, 'dc_accepted!29': False, 'user_present!11': True, 'user_done!12': True, 'current_directory_done!85': True, 'current_directory_present!84': True, 'current_directory_present!52': True, 'current_directory_present!41': True, 'current_directory_present!74': True, 'passive_server_done!20': True, 'logged_done!14': True, 'current_directory_done!53': True, 'fsbool!37': True, 'writable!33': True, 'current_directory_done!75': True, 'current_directory_present!15': True, 'current_directory_done!16': True, 'passive_server_present!19': True, 'logged_present!13': True, 'current_directory_done!42': True, 'current_directory_done!64': True, 'current_directory_present!63': True, 'auth_ok!27': True}
SOLVER_NOTE = ''

print("obligation", OBLIGATION, "failed; no concrete failing input could be constructed automatically")
print("counter-model (may be spurious where string builtins are uninterpreted):")
for k, v in sorted(MODEL.items()):
    print("   ", k, "=", repr(v))
print("NOT-REPRODUCED no-failing-input-found")
