#!/venv/bin/python
# replay for obligation aioftp.client:Client.download/directory-walk::Client.download/raises:unexpected-ValueError
# path: source-absolute=0.entries-listed=2.type0=0.type1=1.relative_to=F
# run: AIOFTP_REPO=/repo /venv/bin/python /verif/replays/C09_aioftp.client_Client.download_directory-walk_Client.download_raises_unexpected-ValueError.py
import os, sys
sys.path.insert(0, os.path.join(os.environ.get("AIOFTP_REPO", "/repo"), "src"))
OBLIGATION = 'aioftp.client:Client.download/directory-walk::Client.download/raises:unexpected-ValueError'
MODEL = {'below1!17': 'Unit("!0!")', 'dest!15': 'Empty(Seq(String))', 'below0!16': 'Unit("!1!")', 'source!14': 'Empty(Seq(String))'}
SOLVER_NOTE = ''

print("obligation", OBLIGATION, "failed; no concrete failing input could be constructed automatically")
print("counter-model (may be spurious where string builtins are uninterpreted):")
for k, v in sorted(MODEL.items()):
    print("   ", k, "=", repr(v))
print("NOT-REPRODUCED no-failing-input-found")
