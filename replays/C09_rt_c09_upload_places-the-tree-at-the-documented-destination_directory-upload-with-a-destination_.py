#!/venv/bin/python
# replay for obligation rt:c09/upload/places-the-tree-at-the-documented-destination[directory-upload-with-a-destination]
# path: 
# run: AIOFTP_REPO=/repo /venv/bin/python /verif/replays/C09_rt_c09_upload_places-the-tree-at-the-documented-destination_directory-upload-with-a-destination_.py
import os, sys
sys.path.insert(0, os.path.join(os.environ.get("AIOFTP_REPO", "/repo"), "src"))
OBLIGATION = 'rt:c09/upload/places-the-tree-at-the-documented-destination[directory-upload-with-a-destination]'
MODEL = {'kind': 'upload', 'tree': 1, 'dest': '/d/e', 'write_into': False, 'cwd': ''}
SOLVER_NOTE = 'found by the bounded run-time contract checker on the real code'

import json, subprocess
inp = {'kind': 'upload', 'tree': 1, 'dest': '/d/e', 'write_into': False, 'cwd': ''}
p = subprocess.run(["/venv/bin/python", '/verif/rt/c09_rt.py', "replay", json.dumps(inp)], capture_output=True, text=True, env=dict(os.environ))
print(p.stdout.strip() or p.stderr.strip())
