#!/venv/bin/python
# replay for obligation rt:c09/remove/deletes-the-subtree-and-nothing-else
# path: 
# run: AIOFTP_REPO=/repo /venv/bin/python /verif/replays/C09_rt_c09_remove_deletes-the-subtree-and-nothing-else.py
import os, sys
sys.path.insert(0, os.path.join(os.environ.get("AIOFTP_REPO", "/repo"), "src"))
OBLIGATION = 'rt:c09/remove/deletes-the-subtree-and-nothing-else'
MODEL = {'kind': 'list-remove-absolute', 'tree': 0, 'dest': '', 'write_into': False, 'cwd': 'w', 'fallback': True}
SOLVER_NOTE = 'found by the bounded run-time contract checker on the real code'

import json, subprocess
inp = {'kind': 'list-remove-absolute', 'tree': 0, 'dest': '', 'write_into': False, 'cwd': 'w', 'fallback': True}
p = subprocess.run(["/venv/bin/python", '/verif/rt/c09_rt.py', "replay", json.dumps(inp)], capture_output=True, text=True, env=dict(os.environ))
print(p.stdout.strip() or p.stderr.strip())
