#!/venv/bin/python
# replay for obligation aioftp.client:Client.list.<locals>.AsyncLister.__anext__::Client.list.<locals>.AsyncLister.__anext__/post:every-line-read-is-parsed-once-in-order-by-its-stream's-parser-only-dot-entries-are-dropped
# path: recursive=0.already-started=0.listing-line-or-eof=0.while@Client.list.<locals>.AsyncLister_loc.__anext__/loop1=F.parsed-entry=0.entry-type=0.if@14=F
# run: AIOFTP_REPO=/repo /venv/bin/python /verif/replays/C07_aioftp.client_Client.list._locals_.AsyncLister.__anext___Client.list._locals_.AsyncLister.__anext___post_every-line-read-is-parsed-once-in-order-by-it.py
import os, sys
sys.path.insert(0, os.path.join(os.environ.get("AIOFTP_REPO", "/repo"), "src"))
OBLIGATION = "aioftp.client:Client.list.<locals>.AsyncLister.__anext__::Client.list.<locals>.AsyncLister.__anext__/post:every-line-read-is-parsed-once-in-order-by-its-stream's-parser-only-dot-entries-are-dropped"
MODEL = {}
SOLVER_NOTE = 'cvc5=unknown z3=sat'

print("obligation", OBLIGATION, "failed; no concrete failing input could be constructed automatically")
print("counter-model (may be spurious where string builtins are uninterpreted):")
for k, v in sorted(MODEL.items()):
    print("   ", k, "=", repr(v))
print("NOT-REPRODUCED no-failing-input-found")
