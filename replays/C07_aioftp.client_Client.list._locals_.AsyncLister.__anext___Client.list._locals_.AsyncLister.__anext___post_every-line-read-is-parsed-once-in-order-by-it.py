#!/venv/bin/python
# replay for obligation aioftp.client:Client.list.<locals>.AsyncLister.__anext__::Client.list.<locals>.AsyncLister.__anext__/post:every-line-read-is-parsed-once-in-order-by-its-stream's-parser-only-dot-entries-are-dropped
# path: recursive=0.already-started=1.queued-directories=1.listing-line-or-eof=0.if@5=F.parsed-entry=2.entry-type=0.listing-line-or-eof=1.Client.list.<locals>.AsyncLister._new_stream-outcome=0.listing-line-or-eof=1.parsed-entry=0.entry-type=0.if@16=F
# run: AIOFTP_REPO=/repo /venv/bin/python /verif/replays/C07_aioftp.client_Client.list._locals_.AsyncLister.__anext___Client.list._locals_.AsyncLister.__anext___post_every-line-read-is-parsed-once-in-order-by-it.py
import os, sys
sys.path.insert(0, os.path.join(os.environ.get("AIOFTP_REPO", "/repo"), "src"))
OBLIGATION = "aioftp.client:Client.list.<locals>.AsyncLister.__anext__::Client.list.<locals>.AsyncLister.__anext__/post:every-line-read-is-parsed-once-in-order-by-its-stream's-parser-only-dot-entries-are-dropped"
MODEL = {'queued0!138': 'Empty(Seq(String))', 'listing_line!0': 'B', 'listed!136': 'Empty(Seq(String))', 'curdir!137': 'Empty(Seq(String))', 'entry_name!1': 'A'}
SOLVER_NOTE = ''

print("obligation", OBLIGATION, "failed; no concrete failing input could be constructed automatically")
print("counter-model (may be spurious where string builtins are uninterpreted):")
for k, v in sorted(MODEL.items()):
    print("   ", k, "=", repr(v))
print("NOT-REPRODUCED no-failing-input-found")
