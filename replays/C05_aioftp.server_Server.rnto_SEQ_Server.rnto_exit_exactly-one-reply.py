#!/venv/bin/python
# replay for obligation aioftp.server:Server.rnto#SEQ::Server.rnto/exit:exactly-one-reply
# path: conn.logged-present=T.conn.rename_from-present=T.wait_for-outcome=1.if@15=T.if@15=T.wait_future_timeout-is-None=0
# run: AIOFTP_REPO=/repo /venv/bin/python /verif/replays/C05_aioftp.server_Server.rnto_SEQ_Server.rnto_exit_exactly-one-reply.py
import os, sys
sys.path.insert(0, os.path.join(os.environ.get("AIOFTP_REPO", "/repo"), "src"))
OBLIGATION = 'aioftp.server:Server.rnto#SEQ::Server.rnto/exit:exactly-one-reply'
MODEL = {'block_size!0': 1, 'wait_future_timeout!32': '0/1', 'user_present!11': False, 'u_cur_home!143': 'Empty(Seq(String))', 'cwd!144': 'Empty(Seq(String))', 'restart_offset!10': 0, 'user_done!12': True, 'logged_present!13': True, 'rename_from_present!17': True, 'logged_done!14': False, 'rename_from_done!18': False}
SOLVER_NOTE = ''

print("obligation", OBLIGATION, "failed; no concrete failing input could be constructed automatically")
print("counter-model (may be spurious where string builtins are uninterpreted):")
for k, v in sorted(MODEL.items()):
    print("   ", k, "=", repr(v))
print("NOT-REPRODUCED no-failing-input-found")
