#!/venv/bin/python
# replay for obligation aioftp.server:Server.epsv#SEQ::Server.epsv/listen:open-data-listener:authorised
# path: data-ports-configured=0.if@5=F.if@12=F.conn.passive_server-present=T.if@16=T
# run: AIOFTP_REPO=/repo /venv/bin/python /verif/replays/C03_aioftp.server_Server.epsv_SEQ_Server.epsv_listen_open-data-listener_authorised.py
import os, sys
sys.path.insert(0, os.path.join(os.environ.get("AIOFTP_REPO", "/repo"), "src"))
OBLIGATION = 'aioftp.server:Server.epsv#SEQ::Server.epsv/listen:open-data-listener:authorised'
MODEL = {'pool_size!1': 0, 'u_cur_home!21': 'Unit("!0!")', 'logged_done!15': False, 'current_directory_present!16': True, 'current_directory_done!17': True, 'cwd!22': 'Unit("!1!")', 'rest!29': '', 'restart_offset!11': 0, 'pool_size!24': 0, 'pool_cnt0': 'K(Int, 2)', 'block_size!0': 1, 'passive_server_done!21': False, 'pool_rest!24': 'K(Int, 0)', 'pool_cnt!24': 'K(Int, 0)', 'passive_server_present!20': True, 'logged_present!14': True}
SOLVER_NOTE = ''

print("obligation", OBLIGATION, "failed; no concrete failing input could be constructed automatically")
print("counter-model (may be spurious where string builtins are uninterpreted):")
for k, v in sorted(MODEL.items()):
    print("   ", k, "=", repr(v))
print("NOT-REPRODUCED no-failing-input-found")
