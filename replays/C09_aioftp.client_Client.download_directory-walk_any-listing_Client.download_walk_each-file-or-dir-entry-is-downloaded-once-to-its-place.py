#!/venv/bin/python
# replay for obligation aioftp.client:Client.download/directory-walk#any-listing::Client.download/walk:each-file-or-dir-entry-is-downloaded-once-to-its-place
# path: source-absolute=0.for@block/loop=T.if@1100=T
# run: AIOFTP_REPO=/repo /venv/bin/python /verif/replays/C09_aioftp.client_Client.download_directory-walk_any-listing_Client.download_walk_each-file-or-dir-entry-is-downloaded-once-to-its-place.py
import os, sys
sys.path.insert(0, os.path.join(os.environ.get("AIOFTP_REPO", "/repo"), "src"))
OBLIGATION = 'aioftp.client:Client.download/directory-walk#any-listing::Client.download/walk:each-file-or-dir-entry-is-downloaded-once-to-its-place'
MODEL = {'listed_type': 'K(Int, "dir")', 'listing_len!0': 1, '_i!1': 0, 'source!0': 'Empty(Seq(String))', 'dest!1': 'Empty(Seq(String))'}
SOLVER_NOTE = ''

print("obligation", OBLIGATION, "failed; no concrete failing input could be constructed automatically")
print("counter-model (may be spurious where string builtins are uninterpreted):")
for k, v in sorted(MODEL.items()):
    print("   ", k, "=", repr(v))
print("NOT-REPRODUCED no-failing-input-found")
