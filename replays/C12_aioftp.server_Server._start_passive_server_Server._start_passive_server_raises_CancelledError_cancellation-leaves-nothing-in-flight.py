#!/venv/bin/python
# replay for obligation aioftp.server:Server._start_passive_server::Server._start_passive_server/raises:CancelledError:cancellation-leaves-nothing-in-flight
# path: data-ports-configured=0.pool-nonempty=T.if@6=F.cancel@start_server=1
# run: AIOFTP_REPO=/repo /venv/bin/python /verif/replays/C12_aioftp.server_Server._start_passive_server_Server._start_passive_server_raises_CancelledError_cancellation-leaves-nothing-in-flight.py
import os, sys
sys.path.insert(0, os.path.join(os.environ.get("AIOFTP_REPO", "/repo"), "src"))
OBLIGATION = 'aioftp.server:Server._start_passive_server::Server._start_passive_server/raises:CancelledError:cancellation-leaves-nothing-in-flight'
MODEL = {'pool_size!33': 0, 'passive_server_present!20': False, 'pool_size!32': 1, 'current_directory_present!16': True, 'prio!29': 0, 'user_present!12': True, 'restart_offset!11': 0, 'user_done!13': True, 'pool_cnt0': 'K(Int, 2)', 'pool_rest!32': 'K(Int, 1)', 'block_size!0': 1, 'auth_ok!28': True, 'current_directory_done!17': True, 'cwd!29': 'Unit("!1!")', 'pool_size!1': 0, 'viewed!4': 'K(Int, False)', 'pool_size!31': 0, 'u_cur_home!28': 'Unit("!0!")', 'logged_present!14': True, 'passive_server_done!21': True, 'logged_done!15': True, 'pool_cnt!32': 'K(Int, 1)', 'pool_rest!31': 'K(Int, 0)', 'pool_cnt!31': 'K(Int, 0)', 'pool_rest!33': 'K(Int, 0)', 'port!30': 0, 'pool_cnt!33': 'Store(K(Int, 0), 0, -1)'}
SOLVER_NOTE = ''

print("obligation", OBLIGATION, "failed; no concrete failing input could be constructed automatically")
print("counter-model (may be spurious where string builtins are uninterpreted):")
for k, v in sorted(MODEL.items()):
    print("   ", k, "=", repr(v))
print("NOT-REPRODUCED no-failing-input-found")
