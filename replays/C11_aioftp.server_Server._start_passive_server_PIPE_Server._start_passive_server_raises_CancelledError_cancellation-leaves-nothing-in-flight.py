#!/venv/bin/python
# replay for obligation aioftp.server:Server._start_passive_server#PIPE::Server._start_passive_server/raises:CancelledError:cancellation-leaves-nothing-in-flight
# path: data-ports-configured=0.pool-nonempty=T.cancel@start_server=1
# run: AIOFTP_REPO=/repo /venv/bin/python /verif/replays/C11_aioftp.server_Server._start_passive_server_PIPE_Server._start_passive_server_raises_CancelledError_cancellation-leaves-nothing-in-flight.py
import os, sys
sys.path.insert(0, os.path.join(os.environ.get("AIOFTP_REPO", "/repo"), "src"))
OBLIGATION = 'aioftp.server:Server._start_passive_server#PIPE::Server._start_passive_server/raises:CancelledError:cancellation-leaves-nothing-in-flight'
MODEL = {'restart_offset!11': 0, 'u_cur_home!40': 'Unit("!3!")', 'current_directory_present!39': True, 'current_directory_present!16': True, 'pool_size!1': 0, 'current_directory_done!40': True, 'restart_offset!34': 0, 'pool_size!43': 0, 'u_cur_home!34': 'Unit("!0!")', 'passive_server_present!43': True, 'pool_size!38': 1, 'pool_cnt0': 'Store(Store(K(Int, 4), 6, 30612), 5, 2997)', 'pool_rest!38': 'K(Int, 1)', 'current_directory_done!17': True, 'passive_server_present!20': False, 'block_size!0': 1, 'pool_size!37': 0, 'cwd!41': 'Unit("!2!")', 'pool_rest!43': 'Store(Store(K(Int, 4), 6, 30612), 5, 2997)', 'logged_present!14': False, 'port!30': 5, 'cwd!35': 'Unit("!1!")', 'logged_present!37': False, 'prio!29': 0, 'passive_port!31': 6, 'passive_server_done!44': True, 'logged_done!38': True, 'passive_server_done!21': True, 'logged_done!15': True, 'pool_cnt!38': 'K(Int, 1)', 'pool_rest!37': 'K(Int, 0)', 'pool_cnt!37': 'K(Int, 0)', 'pool_cnt!43': 'Store(Store(K(Int, 4), 5, 2996), 6, 30611)'}
SOLVER_NOTE = ''

print("obligation", OBLIGATION, "failed; no concrete failing input could be constructed automatically")
print("counter-model (may be spurious where string builtins are uninterpreted):")
for k, v in sorted(MODEL.items()):
    print("   ", k, "=", repr(v))
print("NOT-REPRODUCED no-failing-input-found")
