#!/venv/bin/python
# replay for obligation aioftp.common:ThrottleStreamIO.write::ThrottleStreamIO.write/post:throttle-sleep-is-outside-the-io-timeout
# path: w0_limit-is-None=0.w0_start-is-None=0.write_timeout-is-None=0.if@12=T.timeout@asyncio.wait=0.and=T.div0=T.minmax=T.timeout@sleep=0.timeout@drain=0.drain-outcome=0
# run: AIOFTP_REPO=/repo /venv/bin/python /verif/replays/C16_aioftp.common_ThrottleStreamIO.write_ThrottleStreamIO.write_post_throttle-sleep-is-outside-the-io-timeout.py
import os, sys
sys.path.insert(0, os.path.join(os.environ.get("AIOFTP_REPO", "/repo"), "src"))
OBLIGATION = 'aioftp.common:ThrottleStreamIO.write::ThrottleStreamIO.write/post:throttle-sleep-is-outside-the-io-timeout'
MODEL = {'r0_reset_rate!0': '1/1', 'w0_start!11': '0/1', 'clock!16': '0/1', 'w0_reset_rate!5': '1/1', 'w0_rho!9': '0/1', 'write_timeout!14': '1/1', 'w0_t0!7': '0/1', 'w0_limit!10': '1/1', 'w0_sum!6': 0, 'clock!15': '-1/1', 'w0_B!8': 0}
SOLVER_NOTE = ''

print("obligation", OBLIGATION, "failed; no concrete failing input could be constructed automatically")
print("counter-model (may be spurious where string builtins are uninterpreted):")
for k, v in sorted(MODEL.items()):
    print("   ", k, "=", repr(v))
print("NOT-REPRODUCED no-failing-input-found")
