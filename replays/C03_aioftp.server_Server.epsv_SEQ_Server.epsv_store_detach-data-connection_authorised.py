#!/venv/bin/python
# replay for obligation aioftp.server:Server.epsv#SEQ::Server.epsv/store:detach-data-connection:authorised
# path: data-ports-configured=0.if@5=F.if@12=F.conn.passive_server-present=T.if@16=F.conn.passive_server-done=T.listener-families=0.conn.data_connection-present=T.if@33=T.conn.data_connection-done=T
# run: AIOFTP_REPO=/repo /venv/bin/python /verif/replays/C03_aioftp.server_Server.epsv_SEQ_Server.epsv_store_detach-data-connection_authorised.py
import os, sys
sys.path.insert(0, os.path.join(os.environ.get("AIOFTP_REPO", "/repo"), "src"))
OBLIGATION = 'aioftp.server:Server.epsv#SEQ::Server.epsv/store:detach-data-connection:authorised'
MODEL = {'bound_port!31': 8, 'u_cur_home!56': 'Unit("!0!")', 'pool_size!59': 0, 'logged_done!15': False, 'current_directory_present!16': True, 'current_directory_done!17': True, 'cwd!57': 'Unit("!1!")', 'restart_offset!11': 0, 'rest!29': '', 'block_size!0': 1, 'pool_cnt0': 'K(Int, 29)', 'pool_size!1': 0, 'data_connection_present!22': True, 'int2str!32': '8', 'passive_server_done!21': True, 'passive_server_present!20': True, 'pool_rest!59': 'K(Int, 0)', 'passive_port!8': 0, 'pool_cnt!59': 'Store(K(Int, 0), 0, -1)', 'logged_present!14': True, 'data_connection_done!23': True}
SOLVER_NOTE = ''

print("obligation", OBLIGATION, "failed; no concrete failing input could be constructed automatically")
print("counter-model (may be spurious where string builtins are uninterpreted):")
for k, v in sorted(MODEL.items()):
    print("   ", k, "=", repr(v))
print("NOT-REPRODUCED no-failing-input-found")
