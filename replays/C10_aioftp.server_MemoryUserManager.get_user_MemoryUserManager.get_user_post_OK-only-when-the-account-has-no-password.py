#!/venv/bin/python
# replay for obligation aioftp.server:MemoryUserManager.get_user::MemoryUserManager.get_user/post:OK-only-when-the-account-has-no-password
# path: user-table-size=3.login0-is-None=0.if@5=F.login1-is-None=0.if@5=F.login2-is-None=1.ac_user2_value-is-None=0.if@11=F.AvailableConnections.acquire-outcome=0.password2-is-None=0
# run: AIOFTP_REPO=/repo /venv/bin/python /verif/replays/C10_aioftp.server_MemoryUserManager.get_user_MemoryUserManager.get_user_post_OK-only-when-the-account-has-no-password.py
import os, sys
sys.path.insert(0, os.path.join(os.environ.get("AIOFTP_REPO", "/repo"), "src"))
OBLIGATION = 'aioftp.server:MemoryUserManager.get_user::MemoryUserManager.get_user/post:OK-only-when-the-account-has-no-password'
MODEL = {'login1!5': 'B', 'ac_user2_max!2': 1, 'login0!4': '', 'value!8': 0, 'login_arg!3': 'A', 'ac_user2_value!7': 1, 'locked!6': False}
SOLVER_NOTE = ''

print("obligation", OBLIGATION, "failed; no concrete failing input could be constructed automatically")
print("counter-model (may be spurious where string builtins are uninterpreted):")
for k, v in sorted(MODEL.items()):
    print("   ", k, "=", repr(v))
print("NOT-REPRODUCED no-failing-input-found")
