#!/venv/bin/python
# replay for obligation aioftp.server:User.get_permissions::User.get_permissions/post:an-ancestor-entry-or-the-allow-all-default-when-none
# path: 
# run: AIOFTP_REPO=/repo /venv/bin/python /verif/replays/C04_aioftp.server_User.get_permissions_User.get_permissions_post_an-ancestor-entry-or-the-allow-all-default-when-none.py
import os, sys
sys.path.insert(0, os.path.join(os.environ.get("AIOFTP_REPO", "/repo"), "src"))
OBLIGATION = 'aioftp.server:User.get_permissions::User.get_permissions/post:an-ancestor-entry-or-the-allow-all-default-when-none'
MODEL = {'table': [['/public/private.txt/private.txt', False, False], ['/a', True, False], ['/public/a', False, False]], 'path': '/ab/priv/pub/private.txt'}
SOLVER_NOTE = 'found by the bounded run-time contract checker on the real code'

import json, subprocess
inp = {'table': [['/public/private.txt/private.txt', False, False], ['/a', True, False], ['/public/a', False, False]], 'path': '/ab/priv/pub/private.txt'}
p = subprocess.run(["/venv/bin/python", '/verif/rt/c04_rt.py', "replay", json.dumps(inp)], capture_output=True, text=True, env=dict(os.environ))
print(p.stdout.strip() or p.stderr.strip())
