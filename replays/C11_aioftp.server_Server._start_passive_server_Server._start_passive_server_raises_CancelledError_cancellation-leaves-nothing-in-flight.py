#!/venv/bin/python
# replay for obligation aioftp.server:Server._start_passive_server::Server._start_passive_server/raises:CancelledError:cancellation-leaves-nothing-in-flight
# path: data-ports-configured=0.pool-nonempty=T.cancel@start_server=1
# run: AIOFTP_REPO=/repo /venv/bin/python /verif/replays/C11_aioftp.server_Server._start_passive_server_Server._start_passive_server_raises_CancelledError_cancellation-leaves-nothing-in-flight.py
import os, sys
sys.path.insert(0, os.path.join(os.environ.get("AIOFTP_REPO", "/repo"), "src"))
OBLIGATION = 'aioftp.server:Server._start_passive_server::Server._start_passive_server/raises:CancelledError:cancellation-leaves-nothing-in-flight'
MODEL = {'current_directory_present!16': True, 'cwd!23': 'Unit("!1!")', 'block_size!0': 1, 'pool_size!26': 1, 'pool_rest!26': 'K(Int, 1)', 'restart_offset!11': 0, 'pool_size!27': 0, 'pool_cnt0': 'K(Int, 2)', 'current_directory_done!17': True, 'u_cur_home!22': 'Unit("!0!")', 'pool_size!25': 0, 'pool_size!1': 0, 'prio!29': 0, 'logged_present!14': False, 'passive_server_present!20': False, 'passive_server_done!21': True, 'logged_done!15': True, 'pool_rest!27': 'K(Int, 0)', 'port!30': 0, 'pool_cnt!27': 'Store(K(Int, 0), 0, -1)', 'pool_cnt!26': 'K(Int, 1)', 'pool_rest!25': 'K(Int, 0)', 'pool_cnt!25': 'K(Int, 0)'}
SOLVER_NOTE = ''

print("obligation", OBLIGATION, "failed; no concrete failing input could be constructed automatically")
print("counter-model (may be spurious where string builtins are uninterpreted):")
for k, v in sorted(MODEL.items()):
    print("   ", k, "=", repr(v))
print("NOT-REPRODUCED no-failing-input-found")
