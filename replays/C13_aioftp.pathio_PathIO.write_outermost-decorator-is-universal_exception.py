#!/venv/bin/python
# replay for obligation aioftp.pathio:PathIO.write::outermost-decorator-is-universal_exception
# path: 
# run: AIOFTP_REPO=/repo /venv/bin/python /verif/replays/C13_aioftp.pathio_PathIO.write_outermost-decorator-is-universal_exception.py
import os, sys
sys.path.insert(0, os.path.join(os.environ.get("AIOFTP_REPO", "/repo"), "src"))
OBLIGATION = 'aioftp.pathio:PathIO.write::outermost-decorator-is-universal_exception'
MODEL = {'class': 'PathIO', 'method': 'write', 'found': 'universal_exception.<locals>.wrapper_loc'}
SOLVER_NOTE = ''

print("obligation", OBLIGATION, "failed; no concrete failing input could be constructed automatically")
print("counter-model (may be spurious where string builtins are uninterpreted):")
for k, v in sorted(MODEL.items()):
    print("   ", k, "=", repr(v))
print("NOT-REPRODUCED no-failing-input-found")
