#!/venv/bin/python
# replay for obligation aioftp.server:Server._start_passive_server::<unit>/exit:I7-port-ledger
# path: data-ports-configured=0.pool-nonempty=T.cancel@start_server=0.start_server-outcome=0
# run: AIOFTP_REPO=/repo /venv/bin/python /verif/replays/C11_aioftp.server_Server._start_passive_server_unit_exit_I7-port-ledger.py
import os, sys
sys.path.insert(0, os.path.join(os.environ.get("AIOFTP_REPO", "/repo"), "src"))
OBLIGATION = 'aioftp.server:Server._start_passive_server::<unit>/exit:I7-port-ledger'
MODEL = {'passive_port!31': 8, 'pool_size!1': 0, 'cwd!8': 'Unit("!1!")', 'passive_server_present!43': True, 'pool_rest!5': 'Store(Store(K(Int, 15), 5, 21679), 9, 282)', 'pool_cnt0': 'Store(K(Int, 4), 5, 1323)', 'u_cur_home!7': 'Unit("!2!")', 'current_directory_done!17': True, 'restart_offset!34': 0, 'logged_present!37': False, 'passive_port!8': 5, 'logged_present!14': False, 'passive_server_present!20': True, 'port!30': 9, 'prio!29': 0, 'pool_rest!4': 'Store(K(Int, 4), 5, 1323)', 'u_cur_home!1': 'Unit("!3!")', 'current_directory_present!16': True, 'cwd!2': 'Unit("!0!")', 'block_size!0': 1, 'pool_size!5': 1, 'pool_rest!10': 'Store(Store(K(Int, 6), 8, 8945), 9, 15921)', 'pool_size!10': 0, 'user_done!36': False, 'pool_size!4': 0, 'restart_offset!11': 0, 'passive_server_done!44': True, 'logged_done!38': True, 'passive_server_done!21': True, 'logged_done!15': True, 'pool_cnt!10': 'Store(Store(K(Int, 6), 9, 15920), 8, 8944)', 'pool_cnt!4': 'Store(K(Int, 4), 5, 1322)', 'pool_cnt!5': 'Store(Store(K(Int, 15), 9, 282), 5, 21678)'}
SOLVER_NOTE = ''

print("obligation", OBLIGATION, "failed; no concrete failing input could be constructed automatically")
print("counter-model (may be spurious where string builtins are uninterpreted):")
for k, v in sorted(MODEL.items()):
    print("   ", k, "=", repr(v))
print("NOT-REPRODUCED no-failing-input-found")
