#!/venv/bin/python
# replay for obligation aioftp.server:Server.greeting#SEQ::<unit>/exit:I5-server-slot-ledger
# path: srv_value-is-None=0.AvailableConnections.acquire-outcome=1
# run: AIOFTP_REPO=/repo /venv/bin/python /verif/replays/C10_aioftp.server_Server.greeting_SEQ_unit_exit_I5-server-slot-ledger.py
import os, sys
sys.path.insert(0, os.path.join(os.environ.get("AIOFTP_REPO", "/repo"), "src"))
OBLIGATION = 'aioftp.server:Server.greeting#SEQ::<unit>/exit:I5-server-slot-ledger'
MODEL = {'block_size!0': 1, 'current_directory_done!17': True, 'current_directory_present!16': True, 'restart_offset!11': 0, 'value!32': 1, 'cwd!7': 'Empty(Seq(String))', 'srv_max!1': 0, 'u_cur_home!6': 'Empty(Seq(String))', 'srv_value!28': 0, 'logged_present!14': False, 'logged_done!15': True, 'srv_rest!9': 0, 'srv_value!29': 0, 'acquired!10': False}
SOLVER_NOTE = ''

print("obligation", OBLIGATION, "failed; no concrete failing input could be constructed automatically")
print("counter-model (may be spurious where string builtins are uninterpreted):")
for k, v in sorted(MODEL.items()):
    print("   ", k, "=", repr(v))
print("NOT-REPRODUCED no-failing-input-found")
