#!/venv/bin/python
# replay for obligation aioftp.server:Server.rnto#SEQ::PathConditions.__call__.<locals>.wrapper/backend:exists:authorised
# path: conn.rename_from-present=T.wait_for-outcome=0
# run: AIOFTP_REPO=/repo /venv/bin/python /verif/replays/C03_aioftp.server_Server.rnto_SEQ_PathConditions.__call__._locals_.wrapper_backend_exists_authorised.py
import os, sys
sys.path.insert(0, os.path.join(os.environ.get("AIOFTP_REPO", "/repo"), "src"))
OBLIGATION = 'aioftp.server:Server.rnto#SEQ::PathConditions.__call__.<locals>.wrapper/backend:exists:authorised'
MODEL = {'auth_ok!27': False, 'virtual!57': 'Unit("!3!")', 'u_cur_home!53': 'Unit("!1!")', 'rest!28': 'A', 'logged_done!14': False, 'cwd!54': 'Unit("!2!")', 'real!56': 'OPath!val!0', 'restart_offset!10': 0, 'u_cur_base!52': 'OPath!val!1', 'block_size!0': 1, 'user_present!11': True, 'rename_from_present!17': True, 'rename_from_done!18': True, 'user_done!12': True, 'current_directory_present!15': True, 'current_directory_done!16': True}
SOLVER_NOTE = ''

print("obligation", OBLIGATION, "failed; no concrete failing input could be constructed automatically")
print("counter-model (may be spurious where string builtins are uninterpreted):")
for k, v in sorted(MODEL.items()):
    print("   ", k, "=", repr(v))
print("NOT-REPRODUCED no-failing-input-found")
