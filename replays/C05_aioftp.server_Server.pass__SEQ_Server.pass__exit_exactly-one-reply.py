#!/venv/bin/python
# replay for obligation aioftp.server:Server.pass_#SEQ::Server.pass_/exit:exactly-one-reply
# path: conn.user-present=T.wait_for-outcome=1.if@15=F.wait_future_timeout-is-None=0
# run: AIOFTP_REPO=/repo /venv/bin/python /verif/replays/C05_aioftp.server_Server.pass__SEQ_Server.pass__exit_exactly-one-reply.py
import os, sys
sys.path.insert(0, os.path.join(os.environ.get("AIOFTP_REPO", "/repo"), "src"))
OBLIGATION = 'aioftp.server:Server.pass_#SEQ::Server.pass_/exit:exactly-one-reply'
MODEL = {'restart_offset!10': 0, 'block_size!0': 1, 'wait_future_timeout!32': '0/1', 'u_cur_home!49': 'Empty(Seq(String))', 'auth_ok!27': True, 'cwd!50': 'Empty(Seq(String))', 'logged_present!13': True, 'logged_done!14': True, 'user_present!11': True, 'user_done!12': True, 'current_directory_present!15': True, 'current_directory_done!16': True}
SOLVER_NOTE = ''

print("obligation", OBLIGATION, "failed; no concrete failing input could be constructed automatically")
print("counter-model (may be spurious where string builtins are uninterpreted):")
for k, v in sorted(MODEL.items()):
    print("   ", k, "=", repr(v))
print("NOT-REPRODUCED no-failing-input-found")
