#!/venv/bin/python
# replay for obligation aioftp.server:stor_worker@appe::stor_worker/exit:open-mode-is-wb-ab-or-r+b-exactly-when-restarting
# path: conn.logged-present=T.conn.passive_server-present=T.wait_for-outcome=0.conn.user-present=T.conn.user-done=T.if@6=F.backend.is_dir-fault=0.if@27=T.conn.data_connection-present=T.wait_future_timeout-is-None=0.cancel@wait_for(gather)=0.wait_for-outcome=0.conn.data_connection-done=T.and=T.cancel@backend._open=0.backend._open-fault=0.if@11=T.cancel@backend.seek=0.backend.seek-fault=0.cancel@reader.read=0.read-outcome=0.if@2=F.cancel@backend.close=0.backend.close-fault=0
# run: AIOFTP_REPO=/repo /venv/bin/python /verif/replays/C18_aioftp.server_stor_worker_appe_stor_worker_exit_open-mode-is-wb-ab-or-r_b-exactly-when-restarting.py
import os, sys
sys.path.insert(0, os.path.join(os.environ.get("AIOFTP_REPO", "/repo"), "src"))
OBLIGATION = 'aioftp.server:stor_worker@appe::stor_worker/exit:open-mode-is-wb-ab-or-r+b-exactly-when-restarting'
MODEL = {'block_size!0': 1, 'restart_offset!10': 1, 'chunk!105': '', 'rest!106': '', 'wait_future_timeout!48': '0/1', 'dc_accepted!38': True, 'data_connection_done!22': True, 'dc_accepted!50': False, 'dc_accepted!39': False, 'dc_accepted!35': False, 'dc_accepted!30': False, 'dc_accepted!34': False, 'dc_accepted!29': False, 'data_connection_present!21': False, 'user_present!11': True, 'current_directory_present!52': True, 'current_directory_present!41': True, 'current_directory_present!74': True, 'current_directory_done!99': True, 'current_directory_done!53': True, 'writable!33': True, 'current_directory_done!75': True, 'current_directory_done!16': True, 'passive_server_present!19': True, 'consumed!88': '', 'incoming!23': '', 'current_directory_present!63': True, 'current_directory_done!64': True, 'current_directory_present!98': True, 'user_done!12': True, 'fileW!90': '', 'passive_server_done!20': True, 'logged_done!14': True, 'fsbool!37': True, 'incoming!87': '', 'current_directory_done!111': True, 'current_directory_present!15': True, 'logged_present!13': True, 'current_directory_done!42': True, 'current_directory_present!110': True, 'auth_ok!27': True}
SOLVER_NOTE = ''

print("obligation", OBLIGATION, "failed; no concrete failing input could be constructed automatically")
print("counter-model (may be spurious where string builtins are uninterpreted):")
for k, v in sorted(MODEL.items()):
    print("   ", k, "=", repr(v))
print("NOT-REPRODUCED no-failing-input-found")
