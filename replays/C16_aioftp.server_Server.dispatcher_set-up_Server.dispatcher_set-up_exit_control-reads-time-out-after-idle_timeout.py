#!/venv/bin/python
# replay for obligation aioftp.server:Server.dispatcher/set-up::Server.dispatcher/set-up/exit:control-reads-time-out-after-idle_timeout
# path: idle_timeout-is-None=0.or=F.socket_timeout-is-None=0
# run: AIOFTP_REPO=/repo /venv/bin/python /verif/replays/C16_aioftp.server_Server.dispatcher_set-up_Server.dispatcher_set-up_exit_control-reads-time-out-after-idle_timeout.py
import os, sys
sys.path.insert(0, os.path.join(os.environ.get("AIOFTP_REPO", "/repo"), "src"))
OBLIGATION = 'aioftp.server:Server.dispatcher/set-up::Server.dispatcher/set-up/exit:control-reads-time-out-after-idle_timeout'
MODEL = {'socket_timeout!34': '0/1', 'block_size!0': 1, 'current_directory_done!16': True, 'restart_offset!10': 0, 'current_directory_present!15': True, 'u_cur_home!249': 'Empty(Seq(String))', 'logged_present!13': False, 'cwd!250': 'Empty(Seq(String))', 'logged_done!14': True, 'idle_timeout!33': '0/1'}
SOLVER_NOTE = ''

print("obligation", OBLIGATION, "failed; no concrete failing input could be constructed automatically")
print("counter-model (may be spurious where string builtins are uninterpreted):")
for k, v in sorted(MODEL.items()):
    print("   ", k, "=", repr(v))
print("NOT-REPRODUCED no-failing-input-found")
