#!/venv/bin/python
# replay for obligation aioftp.server:Server.rnto#SEQ::PathConditions.__call__.<locals>.wrapper/call:Server.get_paths/pre:user-and-cwd-set
# path: conn.rename_from-present=T.wait_for-outcome=0
# run: AIOFTP_REPO=/repo /venv/bin/python /verif/replays/C03_aioftp.server_Server.rnto_SEQ_PathConditions.__call__._locals_.wrapper_call_Server.get_paths_pre_user-and-cwd-set.py
import os, sys
sys.path.insert(0, os.path.join(os.environ.get("AIOFTP_REPO", "/repo"), "src"))
OBLIGATION = 'aioftp.server:Server.rnto#SEQ::PathConditions.__call__.<locals>.wrapper/call:Server.get_paths/pre:user-and-cwd-set'
MODEL = {'cwd!1258': 'Empty(Seq(String))', 'block_size!0': 1, 'current_directory_done!16': True, 'restart_offset!10': 0, 'current_directory_present!15': True, 'u_cur_home!1257': 'Empty(Seq(String))', 'logged_present!13': False, 'user_present!11': False, 'logged_done!14': True, 'rename_from_present!17': True, 'rename_from_done!18': True}
SOLVER_NOTE = ''

print("obligation", OBLIGATION, "failed; no concrete failing input could be constructed automatically")
print("counter-model (may be spurious where string builtins are uninterpreted):")
for k, v in sorted(MODEL.items()):
    print("   ", k, "=", repr(v))
print("NOT-REPRODUCED no-failing-input-found")
