#!/venv/bin/python
# replay for obligation aioftp.server:mlsd_worker@mlsd::worker.<locals>.wrapper/detach:takes-over-exactly-the-stream-it-read-atomically
# path: conn.logged-present=T.conn.passive_server-present=T.wait_for-outcome=0.backend.exists-fault=0.if@4=F.conn.user-present=T.conn.user-done=T.if@6=F.conn.data_connection-present=T.wait_future_timeout-is-None=0.cancel@wait_for(gather)=0.wait_for-outcome=0.conn.data_connection-done=T.cancel@backend.list.next=0.backend.list.next-fault=0.list-next=0.cancel@backend.exists=0.backend.exists-fault=0.if@1=T.cancel@backend.is_file=0.backend.is_file-fault=0.if@6=T.cancel@drain=0.drain-outcome=1
# run: AIOFTP_REPO=/repo /venv/bin/python /verif/replays/C14_aioftp.server_mlsd_worker_mlsd_worker._locals_.wrapper_detach_takes-over-exactly-the-stream-it-read-atomically.py
import os, sys
sys.path.insert(0, os.path.join(os.environ.get("AIOFTP_REPO", "/repo"), "src"))
OBLIGATION = 'aioftp.server:mlsd_worker@mlsd::worker.<locals>.wrapper/detach:takes-over-exactly-the-stream-it-read-atomically'
MODEL = {'restart_offset!10': 0, 'wait_future_timeout!48': '0/1', 'data_connection_done!22': True, 'dc_accepted!38': True, 'child!56': 'OPath!val!0', 'block_size!0': 1, 'dc_accepted!50': False, 'dc_accepted!39': False, 'dc_accepted!33': False, 'dc_accepted!30': False, 'dc_accepted!32': False, 'dc_accepted!29': False, 'data_connection_present!21': False, 'user_present!11': True, 'user_done!12': True, 'fsbool!35': True, 'current_directory_present!90': True, 'current_directory_present!52': True, 'current_directory_present!41': True, 'passive_server_done!20': True, 'logged_done!14': True, 'current_directory_done!80': True, 'current_directory_done!53': True, 'current_directory_done!103': True, 'current_directory_done!16': True, 'current_directory_present!102': True, 'current_directory_present!15': True, 'readable!36': True, 'passive_server_present!19': True, 'current_directory_present!79': True, 'logged_present!13': True, 'fsbool!97': True, 'current_directory_present!69': True, 'current_directory_done!42': True, 'current_directory_done!70': True, 'current_directory_done!91': True, 'fsbool!86': False, 'auth_ok!27': True}
SOLVER_NOTE = ''

print("obligation", OBLIGATION, "failed; no concrete failing input could be constructed automatically")
print("counter-model (may be spurious where string builtins are uninterpreted):")
for k, v in sorted(MODEL.items()):
    print("   ", k, "=", repr(v))
print("NOT-REPRODUCED no-failing-input-found")
