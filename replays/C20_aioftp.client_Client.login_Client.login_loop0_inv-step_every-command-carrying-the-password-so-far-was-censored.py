#!/venv/bin/python
# replay for obligation aioftp.client:Client.login::Client.login/loop0/inv-step:every-command-carrying-the-password-so-far-was-censored
# path: BaseClient.command-outcome=0.ifexp=F.all=T.all=T.if@26=T.BaseClient.command-outcome=0
# run: AIOFTP_REPO=/repo /venv/bin/python /verif/replays/C20_aioftp.client_Client.login_Client.login_loop0_inv-step_every-command-carrying-the-password-so-far-was-censored.py
import os, sys
sys.path.insert(0, os.path.join(os.environ.get("AIOFTP_REPO", "/repo"), "src"))
OBLIGATION = 'aioftp.client:Client.login::Client.login/loop0/inv-step:every-command-carrying-the-password-so-far-was-censored'
MODEL = {'reply_code!3': '000', 'reply_code!5': '000', 'reply_code!4': '331'}
SOLVER_NOTE = ''

print("obligation", OBLIGATION, "failed; no concrete failing input could be constructed automatically")
print("counter-model (may be spurious where string builtins are uninterpreted):")
for k, v in sorted(MODEL.items()):
    print("   ", k, "=", repr(v))
print("NOT-REPRODUCED no-failing-input-found")
