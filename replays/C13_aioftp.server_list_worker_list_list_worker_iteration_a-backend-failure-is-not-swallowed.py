#!/venv/bin/python
# replay for obligation aioftp.server:list_worker@list::list_worker/iteration:a-backend-failure-is-not-swallowed
# path: conn.logged-present=T.conn.passive_server-present=T.wait_for-outcome=0.backend.exists-fault=0.if@4=F.conn.user-present=T.conn.user-done=T.if@6=F.conn.data_connection-present=T.wait_future_timeout-is-None=0.cancel@wait_for(gather)=0.wait_for-outcome=0.conn.data_connection-done=T.cancel@backend.list.next=0.backend.list.next-fault=0.list-next=0.cancel@backend.stat=0.backend.stat-fault=1
# run: AIOFTP_REPO=/repo /venv/bin/python /verif/replays/C13_aioftp.server_list_worker_list_list_worker_iteration_a-backend-failure-is-not-swallowed.py
import os, sys
sys.path.insert(0, os.path.join(os.environ.get("AIOFTP_REPO", "/repo"), "src"))
OBLIGATION = 'aioftp.server:list_worker@list::list_worker/iteration:a-backend-failure-is-not-swallowed'
MODEL = {'data_connection_present!21': True, 'block_size!0': 1, 'wait_future_timeout!48': '0/1', 'restart_offset!10': 0, 'data_connection_done!22': True, 'dc_accepted!39': False, 'dc_accepted!50': False, 'dc_accepted!33': False, 'dc_accepted!30': False, 'dc_accepted!38': False, 'dc_accepted!32': False, 'dc_accepted!29': False, 'user_present!11': True, 'user_done!12': True, 'fsbool!35': True, 'current_directory_present!52': True, 'current_directory_present!41': True, 'current_directory_done!81': True, 'passive_server_done!20': True, 'logged_done!14': True, 'current_directory_done!53': True, 'current_directory_done!16': True, 'current_directory_present!80': True, 'current_directory_present!15': True, 'readable!36': True, 'passive_server_present!19': True, 'logged_present!13': True, 'current_directory_done!71': True, 'current_directory_done!42': True, 'current_directory_present!70': True, 'auth_ok!27': True}
SOLVER_NOTE = ''

print("obligation", OBLIGATION, "failed; no concrete failing input could be constructed automatically")
print("counter-model (may be spurious where string builtins are uninterpreted):")
for k, v in sorted(MODEL.items()):
    print("   ", k, "=", repr(v))
print("NOT-REPRODUCED no-failing-input-found")
