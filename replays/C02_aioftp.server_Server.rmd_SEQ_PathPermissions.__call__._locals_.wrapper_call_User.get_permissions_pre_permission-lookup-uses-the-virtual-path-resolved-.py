#!/venv/bin/python
# replay for obligation aioftp.server:Server.rmd#SEQ::PathPermissions.__call__.<locals>.wrapper/call:User.get_permissions/pre:permission-lookup-uses-the-virtual-path-resolved-by-get_paths
# path: conn.logged-present=T.wait_for-outcome=0.backend.exists-fault=0.if@4=F.backend.is_dir-fault=0.if@4=F.conn.current_directory-present=T.conn.current_directory-done=T.join-abs=T.conn.user-present=T.conn.user-done=T
# run: AIOFTP_REPO=/repo /venv/bin/python /verif/replays/C02_aioftp.server_Server.rmd_SEQ_PathPermissions.__call__._locals_.wrapper_call_User.get_permissions_pre_permission-lookup-uses-the-virtual-path-resolved-.py
import os, sys
sys.path.insert(0, os.path.join(os.environ.get("AIOFTP_REPO", "/repo"), "src"))
OBLIGATION = 'aioftp.server:Server.rmd#SEQ::PathPermissions.__call__.<locals>.wrapper/call:User.get_permissions/pre:permission-lookup-uses-the-virtual-path-resolved-by-get_paths'
MODEL = {'restart_offset!10': 0, 'cwd!66': 'Unit("!2!")', 'virtual!69': 'Empty(Seq(String))', 'rest!28': '/', 'real!68': 'OPath!val!0', 'u_cur_base!64': 'OPath!val!0', 'u_cur_home!65': 'Unit("!1!")', 'block_size!0': 1, 'user_present!11': True, 'fsbool!35': True, 'user_done!12': True, 'current_directory_present!15': True, 'current_directory_done!16': True, 'logged_present!13': True, 'logged_done!14': True, 'fsbool!39': True, 'auth_ok!27': True}
SOLVER_NOTE = ''

print("obligation", OBLIGATION, "failed; no concrete failing input could be constructed automatically")
print("counter-model (may be spurious where string builtins are uninterpreted):")
for k, v in sorted(MODEL.items()):
    print("   ", k, "=", repr(v))
print("NOT-REPRODUCED no-failing-input-found")
