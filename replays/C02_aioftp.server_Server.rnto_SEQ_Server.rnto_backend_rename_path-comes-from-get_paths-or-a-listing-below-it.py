#!/venv/bin/python
# replay for obligation aioftp.server:Server.rnto#SEQ::Server.rnto/backend:rename:path-comes-from-get_paths-or-a-listing-below-it
# path: conn.logged-present=T.conn.rename_from-present=T.wait_for-outcome=0.backend.exists-fault=0.if@4=F.conn.user-present=T.conn.user-done=T.if@6=F.conn.rename_from-done=T
# run: AIOFTP_REPO=/repo /venv/bin/python /verif/replays/C02_aioftp.server_Server.rnto_SEQ_Server.rnto_backend_rename_path-comes-from-get_paths-or-a-listing-below-it.py
import os, sys
sys.path.insert(0, os.path.join(os.environ.get("AIOFTP_REPO", "/repo"), "src"))
OBLIGATION = 'aioftp.server:Server.rnto#SEQ::Server.rnto/backend:rename:path-comes-from-get_paths-or-a-listing-below-it'
MODEL = {}
SOLVER_NOTE = 'cvc5=unknown z3=unknown counter-model of the cone-of-influence slice (0 of 66 assumptions)'

print("obligation", OBLIGATION, "failed; no concrete failing input could be constructed automatically")
print("counter-model (may be spurious where string builtins are uninterpreted):")
for k, v in sorted(MODEL.items()):
    print("   ", k, "=", repr(v))
print("NOT-REPRODUCED no-failing-input-found")
