#!/venv/bin/python
# replay for obligation aioftp.server:Server.dispatcher/for-task-in-done::Server.dispatcher/for-task-in-done/exit:a-failed-task-must-not-be-swallowed
# path: finished-task-kind=8
# run: AIOFTP_REPO=/repo /venv/bin/python /verif/replays/C16_aioftp.server_Server.dispatcher_for-task-in-done_Server.dispatcher_for-task-in-done_exit_a-failed-task-must-not-be-swallowed.py
import os, sys
sys.path.insert(0, os.path.join(os.environ.get("AIOFTP_REPO", "/repo"), "src"))
OBLIGATION = 'aioftp.server:Server.dispatcher/for-task-in-done::Server.dispatcher/for-task-in-done/exit:a-failed-task-must-not-be-swallowed'
MODEL = {'logged_done!14': True, 'logged_present!13': True, 'user_present!11': True, 'current_directory_present!15': True, 'auth_ok!27': True, 'user_done!12': True, 'block_size!0': 1, 'restart_offset!10': 0, 'current_directory_done!16': True}
SOLVER_NOTE = ''

print("obligation", OBLIGATION, "failed; no concrete failing input could be constructed automatically")
print("counter-model (may be spurious where string builtins are uninterpreted):")
for k, v in sorted(MODEL.items()):
    print("   ", k, "=", repr(v))
print("NOT-REPRODUCED no-failing-input-found")
