#!/venv/bin/python
# replay for obligation aioftp.server:Server._start_passive_server::Server._start_passive_server/suspend:I7-port-ledger
# path: data-ports-configured=0.pool-nonempty=T
# run: AIOFTP_REPO=/repo /venv/bin/python /verif/replays/C11_aioftp.server_Server._start_passive_server_Server._start_passive_server_suspend_I7-port-ledger.py
import os, sys
sys.path.insert(0, os.path.join(os.environ.get("AIOFTP_REPO", "/repo"), "src"))
OBLIGATION = 'aioftp.server:Server._start_passive_server::Server._start_passive_server/suspend:I7-port-ledger'
MODEL = {'logged_present!14': False, 'cwd!2': 'Unit("!1!")', 'passive_server_present!20': True, 'pool_size!4': 1, 'user_done!13': False, 'pool_cnt0': 'Store(K(Int, 4), 5, 281)', 'pool_size!1': 0, 'block_size!0': 1, 'prio!29': 0, 'passive_port!8': 5, 'port!30': 5, 'restart_offset!11': 0, 'pool_rest!4': 'Store(K(Int, 4), 5, 283)', 'u_cur_home!1': 'Unit("!0!")', 'passive_server_done!21': True, 'logged_done!15': True, 'pool_cnt!4': 'Store(K(Int, 4), 5, 282)'}
SOLVER_NOTE = ''

print("obligation", OBLIGATION, "failed; no concrete failing input could be constructed automatically")
print("counter-model (may be spurious where string builtins are uninterpreted):")
for k, v in sorted(MODEL.items()):
    print("   ", k, "=", repr(v))
print("NOT-REPRODUCED no-failing-input-found")
