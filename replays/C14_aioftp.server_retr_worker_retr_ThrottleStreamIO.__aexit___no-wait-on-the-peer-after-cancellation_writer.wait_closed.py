#!/venv/bin/python
# replay for obligation aioftp.server:retr_worker@retr::ThrottleStreamIO.__aexit__/no-wait-on-the-peer-after-cancellation:writer.wait_closed
# path: conn.logged-present=T.conn.passive_server-present=T.wait_for-outcome=0.backend.exists-fault=0.if@4=F.backend.is_file-fault=0.if@4=F.conn.user-present=T.conn.user-done=T.if@6=F.conn.data_connection-present=T.wait_future_timeout-is-None=0.cancel@wait_for(gather)=0.wait_for-outcome=0.conn.data_connection-done=T.cancel@backend._open=0.backend._open-fault=0.if@5=T.cancel@backend.seek=0.backend.seek-fault=0.cancel@backend.read=0.backend.read-fault=0.if@2=T.cancel@drain=0.drain-outcome=1.cancel@backend.close=1
# run: AIOFTP_REPO=/repo /venv/bin/python /verif/replays/C14_aioftp.server_retr_worker_retr_ThrottleStreamIO.__aexit___no-wait-on-the-peer-after-cancellation_writer.wait_closed.py
import os, sys
sys.path.insert(0, os.path.join(os.environ.get("AIOFTP_REPO", "/repo"), "src"))
OBLIGATION = 'aioftp.server:retr_worker@retr::ThrottleStreamIO.__aexit__/no-wait-on-the-peer-after-cancellation:writer.wait_closed'
MODEL = {'restart_offset!10': 1, 'dc_accepted!36': True, 'wait_future_timeout!52': '0/1', 'block_size!0': 1, 'data_connection_done!22': True, 'file_before!74': 'BA', 'filedone!95': '', 'filerest!109': '', 'filedata!108': 'A', 'dc_accepted!54': False, 'dc_accepted!43': False, 'dc_accepted!33': False, 'dc_accepted!37': False, 'dc_accepted!30': False, 'dc_accepted!32': False, 'dc_accepted!42': False, 'dc_accepted!29': False, 'data_connection_present!21': False, 'user_present!11': True, 'current_directory_done!79': True, 'current_directory_done!46': True, 'current_directory_done!57': True, 'current_directory_done!16': True, 'passive_server_present!19': True, 'current_directory_present!78': True, 'current_directory_present!114': True, 'written!93': '', 'readable!40': True, 'current_directory_present!67': True, 'current_directory_present!56': True, 'user_done!12': True, 'fsbool!35': True, 'current_directory_done!115': True, 'current_directory_present!124': True, 'passive_server_done!20': True, 'logged_done!14': True, 'fsbool!39': True, 'current_directory_done!102': True, 'current_directory_present!45': True, 'current_directory_present!101': True, 'current_directory_done!68': True, 'fileremaining!96': 'A', 'current_directory_present!15': True, 'logged_present!13': True, 'current_directory_done!125': True, 'auth_ok!27': True}
SOLVER_NOTE = ''

print("obligation", OBLIGATION, "failed; no concrete failing input could be constructed automatically")
print("counter-model (may be spurious where string builtins are uninterpreted):")
for k, v in sorted(MODEL.items()):
    print("   ", k, "=", repr(v))
print("NOT-REPRODUCED no-failing-input-found")
