#!/venv/bin/python
# replay for obligation aioftp.server:Server.pasv#SEQ::Server.pasv/exit:exactly-one-reply
# path: data-ports-configured=0.conn.logged-present=T.wait_for-outcome=1.if@15=F.wait_future_timeout-is-None=0
# run: AIOFTP_REPO=/repo /venv/bin/python /verif/replays/C05_aioftp.server_Server.pasv_SEQ_Server.pasv_exit_exactly-one-reply.py
import os, sys
sys.path.insert(0, os.path.join(os.environ.get("AIOFTP_REPO", "/repo"), "src"))
OBLIGATION = 'aioftp.server:Server.pasv#SEQ::Server.pasv/exit:exactly-one-reply'
MODEL = {'passive_server_present!20': True, 'pool_size!293': 0, 'pool_size!1': 0, 'pool_size!292': 0, 'block_size!0': 1, 'restart_offset!11': 0, 'wait_future_timeout!33': '0/1', 'u_cur_home!289': 'Unit("!1!")', 'passive_port!8': 5, 'cwd!290': 'Unit("!0!")', 'pool_rest!292': 'Store(K(Int, 4), 5, 28100)', 'pool_cnt0': 'Store(K(Int, 6), 5, 8854)', 'pool_rest!293': 'Store(K(Int, 6), 5, 8855)', 'passive_server_done!21': True, 'user_done!13': True, 'user_present!12': True, 'current_directory_done!17': True, 'auth_ok!28': True, 'logged_done!15': True, 'current_directory_present!16': True, 'logged_present!14': True, 'pool_cnt!292': 'Store(K(Int, 4), 5, 28099)', 'pool_cnt!293': 'Store(K(Int, 6), 5, 8854)'}
SOLVER_NOTE = ''

print("obligation", OBLIGATION, "failed; no concrete failing input could be constructed automatically")
print("counter-model (may be spurious where string builtins are uninterpreted):")
for k, v in sorted(MODEL.items()):
    print("   ", k, "=", repr(v))
print("NOT-REPRODUCED no-failing-input-found")
