#!/venv/bin/python
# replay for obligation aioftp.common:ThrottleStreamIO.wait::ThrottleStreamIO.wait/post:every-limited-throttle-of-the-direction-is-within-its-bound-on-return
# path: throttle-levels=1.direction=0.r0_limit-is-None=0.r0_start-is-None=0.r1_limit-is-None=0.r1_start-is-None=0.compif=T.compif=T.minmax=T.and=T.div0=T.minmax=T
# run: AIOFTP_REPO=/repo /venv/bin/python /verif/replays/C15_aioftp.common_ThrottleStreamIO.wait_ThrottleStreamIO.wait_post_every-limited-throttle-of-the-direction-is-within-its-bound-on-return.py
import os, sys
sys.path.insert(0, os.path.join(os.environ.get("AIOFTP_REPO", "/repo"), "src"))
OBLIGATION = 'aioftp.common:ThrottleStreamIO.wait::ThrottleStreamIO.wait/post:every-limited-throttle-of-the-direction-is-within-its-bound-on-return'
MODEL = {'r0_sum!1': 1, 'w1_reset_rate!17': '1/1', 'r0_B!3': 0, 'r1_sum!13': -2, 'r1_t0!14': '21/16', 'r1_B!15': 0, 'r1_rho!16': '25525/12784', 'r1_reset_rate!12': '1/1', 'clock!25': '-5/4', 'r0_rho!4': '0/1', 'r1_limit!22': '1021/799', 'r0_start!11': '1199/2397', 'r0_reset_rate!0': '1/1', 'r0_limit!10': '1154/799', 'r1_start!23': '5371/4084', 'r0_t0!2': '-133/799', 'clock!26': '-1/4', 'w0_reset_rate!5': '1/1'}
SOLVER_NOTE = ''

print("obligation", OBLIGATION, "failed; no concrete failing input could be constructed automatically")
print("counter-model (may be spurious where string builtins are uninterpreted):")
for k, v in sorted(MODEL.items()):
    print("   ", k, "=", repr(v))
print("NOT-REPRODUCED no-failing-input-found")
