#!/venv/bin/python
# replay for obligation aioftp.common:ThrottleStreamIO.wait::ThrottleStreamIO.wait/post:every-limited-throttle-of-the-direction-is-within-its-bound-on-return
# path: throttle-levels=1.direction=0.r0_limit-is-None=0.r0_start-is-None=0.r1_limit-is-None=0.r1_start-is-None=0.compif=T.compif=T.minmax=T.and=T.div0=T.minmax=T
# run: AIOFTP_REPO=/repo /venv/bin/python /verif/replays/C15_aioftp.common_ThrottleStreamIO.wait_ThrottleStreamIO.wait_post_every-limited-throttle-of-the-direction-is-within-its-bound-on-return.py
import os, sys
sys.path.insert(0, os.path.join(os.environ.get("AIOFTP_REPO", "/repo"), "src"))
OBLIGATION = 'aioftp.common:ThrottleStreamIO.wait::ThrottleStreamIO.wait/post:every-limited-throttle-of-the-direction-is-within-its-bound-on-return'
MODEL = {'r0_sum!1': 0, 'w1_reset_rate!17': '1/1', 'r0_B!3': 0, 'r1_sum!13': 0, 'r1_t0!14': '-3/8', 'r1_B!15': 0, 'r1_rho!16': '0/1', 'r1_reset_rate!12': '1/1', 'clock!25': '-11/8', 'r0_rho!4': '0/1', 'r1_limit!22': '4/3', 'r0_start!11': '0/1', 'r0_reset_rate!0': '1/1', 'r0_limit!10': '41/24', 'r1_start!23': '-3/8', 'r0_t0!2': '0/1', 'clock!26': '-3/8', 'w0_reset_rate!5': '1/1'}
SOLVER_NOTE = ''

print("obligation", OBLIGATION, "failed; no concrete failing input could be constructed automatically")
print("counter-model (may be spurious where string builtins are uninterpreted):")
for k, v in sorted(MODEL.items()):
    print("   ", k, "=", repr(v))
print("NOT-REPRODUCED no-failing-input-found")
