# design-time sanity: C19 exception sets of listing parsers; C08 command-argument round trip; C20 log capture
import asyncio, random, logging, io, pathlib, collections
import aioftp
rnd = random.Random(3)
SEEDS = [b"-rw-rw-r--  1 poh  poh   6595 Feb 27 04:14 history.rst", b"lrwxrwxrwx  1 poh  poh      6 Mar 23 05:46 link-tmp.py -> tmp.py",
         b"drw-rw-r--  1 poh  poh   6595 Jan 03 2016  changes.rst", b"-rw-rw-r-- 1 none none 5 Feb 29 12:00 x", b"-rw-rw-r-- 1 none none 5 Feb 29  2100 x",
         b"10/19/2016  02:07 PM    <DIR>          folder", b"07/22/2021  11:01 AM             1,234 file.txt", b"Dec 31 23:59", b""]
TOK = [b" ", b"  ", b"-", b">", b"M", b"Feb 29", b"\xff", b"\xc2\xb2", b"9999", b"0", b"/", b"'", b'"', b":", b"<DIR>", b"PM", b"\xd9\xa3", b"\r\n", b"l", b"d"]
def mutate(b):
    b = bytearray(b)
    for _ in range(rnd.randrange(1, 4)):
        op = rnd.randrange(4); i = rnd.randrange(len(b) + 1)
        if op == 0 and b: del b[rnd.randrange(len(b))]
        elif op == 1: b[i:i] = rnd.choice(TOK)
        elif op == 2 and b: b[rnd.randrange(len(b))] = rnd.randrange(256)
        else: b = b[:i]
    return bytes(b)
def c19(n=200000):
    c = aioftp.Client(); kinds = collections.Counter()
    for _ in range(n):
        line = mutate(rnd.choice(SEEDS))
        for name in ("parse_list_line", "parse_list_line_unix", "parse_list_line_windows"):
            try: getattr(c, name)(line)
            except (ValueError, KeyError, IndexError) as e:
                if name == "parse_list_line" and type(e) is not ValueError: kinds[(name, type(e).__name__, line)] += 1
            except Exception as e: kinds[(name, type(e).__name__, line)] += 1
    print("C19 unexpected exception classes:", list(kinds.items())[:5] or "none", "in", n, "mutants")
async def c08_c20():
    buf = io.StringIO(); h = logging.StreamHandler(buf); h.setLevel(logging.DEBUG)
    for lg in ("aioftp.client", "aioftp.server", ""):
        logging.getLogger(lg).addHandler(h); logging.getLogger(lg).setLevel(logging.DEBUG)
    pws = ["p w", " lead", "%s%d", "ünï", "x", "a  b", "PASS", "pass pass", "'q\"", "%(name)s"]
    users = [aioftp.User("u%d" % i, pw) for i, pw in enumerate(pws)]
    srv = aioftp.Server(users, path_io_factory=aioftp.MemoryPathIO); await srv.start("127.0.0.1", 0)
    leaks = 0
    for i, pw in enumerate(pws):
        for attempt in (pw, pw + "WRONG!"):
            c = aioftp.Client(); await c.connect(*srv.address)
            try: await c.login("u%d" % i, attempt)
            except aioftp.StatusCodeError: pass
            c.close()
    text = buf.getvalue()
    for pw in pws:
        if len(pw) > 1 and pw not in ("PASS",) and pw in text: leaks += 1; print("C20 leak of", repr(pw))
    print("C20 passwords found in", len(text.splitlines()), "log lines:", leaks)
    # C08 lemma 1 + PWD/MLST for names without a double quote
    c = aioftp.Client(path_io_factory=aioftp.MemoryPathIO); await c.connect(*srv.address); await c.login("u4", "x")
    bad = 0; alph = ['a', ' ', '-', ';', '=', '1', '2', '0', 'é', '%', '\\', '.', "'", '→', '\U0001F600']
    for k in range(300):
        name = ''.join(rnd.choice(alph) for _ in range(rnd.randrange(1, 6))).rstrip()
        if not name or name in (".", ".."): continue
        await c.make_directory(name); await c.change_directory(name)
        cwd = await c.get_current_directory(); await c.change_directory("/")
        st = await c.stat(name); names = [str(p) for p, i in await c.list()]
        if cwd != pathlib.PurePosixPath("/") / name or st["type"] != "dir" or names != [name]:
            bad += 1; print("C08 mismatch", repr(name), cwd, names)
        await c.remove(name)
    print("C08 MKD/CWD/PWD/MLST/MLSD/RMD name transparency (no quotes): bad =", bad)
    await c.quit(); await srv.close()
c19(); asyncio.run(c08_c20())
