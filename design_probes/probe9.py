# C08: LIST fallback loses leading spaces of a name; C15: rounding slack in Throttle reset
import asyncio, pathlib
import aioftp
P = pathlib.PurePosixPath
async def c08():
    srv = aioftp.Server(path_io_factory=aioftp.MemoryPathIO)
    await srv.start("127.0.0.1", 0)
    c = aioftp.Client(); await c.connect(*srv.address); await c.login()
    await c.make_directory(" lead")
    print("MLSD:", [str(p) for p, i in await c.list()], " LIST:", [str(p) for p, i in await c.list(raw_command="LIST")])
    await c.quit(); await srv.close()
def c15():
    # virtual clock trace: limit 1 B/s, reset_rate 10, blocks of 5 bytes
    t = aioftp.Throttle(limit=1, reset_rate=10)
    clock = 0.0; moved = 0; t0 = None
    def wait_until():
        if t._start is None: return clock
        return max(clock, t._start + t._sum / t._limit)
    trace = []
    for gap in (0.0, 10.6, 0.0, 0.0, 0.0):
        clock = max(wait_until(), clock + gap)      # peer may be slower than the throttle (idle gap)
        if t0 is None: t0 = clock
        t.append(b"x" * 5, clock); moved += 5
        trace.append((round(clock, 3), moved, round(1 * (clock - t0) + 5, 3)))
    print("C15 (time, bytes moved incl. block in flight, L*(t-t0)+block):", trace)
    print("   excess:", [round(m - b, 3) for _, m, b in trace])
asyncio.run(c08()); c15()
