import asyncio, pathlib, logging, sys
import aioftp
from rawc import raw
P = pathlib.PurePosixPath
async def pasv_connect(cmd, h):
    line = (await cmd("PASV"))[0]
    ip, port = aioftp.Client.parse_pasv_response(line)
    return await asyncio.open_connection(h, port)

class SpyIO(aioftp.MemoryPathIO):
    calls = []
    fail_open = False
    async def is_dir(self, path):
        SpyIO.calls.append(("is_dir", str(path))); return await super().is_dir(path)
    async def _open(self, path, mode="rb", *a, **k):
        if SpyIO.fail_open: raise aioftp.PathIOError("boom")
        return await super()._open(path, mode, *a, **k)

async def main():
    srv = aioftp.Server([aioftp.User(base_path="/base")], path_io_factory=SpyIO, data_ports=[40123])
    await srv.start("127.0.0.1", 0)
    pio = srv.path_io_factory()
    await pio.mkdir(P("/base"))
    async with pio.open(P("/base/f"), "wb") as f: await f.write(b"0123456789")
    async with pio.open(P("/base/g"), "wb") as f: await f.write(b"abcdefghij")
    h, p = srv.address
    r, w, cmd = await raw(h, p)
    print(await cmd(None)); print(await cmd("USER anonymous"))
    # 7. REST persists across two transfers
    dr, dw = await pasv_connect(cmd, h)
    print(await cmd("REST 5")); print(await cmd("RETR f", 2)); print("data1:", await dr.read())
    dr, dw = await asyncio.open_connection(h, 40123)   # reconnect same passive listener, no PASV
    await asyncio.sleep(0.1)
    print(await cmd("RETR g", 2)); print("data2 (should be whole file):", await dr.read())
    # 8. STOR at root
    SpyIO.calls.clear()
    dr, dw = await pasv_connect(cmd, h)
    print(await cmd("STOR /", 1)); print("calls:", SpyIO.calls)
    dw.close()
    print(await cmd(None, 1))
    # 3. failing open: is data socket closed?
    SpyIO.fail_open = True
    dr, dw = await pasv_connect(cmd, h)
    print(await cmd("RETR f", 2))
    try:
        d = await asyncio.wait_for(dr.read(), 1.5); print("data EOF got:", d)
    except asyncio.TimeoutError:
        print("data socket NOT closed by server after 451 (client would hang)")
    SpyIO.fail_open = False
    print("follow-up:", await cmd("SYST"))
    w.close(); await asyncio.sleep(0.1)
    print("pool after session end:", srv.available_data_ports.qsize())
    # 4. port lost on cancellation inside start_server
    real_start = asyncio.start_server
    ev = asyncio.Event()
    async def slow_start(*a, **k):
        await asyncio.sleep(0.3)
        return await real_start(*a, **k)
    asyncio.start_server = slow_start
    r, w, cmd = await raw(h, p)
    print(await cmd(None)); print(await cmd("USER anonymous"))
    w.write(b"PASV\r\n"); await w.drain(); await asyncio.sleep(0.05); w.close()
    await asyncio.sleep(0.6)
    asyncio.start_server = real_start
    print("pool after disconnect during PASV start-up:", srv.available_data_ports.qsize(), "(configured 1)")
    await srv.close()
asyncio.run(main())
