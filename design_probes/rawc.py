import asyncio, pathlib, logging, sys
import aioftp

async def raw(host, port):
    r, w = await asyncio.open_connection(host, port)
    async def cmd(line, n=1):
        if line is not None:
            w.write((line + "\r\n").encode()); await w.drain()
        out = []
        for _ in range(n):
            try:
                l = await asyncio.wait_for(r.readline(), 1.5)
            except asyncio.TimeoutError:
                out.append("<timeout>"); break
            out.append(l.decode().rstrip() if l else "<EOF>")
        return out
    return r, w, cmd

