import asyncio, pathlib, sys
import aioftp
from rawc import raw
P = pathlib.PurePosixPath
async def main():
    srv = aioftp.Server(path_io_factory=aioftp.MemoryPathIO, wait_future_timeout=2)
    await srv.start("127.0.0.1", 0)
    pio = srv.path_io_factory()
    async with pio.open(P("/f"), "wb") as f: await f.write(b"0123456789")
    h, p = srv.address
    r, w, cmd = await raw(h, p)
    print(await cmd(None)); print(await cmd("USER anonymous"))
    print(await cmd("PASV"))
    print(await cmd("RETR f"))
    print("ABOR before data connection:", await cmd("ABOR", 2))
    print("follow-up:", await cmd("SYST"))
    await srv.close()
asyncio.run(main())
