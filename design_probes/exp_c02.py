# feasibility: loop-step VC for get_paths fold over Seq(Part)
from z3 import *
import time
Part = DeclareSort('Part')
DD = Const('DD', Part)
SP = SeqSort(Part)
def nodd(s):
    i = Int('i!q')
    return ForAll([i], Implies(And(0 <= i, i < Length(s)), s[i] != DD))
def parent(s):
    return If(Length(s) > 0, SubSeq(s, 0, Length(s)-1), s)
norm = Function('norm', SP, SP)   # spec: left fold
def step(acc, x):
    return If(x == DD, parent(acc), Concat(acc, Unit(x)))

parts = Const('parts', SP); k = Int('k'); res = Const('res', SP)
# invariant at loop head: 0<=k<=len, res == norm(parts[:k]), nodd(res)
inv = And(0 <= k, k <= Length(parts), res == norm(SubSeq(parts,0,k)), nodd(res))
x = parts[k]
res2 = step(res, x)
# definitional instance of norm at (parts[:k], x)
defn = norm(Concat(SubSeq(parts,0,k), Unit(x))) == step(norm(SubSeq(parts,0,k)), x)
lemma = SubSeq(parts,0,k+1) == Concat(SubSeq(parts,0,k), Unit(x))
for name, goal in [("inv-norm", res2 == norm(SubSeq(parts,0,k+1))), ("inv-nodd", nodd(res2)), ("lemma-prefix", lemma)]:
    s = Solver(); s.set('timeout', 20000)
    s.add(inv, k < Length(parts))
    if name != "lemma-prefix": s.add(defn)
    s.add(Not(goal))
    t=time.time(); r = s.check(); print(name, r, round(time.time()-t,2))
print("--- with lemma as hint")
s = Solver(); s.set('timeout', 20000)
s.add(inv, k < Length(parts), defn, lemma, Not(res2 == norm(SubSeq(parts,0,k+1))))
t=time.time(); r = s.check(); print("inv-norm+lemma", r, round(time.time()-t,2))
# alternative: avoid seq-of-parts slicing: index-free encoding with ghost prefix variable
pre = Const('pre', SP); rest = Const('rest', SP)
s = Solver(); s.set('timeout', 20000)
# ghost: parts == pre ++ rest ; res == norm(pre); step consumes head of rest
s.add(parts == Concat(pre, rest), res == norm(pre), Length(rest) > 0)
h = rest[0]
s.add(norm(Concat(pre, Unit(h))) == step(norm(pre), h))
pre2 = Concat(pre, Unit(h)); rest2 = SubSeq(rest, 1, Length(rest)-1)
s.add(Not(And(parts == Concat(pre2, rest2), step(res,h) == norm(pre2))))
t=time.time(); r = s.check(); print("ghost-prefix", r, round(time.time()-t,2))
