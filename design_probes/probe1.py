import asyncio, pathlib, logging, sys
import aioftp
from rawc import raw

async def main():
    srv = aioftp.Server([aioftp.User("a", "pw", base_path="/A"), aioftp.User("b", "pw2", base_path="/B"), aioftp.User()], path_io_factory=aioftp.MemoryPathIO)
    await srv.start("127.0.0.1", 0)
    pio = srv.path_io_factory()
    await pio.mkdir(pathlib.PurePosixPath("/A")); await pio.mkdir(pathlib.PurePosixPath("/B"))
    async with pio.open(pathlib.PurePosixPath("/A/secret"), "wb") as f: await f.write(b"topsecret")
    h, p = srv.address
    # 1. REST with superscript two
    r, w, cmd = await raw(h, p)
    print(await cmd(None)); print(await cmd("USER anonymous"))
    print("REST ²:", await cmd("REST ²"), await cmd("SYST"))
    w.close()
    # 2. RNFR as a, relogin b, RNTO
    r, w, cmd = await raw(h, p)
    print(await cmd(None)); print(await cmd("USER a")); print(await cmd("PASS pw"))
    print(await cmd("RNFR /secret")); print(await cmd("USER b")); print(await cmd("PASS pw2"))
    print("RNTO:", await cmd("RNTO /stolen"))
    print("fs:", pio.fs)
    # 3. PWD quote
    print(await cmd('MKD /q"x')); print(await cmd('CWD /q"x')); print("PWD:", await cmd("PWD"))
    c = aioftp.Client.parse_directory_response((await cmd("PWD"))[0][4:])
    print("client parsed:", c)
    # 4. epsv arg
    print("EPSV 1:", await cmd("EPSV 1"), await cmd("SYST"))
    w.close()
    await srv.close()
asyncio.run(main())
