# Design-time sanity fuzz of the *planned top-level contracts* against the real code (not a check).
import asyncio, random, pathlib, datetime, time, calendar, os, io, stat
import aioftp
from aioftp.common import HALF_OF_YEAR_IN_SECONDS as HALF
rnd = random.Random(1)
P = pathlib.PurePosixPath
ALPH = ['a','b',' ','-','"',';','=','1','2','5','0','\t','é','　','%','\\','.','ß']
def rstr(n=6, alph=ALPH): return ''.join(rnd.choice(alph) for _ in range(rnd.randrange(n)))
def no_trail(s): return s.rstrip()

class FakeStream:
    def __init__(self): self.buf = b""; self.pos = 0
    async def write(self, d): self.buf += d
    async def readline(self):
        i = self.buf.find(b"\n", self.pos)
        if i < 0: d = self.buf[self.pos:]; self.pos = len(self.buf); return d
        d = self.buf[self.pos:i+1]; self.pos = i+1; return d
    def close(self): pass

async def c06(n=3000):
    srv = aioftp.Server(); cli = aioftp.Client(); bad = 0
    for _ in range(n):
        code = "%03d" % rnd.randrange(1000); lst = rnd.random() < .4
        k = rnd.randrange(2 if lst else 1, 5)
        lines = [no_trail(rnd.choice([rstr(), "250-x", "250 x", "12", "", "-", " 7"])) for _ in range(k)]
        st = FakeStream(); await srv.write_response(st, code, lines, lst); await srv.write_response(st, "999", "next")
        cli.stream = st
        c, info = await cli.parse_response(); c2, info2 = await cli.parse_response()
        if c != code or [x[1:] for x in info] != lines or (c2, info2) != ("999", [" next"]):
            bad += 1; print("C06 mismatch", code, lines, lst, c, info)
            if bad > 3: break
    print("C06 round trip: bad =", bad)

def norm(parts):
    out = []
    for p in parts:
        if p == "..": out = out[:-1]
        else: out.append(p)
    return out
def c02(n=20000):
    bad = 0; user = aioftp.User(base_path="/srv/base")
    segs = ["a","b","..",".","","c d","..a","a.."]
    for _ in range(n):
        cwd = P("/" + "/".join(rnd.choice(["x","y"]) for _ in range(rnd.randrange(3))))
        arg = rnd.choice(["","/","//","///"]) + "/".join(rnd.choice(segs) for _ in range(rnd.randrange(6)))
        conn = aioftp.Connection.__new__(aioftp.Connection)
        class C: pass
        c = C(); c.current_directory = cwd; c.user = user
        real, virt = aioftp.Server.get_paths(c, arg)
        pa = P(arg); full = pa if pa.is_absolute() else cwd / pa
        exp = norm(list(full.parts[1:]))
        if list(virt.parts[1:]) != exp or virt.anchor != "/" or real != user.base_path.joinpath(*exp):
            bad += 1; print("C02 mismatch", cwd, repr(arg), real, virt, exp)
            if bad > 3: break
    print("C02 get_paths vs norm: bad =", bad)

async def c04(n=5000):
    bad = 0
    for _ in range(n):
        perms = [aioftp.Permission("/" + "/".join(rnd.choice("ab") for _ in range(rnd.randrange(4))), readable=rnd.random()<.5, writable=rnd.random()<.5) for _ in range(rnd.randrange(5))]
        u = aioftp.User(permissions=perms or None)
        path = P("/" + "/".join(rnd.choice("ab") for _ in range(rnd.randrange(5))))
        got = await u.get_permissions(path)
        cands = [p for p in u.permissions if path.parts[:len(p.path.parts)] == p.path.parts]
        if cands:
            best = max(len(p.path.parts) for p in cands); exp = [p for p in cands if len(p.path.parts) == best][0]
            ok = got is exp
        else: ok = got.readable and got.writable and got not in u.permissions
        if not ok: bad += 1; print("C04 mismatch", perms, path, got)
    print("C04 nearest ancestor: bad =", bad)

def c07(n=200000):
    os.environ["TZ"] = "UTC"; time.tzset(); bad = 0; skipped = 0
    b = aioftp.Server.build_list_mtime; p = aioftp.Client.parse_ls_date
    for _ in range(n):
        now_s = rnd.randrange(946684800, 2524608000)     # 2000..2050
        kind = rnd.random()
        if kind < .5: m = now_s - rnd.randrange(0, HALF + 3*86400)
        elif kind < .8: m = now_s - rnd.choice([0,1,59,60, HALF-86400-1, HALF-86400, HALF+86400, HALF+86401])
        else: m = rnd.randrange(0, 2524608000)
        now_c = now_s + rnd.randrange(0, 3600)
        s = b(m, now_s); got = p(s.strip(), now=datetime.datetime.utcfromtimestamp(now_c))
        dm = datetime.datetime.utcfromtimestamp(m)
        if now_s - HALF < m <= now_s and now_c - m < HALF - 86400: exp = dm.strftime("%Y%m%d%H%M00")
        elif m > now_s or now_s - m > HALF + 86400: exp = dm.strftime("%Y%m%d000000")
        else: skipped += 1; continue
        if got != exp:
            bad += 1; print("C07 mismatch m=", dm, "now_s=", datetime.datetime.utcfromtimestamp(now_s), repr(s), got, exp)
            if bad > 5: break
    print("C07 date round trip: bad =", bad, "skipped(window) =", skipped)

def c08(n=20000):
    bad = 0; cli = aioftp.Client()
    for _ in range(n):
        name = no_trail(rstr(7)) or "x"
        if name in (".", "..") or "/" in name: continue
        line = f"Size=3;Create=20200101000000;Modify=20200101000000;Type=file; {name}\r\n".encode()
        pth, info = cli.parse_mlsx_line(line)
        if str(pth) != name or info.get("type") != "file" or info.get("size") != "3":
            bad += 1; print("C08 mlsx mismatch", repr(name), pth, info)
            if bad > 3: break
    print("C08 MLSx name round trip: bad =", bad)

def c06m(n=20000):
    bad = 0
    for _ in range(n):
        code = "%03d" % rnd.randrange(1000); mask = ''.join(rnd.choice("0123456789x*") for _ in range(3))
        exp = all((not m.isdigit()) or m == c for m, c in zip(mask, code))
        if aioftp.Code(code).matches(mask) != exp: bad += 1
    print("C06 matches: bad =", bad)

asyncio.run(c06()); c02(); asyncio.run(c04()); c07(); c08(); c06m()
