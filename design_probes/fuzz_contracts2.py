import asyncio, random, pathlib, tempfile, shutil, math
import aioftp
rnd = random.Random(2); P = pathlib.PurePosixPath
def pad0(c, n): return c + b"\0" * max(0, n - len(c))
def store_result(old, mode, off, payload):
    if off: return pad0(old, off)[:off] + payload + old[off + len(payload):]
    return payload if mode == "wb" else old + payload
async def c01(n=400):
    bad = 0
    d = pathlib.Path(tempfile.mkdtemp(prefix="aioftp_probe_"))
    for factory, root in ((aioftp.MemoryPathIO, P("/")), (aioftp.PathIO, d)):
        srv = aioftp.Server([aioftp.User(base_path=root)], path_io_factory=factory, block_size=rnd.choice([1,2,3,8]))
        await srv.start("127.0.0.1", 0)
        c = aioftp.Client(); await c.connect(*srv.address); await c.login()
        for i in range(n):
            old = bytes(rnd.randrange(256) for _ in range(rnd.randrange(7)))
            payload = bytes(rnd.randrange(256) for _ in range(rnd.randrange(9)))
            off = rnd.choice([0,0,1,3,6,9]); mode = rnd.choice(["wb","ab"])
            name = f"f{i}"
            async with c.upload_stream(name) as s: await s.write(old)
            fac = c.upload_stream if mode == "wb" else c.append_stream
            async with fac(name, offset=off) as s:
                for k in range(0, len(payload), 2): await s.write(payload[k:k+2])
            async with c.download_stream(name) as s: got = await s.read()
            roff = rnd.choice([0,2,5,20])
            async with c.download_stream(name, offset=roff) as s: got2 = await s.read()
            exp = store_result(old, mode, off, payload)
            if got != exp or got2 != exp[roff:]:
                bad += 1; print("C01 mismatch", factory.__name__, old, mode, off, payload, got, exp)
                if bad > 4: break
        await c.quit(); await srv.close()
    shutil.rmtree(d); print("C01 store_result spec: bad =", bad)
def c15(n=3000):
    bad = 0; worst = 0
    for _ in range(n):
        L = rnd.choice([1, 3, 10, 1000]); rr = rnd.choice([1, 10]); t = aioftp.Throttle(limit=L, reset_rate=rr)
        clock = rnd.random() * 5; t0 = None; B = 0; resets = 0
        for _ in range(rnd.randrange(1, 40)):
            if t._start is not None: clock = max(clock, t._start + t._sum / L)       # wait()
            clock += rnd.choice([0, 0, rnd.random(), rnd.random() * 30])             # idle / slow peer before the I/O starts
            if t0 is None: t0 = clock
            if t._start is not None and clock - t._start > rr: resets += 1
            excess = B - L * (clock - t0)                                            # bytes accounted so far vs bound at I/O start
            worst = max(worst, excess)
            if excess > 0.5 * resets + 1e-6: bad += 1
            blk = rnd.randrange(0, 50); start = clock; clock += rnd.random() * rnd.choice([0, 1])   # I/O duration
            t.append(b"x" * blk, start); B += blk
    print("C15 relaxed single-owner bound: bad =", bad, "worst strict excess =", round(worst, 3))
asyncio.run(c01()); c15()
