from z3 import *
import time, subprocess
exec(open('exp_c08.py').read().split("verb, arg = Strings")[0])
verb, arg = Strings('verb arg'); r, w = Strings('r w')
line = Concat(verb, StringVal(" "), arg, StringVal("\r\n"))
pre = And(InRe(verb, Plus(Range("A","Z"))), Length(arg)>0,
          Not(is_ws_char(SubString(arg, Length(arg)-1, 1))), Not(Contains(arg, StringVal("\n"))), Not(Contains(arg, StringVal("\r"))))
s = Solver(); s.add(pre, rstrip_def(line, r, w), r != Concat(verb, StringVal(" "), arg))
open('q1.smt2','w').write("(set-logic ALL)\n"+s.to_smt2())
t=time.time(); out = subprocess.run(['cvc5','--strings-exp','--tlimit=60000','q1.smt2'],capture_output=True,text=True); print("cvc5 rstrip-step:", out.stdout.strip(), out.stderr.strip()[:200], round(time.time()-t,2))
# uninterpreted rstrip with axiom schemas
rstrip = Function('rstrip', StringSort(), StringSort())
a = Concat(verb, StringVal(" "), arg)
R1 = Implies(InRe(StringVal("\r\n"), Star(ws_re())), rstrip(Concat(a, StringVal("\r\n"))) == rstrip(a))
R2 = Implies(Or(Length(a)==0, Not(is_ws_char(SubString(a, Length(a)-1,1)))), rstrip(a) == a)
rr = rstrip(line)
i = IndexOf(rr, StringVal(" "), 0)
cmd = If(i>=0, SubString(rr,0,i), rr); rest = If(i>=0, SubString(rr,i+1,Length(rr)-i-1), StringVal(""))
run("schema-roundtrip", [pre, R1, R2, Not(And(cmd==verb, rest==arg))])
