# C07: LIST fallback cannot parse lines for modes that filemode() renders with 'S'/'T'
import asyncio, pathlib, tempfile, shutil, os
import aioftp
async def main():
    d = pathlib.Path(tempfile.mkdtemp(prefix="aioftp_probe_"))
    (d/"plain").write_bytes(b"12345"); (d/"suid_noexec").write_bytes(b"12345"); os.chmod(d/"suid_noexec", 0o4644)
    srv = aioftp.Server([aioftp.User(base_path=d)], path_io_factory=aioftp.PathIO)
    await srv.start("127.0.0.1", 0)
    c = aioftp.Client(); await c.connect(*srv.address); await c.login()
    print("MLSD:", sorted(str(p) for p, i in await c.list()))
    try: print("LIST:", sorted(str(p) for p, i in await c.list(raw_command="LIST")))
    except Exception as e: print("LIST raised", type(e).__name__, str(e)[:90])
    c.close(); await srv.close(); shutil.rmtree(d)
asyncio.run(main())
