import asyncio, pathlib, sys
import aioftp
P = pathlib.PurePosixPath
def dump(nodes, pre=""):
    out=[]
    for n in nodes:
        p = pre + ("" if n.name=="/" else "/"+n.name)
        out.append((p or "/", n.type))
        if n.type=="dir": out += dump(n.content, p)
    return out
async def run(dest, write_into):
    srv = aioftp.Server(path_io_factory=aioftp.MemoryPathIO)
    await srv.start("127.0.0.1", 0)
    c = aioftp.Client(path_io_factory=aioftp.MemoryPathIO)
    await c.connect(*srv.address); await c.login()
    await c.path_io.mkdir(P("/src/sub"), parents=True)
    for f in ("/src/a", "/src/sub/b"):
        async with c.path_io.open(P(f), "wb") as fo: await fo.write(b"x")
    await c.upload(P("/src"), dest, write_into=write_into)
    print(f"upload('/src', {dest!r}, write_into={write_into}) ->", [p for p,t in dump(srv.path_io_factory().fs)])
    await c.quit(); await srv.close()
async def main():
    await run("", False); await run("d", False); await run("d", True); await run("d/e", True); await run("d/e", False)
asyncio.run(main())
