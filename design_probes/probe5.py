import asyncio, pathlib, sys
import aioftp
from rawc import raw
async def main():
    srv = aioftp.Server(path_io_factory=aioftp.MemoryPathIO, data_ports=[40211, 40212, 40213])
    await srv.start("127.0.0.1", 0)
    h, p = srv.address
    r, w, cmd = await raw(h, p)
    print(await cmd(None)); print(await cmd("USER anonymous"))
    w.write(b"PASV\r\nPASV\r\n"); await w.drain()
    print(await cmd(None, 2))
    print(await cmd("QUIT"))
    w.close(); await asyncio.sleep(0.2)
    print("pool after pipelined PASV,PASV + QUIT:", srv.available_data_ports.qsize(), "of 3")
    await srv.close()
asyncio.run(main())
