import asyncio, pathlib, sys
import aioftp
from rawc import raw
P = pathlib.PurePosixPath
async def main():
    srv = aioftp.Server([aioftp.User("admin", "s3cret", base_path="/adm"), aioftp.User(base_path="/pub")], path_io_factory=aioftp.MemoryPathIO)
    await srv.start("127.0.0.1", 0)
    pio = srv.path_io_factory()
    await pio.mkdir(P("/adm")); await pio.mkdir(P("/pub"))
    async with pio.open(P("/adm/secret"), "wb") as f: await f.write(b"ADMIN-ONLY-DATA")
    h, p = srv.address
    r, w, cmd = await raw(h, p)
    print(await cmd(None)); print(await cmd("USER anonymous"))
    line = (await cmd("PASV"))[0]; ip, port = aioftp.Client.parse_pasv_response(line)
    dr, dw = await asyncio.open_connection(h, port); await asyncio.sleep(0.05)
    w.write(b"RETR secret\r\nUSER admin\r\n"); await w.drain()
    print(await cmd(None, 3))
    try:
        print("data:", await asyncio.wait_for(dr.read(), 1))
    except asyncio.TimeoutError: print("no data")
    await srv.close()
asyncio.run(main())
