from z3 import *
import time
S = StringSort(); A = ArraySort(IntSort(), S)
isdigit = Function('isdigit', S, BoolSort())
def ax_isdigit(s):
    return And(Implies(Length(s)==0, Not(isdigit(s))),
               Implies(And(Length(s)>0, Or(s.at(0)==StringVal(" "), s.at(0)==StringVal("-"))), Not(isdigit(s))),
               Implies(InRe(s, Plus(Range("0","9"))), isdigit(s)))
code = String('code'); wire = Const('wire', A); lines = Const('lines', A); n = Int('n')
j = Int('j')
enc_post = And(Length(code)==3, InRe(code, Plus(Range("0","9"))), n>=1,
   ForAll([j], Implies(And(0<=j, j<n-1), wire[j] == Concat(code, StringVal("-"), lines[j])), patterns=[wire[j]]),
   wire[n-1] == Concat(code, StringVal(" "), lines[n-1]))
i = Int('i'); info = Const('info', A); curr = String('curr'); rest = String('rest'); c0=String('c0')
def tail3(s): return SubString(s,3,Length(s)-3)
inv = And(1<=i, i<=n,
          ForAll([j], Implies(And(0<=j, j<i), info[j]==tail3(wire[j])), patterns=[info[j]]),
          c0 == code, curr == SubString(wire[i-1],0,3), rest == tail3(wire[i-1]))
cond = Or(PrefixOf(StringVal("-"), rest), Not(isdigit(curr)))
def chk(name, *fs, to=30000):
    s = Solver(); s.set('timeout', to); s.add(*fs)
    t=time.time(); r=s.check(); print(name, r, round(time.time()-t,2)); return s
chk("exit-iff-last", enc_post, inv, ax_isdigit(curr), Not(cond == (i<n)))
ncurr = SubString(wire[i],0,3); nrest = tail3(wire[i])
info2 = Store(info, i, nrest)
chk("step-isdigit", enc_post, inv, i<n, ax_isdigit(ncurr), Not(isdigit(ncurr)))
chk("step-samecode", enc_post, inv, i<n, Not(ncurr == c0))
j0 = Int('j0')
chk("step-inv", enc_post, inv, i<n, 0<=j0, j0<i+1, Not(info2[j0]==tail3(wire[j0])))
chk("final-body", enc_post, inv, i==n, 0<=j0, j0<n-1, Not(info[j0]==Concat(StringVal("-"),lines[j0])))
chk("final-tail", enc_post, inv, i==n, Not(info[n-1]==Concat(StringVal(" "),lines[n-1])))
