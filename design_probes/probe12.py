# C09 sanity: download placement, recursive list, remove (expected to hold)
import asyncio, pathlib
import aioftp
P = pathlib.PurePosixPath
async def tree(pio, root):
    out = []
    async def walk(p):
        for c in sorted(await pio.list(p)):
            out.append(str(c)); 
            if await pio.is_dir(c): await walk(c)
    await walk(root); return out
async def main():
    srv = aioftp.Server(path_io_factory=aioftp.MemoryPathIO); await srv.start("127.0.0.1", 0)
    sp = srv.path_io_factory()
    await sp.mkdir(P("/src/sub/empty"), parents=True); await sp.mkdir(P("/keep"))
    for f in ("/src/a", "/src/sub/b", "/keep/k"):
        async with sp.open(P(f), "wb") as fo: await fo.write(f.encode())
    for dest, wi in (("", False), ("d", False), ("d/e", False), ("d/e", True)):
        c = aioftp.Client(path_io_factory=aioftp.MemoryPathIO); await c.connect(*srv.address); await c.login()
        await c.download("src", dest, write_into=wi)
        print(f"download('src', {dest!r}, write_into={wi}) ->", await tree(c.path_io, P("/")))
        await c.quit()
    c = aioftp.Client(); await c.connect(*srv.address); await c.login()
    print("recursive list:", sorted(str(p) for p, i in await c.list("src", recursive=True)))
    await c.change_directory("src"); print("recursive list from cwd=src of 'sub':", sorted(str(p) for p, i in await c.list("sub", recursive=True)))
    await c.change_directory("/"); await c.remove("src"); print("after remove('src'):", await tree(sp, P("/")))
    await c.quit(); await srv.close()
asyncio.run(main())
