from z3 import *
import time
HALF = 15778476; TWO = ((365*3+366)*24*60*60)//2
def isleap(y): return And(y%4==0, Or(y%100!=0, y%400==0))
CUM = [0,31,59,90,120,151,181,212,243,273,304,334]
def cum(m):
    e = IntVal(CUM[11])
    for i in range(10,-1,-1): e = If(m==i+1, CUM[i], e)
    return e
def dim(y,m):
    return If(m==2, If(isleap(y),29,28), If(Or(m==4,m==6,m==9,m==11),30,31))
def days(y,m,d):
    y1 = y-1
    return 365*y1 + y1/4 - y1/100 + y1/400 + cum(m) + If(And(m>2, isleap(y)),1,0) + d
def E(y,m,d,h,mi,s): return 86400*days(y,m,d) + 3600*h + 60*mi + s
def valid(y,m,d,h,mi,s): return And(1970<=y, y<=2200, 1<=m, m<=12, 1<=d, d<=dim(y,m), 0<=h,h<24,0<=mi,mi<60,0<=s,s<60)
Ym,Mm,Dm,hm,mm,sm = Ints('Ym Mm Dm hm mm sm'); Yn,Mn,Dn,hn,mn,sn = Ints('Yn Mn Dn hn mn sn')
Em = E(Ym,Mm,Dm,hm,mm,sm); En = E(Yn,Mn,Dn,hn,mn,sn)
pre = And(valid(Ym,Mm,Dm,hm,mm,sm), valid(Yn,Mn,Dn,hn,mn,sn), 0 <= En-Em, En-Em < HALF-86400)
def run(name, fs, to=120000):
    s = Solver(); s.set('timeout', to); s.add(*fs); t=time.time(); r=s.check(); print(name, r, round(time.time()-t,2))
    if r==sat: print(s.model())
# non-Feb29 branch
Ed = E(Yn,Mm,Dm,hm,mm,0); diff = En-Ed
Yres = If(diff>HALF, Yn+1, If(diff< -HALF, Yn-1, Yn))
run("nonfeb29-year", [pre, Not(And(Mm==2,Dm==29)), Yres != Ym])
# Feb 29 branch
P = Int('P')
prevleap = And(isleap(P), P<=Yn, Yn-P<8, ForAll([Int('q')], Implies(And(Int('q')>P, Int('q')<=Yn), Not(isleap(Int('q'))))))
Ed2 = E(P,2,29,hm,mm,0)
Yres2 = If(En-Ed2 > TWO, P+4, P)
run("feb29-year", [pre, Mm==2, Dm==29, prevleap, Yres2 != Ym])
print("--- sanity: without 1-day exclusion must be sat (the inherent ambiguity window)")
pre2 = And(valid(Ym,Mm,Dm,hm,mm,sm), valid(Yn,Mn,Dn,hn,mn,sn), 0 <= En-Em, En-Em < HALF)
run("nonfeb29-noexcl", [pre2, Not(And(Mm==2,Dm==29)), Yres != Ym])
print("--- mutant: parser flips sign (year-1 when diff>HALF)")
Ymut = If(diff>HALF, Yn-1, If(diff< -HALF, Yn+1, Yn))
run("mutant", [pre, Not(And(Mm==2,Dm==29)), Ymut != Ym])
