from z3 import *
import time, subprocess
exec(open('exp_c08.py').read().split("verb, arg = Strings")[0])
verb, arg = Strings('verb arg')
a = Concat(verb, StringVal(" "), arg)
i = IndexOf(a, StringVal(" "), 0)
cmd = If(i>=0, SubString(a,0,i), a); rest = If(i>=0, SubString(a,i+1,Length(a)-i-1), StringVal(""))
run("partition nospace-contains", [Not(Contains(verb, StringVal(" "))), Not(And(cmd==verb, rest==arg))])
run("partition regex", [InRe(verb, Plus(Range("A","Z"))), Not(And(cmd==verb, rest==arg))])
run("regex=>nospace", [InRe(verb, Plus(Range("A","Z"))), Contains(verb, StringVal(" "))])
s = Solver(); s.add(Not(Contains(verb, StringVal(" "))), Not(And(cmd==verb, rest==arg)))
open('q2.smt2','w').write("(set-logic ALL)\n"+s.to_smt2())
t=time.time(); out = subprocess.run(['cvc5','--strings-exp','--tlimit=60000','q2.smt2'],capture_output=True,text=True); print("cvc5 partition:", out.stdout.strip(), round(time.time()-t,2))
t=time.time(); out = subprocess.run(['z3','-T:60','q2.smt2'],capture_output=True,text=True); print("z3-4.8 partition:", out.stdout.strip(), round(time.time()-t,2))
