# C18 backend divergences (MemoryPathIO vs PathIO on a real temp dir), backend API level
import asyncio, pathlib, tempfile, shutil
import aioftp
async def snapshot_mem(pio, root):
    out = {}
    async def walk(p):
        for c in await pio.list(p):
            if await pio.is_dir(c): out[str(c)] = "dir"; await walk(c)
            else: out[str(c)] = "file"
    await walk(root); return out
def snapshot_fs(root):
    return {"/"+str(p.relative_to(root)): ("dir" if p.is_dir() else "file") for p in sorted(root.rglob("*"))}
async def attempt(coro):
    try: await coro; return "ok"
    except aioftp.PathIOError as e: return "PathIOError(" + type(e.reason[1]).__name__ + ")"
async def scenario(name, setup, op):
    d = pathlib.Path(tempfile.mkdtemp(prefix="aioftp_probe_"))
    fs = aioftp.PathIO(); mem = aioftp.MemoryPathIO()
    M = pathlib.PurePosixPath("/")
    for kind, rel in setup:
        if kind == "dir":
            await fs.mkdir(d/rel, parents=True); await mem.mkdir(M/rel, parents=True)
        else:
            async with fs.open(d/rel, "wb") as f: await f.write(b"x")
            async with mem.open(M/rel, "wb") as f: await f.write(b"x")
    r_fs = await attempt(op(fs, d)); r_mem = await attempt(op(mem, M))
    print(f"{name}: fs={r_fs} tree={snapshot_fs(d)} | mem={r_mem} tree={await snapshot_mem(mem, M)}")
    shutil.rmtree(d)
async def openrw(p, path):
    async with p.open(path, "r+b") as f: await f.write(b"y")
async def main():
    await scenario("rename file into child-of-file", [("file","a"),("file","f")], lambda p, r: p.rename(r/"a", r/"f"/"x"))
    await scenario("rename dir into itself", [("dir","a")], lambda p, r: p.rename(r/"a", r/"a"/"x"))
    await scenario("open r+b on missing file", [("dir","a")], lambda p, r: openrw(p, r/"a"/"new"))
asyncio.run(main())
