# sanity for obligations expected to DISCHARGE: C13 on MLSD/LIST (stat fails mid-listing), C14 abort mid-RETR then reuse
import asyncio, pathlib
import aioftp
from rawc import raw
P = pathlib.PurePosixPath
class Flaky(aioftp.MemoryPathIO):
    fail_stat_after = None; n = 0; slow = False
    @aioftp.pathio.universal_exception
    async def stat(self, path):
        Flaky.n += 1
        if Flaky.fail_stat_after is not None and Flaky.n > Flaky.fail_stat_after: raise OSError("disk")
        return await aioftp.MemoryPathIO.stat.__wrapped__(self, path)
    @aioftp.pathio.universal_exception
    async def read(self, file, n):
        if Flaky.slow: await asyncio.sleep(0.2)
        return file.read(n)
async def pasv(cmd, h):
    ip, port = aioftp.Client.parse_pasv_response((await cmd("PASV"))[0]); return await asyncio.open_connection(h, port)
async def main():
    srv = aioftp.Server(path_io_factory=Flaky, block_size=4)
    await srv.start("127.0.0.1", 0); h, p = srv.address
    pio = srv.path_io_factory()
    for n in "abc":
        async with pio.open(P("/" + n), "wb") as f: await f.write(b"0123456789abcdef")
    r, w, cmd = await raw(h, p); await cmd(None); await cmd("USER anonymous")
    for verb in ("MLSD", "LIST"):
        Flaky.n = 0; Flaky.fail_stat_after = 1
        dr, dw = await pasv(cmd, h); print(verb, await cmd(verb, 2))
        try: print("  data until EOF:", await asyncio.wait_for(dr.read(), 1))
        except asyncio.TimeoutError: print("  DATA SOCKET LEFT OPEN")
        Flaky.fail_stat_after = None
    Flaky.slow = True
    dr, dw = await pasv(cmd, h); print(await cmd("RETR a")); first = await dr.read(4)
    print("ABOR mid-transfer:", await cmd("ABOR", 2)); rest = await dr.read(); print("  got prefix:", first + rest)
    Flaky.slow = False
    dr, dw = await pasv(cmd, h); print("second transfer:", await cmd("RETR b", 2), await dr.read())
    print(await cmd("QUIT")); await srv.close()
asyncio.run(main())
