from z3 import *
import time, subprocess
# Python whitespace (str.isspace) code points
WS = [0x9,0xa,0xb,0xc,0xd,0x1c,0x1d,0x1e,0x1f,0x20,0x85,0xa0,0x1680]+list(range(0x2000,0x200b))+[0x2028,0x2029,0x202f,0x205f,0x3000]
def ws_re():
    return Union(*[Re(StringVal(chr(c))) for c in WS])
def is_ws_char(c):  # c: 1-char string
    return InRe(c, ws_re())
def rstrip_def(s, r, w):
    # s == r ++ w, w in WS*, r empty or last char not ws
    return And(s == Concat(r, w), InRe(w, Star(ws_re())), Or(Length(r)==0, Not(is_ws_char(SubString(r, Length(r)-1, 1)))))
def run(name, fs, to=30000):
    s = Solver(); s.set('timeout', to); s.add(*fs); t=time.time(); res=s.check(); print(name, res, round(time.time()-t,2)); return s,res
verb, arg = Strings('verb arg'); r, w = Strings('r w')
line = Concat(verb, StringVal(" "), arg, StringVal("\r\n"))
pre = And(InRe(verb, Plus(Range("A","Z"))), Length(arg)>0,
          Not(is_ws_char(SubString(arg, Length(arg)-1, 1))), Not(Contains(arg, StringVal("\n"))), Not(Contains(arg, StringVal("\r"))))
i = IndexOf(r, StringVal(" "), 0)
cmd = If(i>=0, SubString(r,0,i), r); rest = If(i>=0, SubString(r,i+1,Length(r)-i-1), StringVal(""))
run("parse_command-roundtrip", [pre, rstrip_def(line, r, w), Not(And(cmd==verb, rest==arg))])
# PWD: format then parse_directory_response spec: expected failure when name has a quote
# LIST name: s[12:].strip() loses leading spaces: find counterexample
name = String('name'); date = String('date'); s2 = Concat(date, StringVal(" "), name)
l, m, rr = Strings('l m rr')
strip_def = And(SubString(s2,12,Length(s2)-12) == Concat(l, m, rr), InRe(l, Star(ws_re())), InRe(rr, Star(ws_re())),
                Or(Length(m)==0, And(Not(is_ws_char(SubString(m,0,1))), Not(is_ws_char(SubString(m,Length(m)-1,1))))))
s,res = run("list-name-leading-space (expect sat)", [Length(date)==12, Length(name)>0, Not(is_ws_char(SubString(name,Length(name)-1,1))), strip_def, m != name])
if res==sat: print("  witness name =", repr(s.model()[name]))
