import asyncio, pathlib, sys, tempfile, shutil
import aioftp
from rawc import raw
async def main():
    d = pathlib.Path(tempfile.mkdtemp(prefix="aioftp_probe_", dir=None))
    (d/"adm").mkdir(); (d/"pub").mkdir()
    (d/"adm"/"secret").write_bytes(b"ADMIN-ONLY-DATA"); (d/"pub"/"secret").write_bytes(b"public")
    srv = aioftp.Server([aioftp.User("admin", "s3cret", base_path=d/"adm"), aioftp.User(base_path=d/"pub")], path_io_factory=aioftp.AsyncPathIO)
    await srv.start("127.0.0.1", 0)
    h, p = srv.address
    wins = 0
    for attempt in range(20):
        r, w, cmd = await raw(h, p)
        await cmd(None); await cmd("USER anonymous")
        line = (await cmd("PASV"))[0]; ip, port = aioftp.Client.parse_pasv_response(line)
        dr, dw = await asyncio.open_connection(h, port); await asyncio.sleep(0.02)
        w.write(b"RETR secret\r\nUSER admin\r\n"); await w.drain()
        replies = await cmd(None, 3)
        try: data = await asyncio.wait_for(dr.read(), 1)
        except asyncio.TimeoutError: data = None
        if data == b"ADMIN-ONLY-DATA": wins += 1
        if attempt < 2 or data == b"ADMIN-ONLY-DATA" and wins == 1: print(replies, data)
        w.close(); dw.close()
    print("admin file served to a session that never sent admin's password:", wins, "/ 20")
    await srv.close(); shutil.rmtree(d)
asyncio.run(main())
