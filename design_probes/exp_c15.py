from z3 import *
import time
L, st0, start, t0, rho, RR = Reals('L st0 start t0 rho RR')   # limit, _start, start arg, first-io time, rounding slack, reset_rate
S0, n, B = Ints('S0 n B'); r = Int('r')
def run(name, fs, to=30000):
    s = Solver(); s.set('timeout', to); s.add(*fs); t=time.time(); res=s.check(); print(name, res, round(time.time()-t,2))
    if res==sat: print(s.model())
I0 = ToReal(B) - ToReal(S0) <= L*(st0 - t0) + rho            # invariant before
pre = And(L>0, n>=0, RR>0, st0>=t0, start>=t0, rho>=0)
# branch: reset  (start - _start > reset_rate)
rnd = And(ToReal(r) - (start-st0)*L <= 0.5, (start-st0)*L - ToReal(r) <= 0.5)
S1 = S0 - r + n; st1 = start; B1 = B + n
run("append-reset-inv", [pre, I0, start-st0 > RR, rnd, Not(ToReal(B1)-ToReal(S1) <= L*(st1-t0) + rho + 0.5)])
# branch: no reset
run("append-noreset-inv", [pre, I0, Not(start-st0 > RR), Not(ToReal(B+n)-ToReal(S0+n) <= L*(st0-t0) + rho)])
# wait: after sleep(max(0,end-now)) time t >= end  => S0 <= L*(t - st0)  => B <= L*(t - t0)+rho
t = Real('t'); now = Real('now'); end = st0 + ToReal(S0)/L
run("wait-bound", [pre, I0, now>=t0, t >= now + If(end-now>0, end-now, 0), Not(ToReal(B) <= L*(t - t0) + rho)])
# tightness: if end<=now no sleep
