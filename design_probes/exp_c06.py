from z3 import *
import time
S = StringSort(); LS = SeqSort(S)
isdigit = Function('isdigit', S, BoolSort())
def ax_isdigit(s):
    return And(Implies(Length(s)==0, Not(isdigit(s))),
               Implies(And(Length(s)>0, Or(s.at(0)==StringVal(" "), s.at(0)==StringVal("-"))), Not(isdigit(s))),
               Implies(InRe(s, Plus(Range("0","9"))), isdigit(s)))
code = String('code'); wire = Const('wire', LS); lines = Const('lines', LS)
n = Length(lines)
j = Int('j')
enc_post = And(Length(code)==3, InRe(code, Plus(Range("0","9"))), n>=1, Length(wire)==n,
   ForAll([j], Implies(And(0<=j, j<n-1), wire[j] == Concat(code, StringVal("-"), lines[j]))),
   wire[n-1] == Concat(code, StringVal(" "), lines[n-1]))
# decoder state at loop head: consumed i lines (i>=1), info, curr_code, rest
i = Int('i'); info = Const('info', LS); curr = String('curr'); rest = String('rest'); c0=String('c0')
inv = And(1<=i, i<=n, Length(info)==i,
          ForAll([j], Implies(And(0<=j, j<i), info[j]==SubString(wire[j],3,Length(wire[j])-3))),
          c0 == code, curr == SubString(wire[i-1],0,3), rest == SubString(wire[i-1],3,Length(wire[i-1])-3))
cond = Or(PrefixOf(StringVal("-"), rest), Not(isdigit(curr)))
def chk(name, *fs, to=30000):
    s = Solver(); s.set('timeout', to); s.add(*fs)
    t=time.time(); r=s.check(); print(name, r, round(time.time()-t,2)); return s
# (a) loop exits exactly at last line: cond <=> i < n
chk("exit-iff-last", enc_post, inv, ax_isdigit(curr), Not(cond == (i<n)))
# (b) step: reading line i (i<n) : new curr/rest ; curr.isdigit -> append rest; curr==code
ncurr = SubString(wire[i],0,3); nrest = SubString(wire[i],3,Length(wire[i])-3)
info2 = Concat(info, Unit(nrest))
chk("step-isdigit", enc_post, inv, i<n, ax_isdigit(ncurr), Not(isdigit(ncurr)))
chk("step-samecode", enc_post, inv, i<n, Not(ncurr == c0))
chk("step-inv", enc_post, inv, i<n, Not(And(Length(info2)==i+1,
     ForAll([j], Implies(And(0<=j, j<i+1), info2[j]==SubString(wire[j],3,Length(wire[j])-3))))))
# (c) final: info[j] == sep + lines[j]
chk("final", enc_post, inv, i==n, Not(And(ForAll([j], Implies(And(0<=j,j<n-1), info[j]==Concat(StringVal("-"),lines[j]))), info[n-1]==Concat(StringVal(" "),lines[n-1]))))
