from z3 import *
import time, subprocess
exec(open('exp_c08.py').read().split("verb, arg = Strings")[0])
def cvc5run(name, fs, extra=()):
    s = Solver(); s.add(*fs); open('q.smt2','w').write("(set-logic ALL)\n"+s.to_smt2())
    t=time.time(); out = subprocess.run(['cvc5','--strings-exp','--tlimit=60000',*extra,'q.smt2'],capture_output=True,text=True); print("cvc5", name, out.stdout.strip()[:100], out.stderr.strip()[:100], round(time.time()-t,2))
verb, arg = Strings('verb arg'); r, w = Strings('r w')
pre = And(InRe(verb, Plus(Range("A","Z"))), Length(arg)>0,
          Not(is_ws_char(SubString(arg, Length(arg)-1, 1))), Not(Contains(arg, StringVal("\n"))), Not(Contains(arg, StringVal("\r"))))
rstrip = Function('rstrip', StringSort(), StringSort())
a = Concat(verb, StringVal(" "), arg); line = Concat(a, StringVal("\r\n"))
R1 = rstrip(Concat(a, StringVal("\r\n"))) == rstrip(a)
R2 = Implies(Or(Length(a)==0, Not(is_ws_char(SubString(a, Length(a)-1,1)))), rstrip(a) == a)
rr = rstrip(line)
i = IndexOf(rr, StringVal(" "), 0)
cmd = If(i>=0, SubString(rr,0,i), rr); rest = If(i>=0, SubString(rr,i+1,Length(rr)-i-1), StringVal(""))
cvc5run("schema-roundtrip", [pre, R1, R2, Not(And(cmd==verb, rest==arg))])
# precise def, char-level ws test via code points
def is_ws_code(c):  # c 1-char string -> via str.to_code
    code = StrToCode(c)
    return Or(*[code==x for x in WS])
def rstrip_def2(s, r, w):
    k = Int('k')
    return And(s == Concat(r, w), ForAll([k], Implies(And(0<=k, k<Length(w)), is_ws_code(SubString(w,k,1)))), Or(Length(r)==0, Not(is_ws_code(SubString(r, Length(r)-1, 1)))))
pre2 = And(Not(Contains(verb, StringVal(" "))), Length(verb)>0, Length(arg)>0, Not(is_ws_code(SubString(arg, Length(arg)-1, 1))))
cvc5run("precise-rstrip-step", [pre2, rstrip_def(line, r, w), r != a])
cvc5run("precise2-rstrip-step", [pre2, rstrip_def2(line, r, w), r != a])
