"""Block contracts for Server.dispatcher (DESIGN.md 2.7): the `finally:` suite, extracted structurally from the
AST of the real function on every run and executed with precondition Inv only (it is entered from every exit
of the try: return, exception, cancellation at any suspension point)."""
import ast

import z3

from contracts import c02_paths, c10_limits, c11_ports  # noqa: F401
from contracts.server_units import codes, handler_exit
from pyvc.core import SV, PyRaise, Unsupported, fresh
from pyvc.models_aio import TaskModel
from pyvc.session import b_and, b_implies, b_not, b_or, tt
from pyvc.sessionenv import Session
from pyvc.unit import contract
from pyvc.values import Builtin, Coro, Env

SERVER = "aioftp.server"


def find_dispatcher_try(it):
    mod = it.modules[SERVER]
    for n in ast.walk(mod.tree):
        if isinstance(n, ast.AsyncFunctionDef) and n.name == "dispatcher":
            tries = [s for s in n.body if isinstance(s, ast.Try)]
            if len(tries) != 1:
                raise Unsupported("Server.dispatcher: expected exactly one top-level try statement")
            return n, tries[0]
    raise Unsupported("Server.dispatcher not found")


def dispatcher_locals(fn):
    """logical -> actual names of the locals of Server.dispatcher that the three block contracts bind or read, recognised
    by what they are assigned from (renaming them in the source is harmless)"""
    L = {}
    for n in ast.walk(fn):
        if isinstance(n, ast.Assign):
            src = ast.unparse(n.value)
            t0 = n.targets[0]
            if isinstance(t0, ast.Tuple) and "peername" in src and len(t0.elts) >= 2 and all(isinstance(e, ast.Name) for e in t0.elts[:2]):
                L.setdefault("host", t0.elts[0].id)
                L.setdefault("port", t0.elts[1].id)
            elif len(n.targets) == 2 and all(isinstance(t, ast.Name) for t in n.targets) and isinstance(n.value, ast.Call) and ast.unparse(n.value.func) == "ThrottleStreamIO":
                L.setdefault("key", n.targets[0].id)
                L.setdefault("stream", n.targets[1].id)
            elif isinstance(t0, ast.Name) and src == "asyncio.Queue()":
                L.setdefault("response_queue", t0.id)
            elif isinstance(t0, ast.Name) and isinstance(n.value, ast.Call) and ast.unparse(n.value.func) == "Connection":
                L.setdefault("connection", t0.id)
            elif isinstance(t0, ast.Name) and isinstance(n.value, ast.Set):
                L.setdefault("pending", t0.id)
            elif isinstance(t0, ast.Tuple) and "asyncio.wait(" in src and len(t0.elts) == 2 and all(isinstance(e, ast.Name) for e in t0.elts):
                L.setdefault("done", t0.elts[0].id)
    for n in ast.walk(fn):
        if isinstance(n, ast.For) and isinstance(n.iter, ast.Name) and n.iter.id == L.get("done") and isinstance(n.target, ast.Name):
            L.setdefault("task", n.target.id)
    missing = [k for k in ("host", "port", "key", "stream", "response_queue", "connection", "pending", "done", "task") if k not in L]
    if missing:
        raise Unsupported(f"Server.dispatcher: locals not recognised: {missing}")
    return L


def setup_finally(u):
    it = u.it
    sess = Session(u, mode="PIPE", limits=True, ports=None)
    u.sess = sess
    sess.mode = "TEARDOWN"  # (the arbitrary initial state was drawn under Inv; see Session.on_suspend)
    fn, tr = find_dispatcher_try(it)
    if not tr.finalbody:
        raise Unsupported("Server.dispatcher: the try statement has no finally suite")
    conn = sess.conn
    # locals of dispatcher that the suite reads
    pending = {TaskModel(None, tag="parse_command"), TaskModel(None, tag="response_writer"), TaskModel(None, tag="some-handler")}
    stream = conn.slots["command_connection"].fut.value
    env = Env(it.modules[SERVER].env)
    L = dispatcher_locals(fn)
    env.vars["self"] = sess.server
    for logical, value in (("connection", conn), ("pending", pending), ("stream", stream), ("key", stream), ("host", fresh("str", "host")), ("port", fresh("int", "peer_port"))):
        env.vars[L[logical]] = value
    # the session is registered under its own key (set-up prefix of dispatcher)
    sess.server.fields["connections"].member[id(stream)] = True
    # nothing is in flight when the try is left: guaranteed on every exit by _start_passive_server's contract
    pool = sess.server.fields["available_data_ports"]

    def run_block(i, a, k):
        def run():
            i.exec_block(tr.finalbody, env, "Server.dispatcher.<locals>")
            return None

        return Coro(run, "dispatcher/finally")

    vars = {"self": sess.server, "connection": conn, "sess": sess, "pending": pending, "stream": stream, "env": env}
    vars["listener0"] = conn.slots["passive_server"].fut.value
    vars["listener_done0"] = conn.done_term("passive_server")
    vars["data0"] = conn.slots["data_connection"].fut.value
    vars["data_done0"] = conn.done_term("data_connection")
    return Builtin("dispatcher/finally", run_block), [], {}, vars


c = contract(SERVER, "Server.dispatcher", props=["C10", "C11", "C12"], name="Server.dispatcher/finally")
c.setup = setup_finally
c.uses = [(SERVER, "AvailableConnections.release")]
c.raises = {}
c.assumptions.append("block contract: the finally suite of Server.dispatcher is verified with precondition Inv only; it is entered from every exit of the try (T-py: finally always runs)")


def finally_exit(S, outcome):
    sess = S.vars["sess"]
    it = S.it
    ctx = it.ctx
    conn = sess.conn
    name = "Server.dispatcher/finally"
    if outcome[0] == "raise":
        ctx.check(f"{name}/raises:unexpected-{outcome[1].cls.name}", z3.BoolVal(False), info={"props": ["C10", "C11", "C12"], "exc": outcome[1].cls.name})
        return
    closed_loop = ctx.ghost.get("loop_closed")
    loop_open = True if closed_loop is None else z3.Not(closed_loop.t)
    # ---- C10: every slot is returned
    ac = sess.server.fields["available_connections"]
    v = it.unbox(ac.fields["value"])
    if v is not None:
        ctx.check(f"{name}/exit:server-slot-returned", v.t == sess.ghost["srv_rest"], info={"props": ["C10"]})
    for obj, cond in sess.ghost.get("held_slots", []):
        ctx.check(f"{name}/exit:user-slot-returned", tt(b_not(cond)), info={"props": ["C10"]})
    # ---- C11: the session's port is back in the pool
    pool = sess.server.fields["available_data_ports"]
    if pool is not None:
        ctx.check(f"{name}/exit:port-returned-to-pool", tt(b_implies(loop_open, pool.cnt == sess.ghost["pool_rest"])), info={"props": ["C11", "C12"]})
    # ---- C12: everything the session held is released
    ev = ctx.events
    cancelled = {e[1] for e in ev if e[0] == "task.cancel"}
    tasks = list(S.vars["pending"]) + conn.slots["extra_workers"].fut.value.iterate(it)
    all_cancelled = all(t in cancelled for t in tasks)
    ctx.check(f"{name}/exit:all-session-tasks-cancelled", tt(b_implies(loop_open, all_cancelled)), info={"props": ["C12"]})
    awaited = ctx.ghost.get("awaited_tasks", [])
    ctx.check(f"{name}/exit:all-session-tasks-awaited", tt(b_implies(loop_open, all(t in awaited for t in tasks))), info={"props": ["C12"]})
    lst = S.vars["listener0"]
    ctx.check(f"{name}/exit:listener-closed", tt(b_implies(b_and(loop_open, S.vars["listener_done0"]), lst.closed)), info={"props": ["C12", "C11"]})
    data = S.vars["data0"]
    ctx.check(f"{name}/exit:data-connection-closed", tt(b_implies(b_and(loop_open, S.vars["data_done0"]), data.fields["writer"].closed)), info={"props": ["C12"]})
    ctx.check(f"{name}/exit:control-connection-closed", tt(b_implies(loop_open, S.vars["stream"].fields["writer"].closed)), info={"props": ["C12"]})
    gone = sess.server.fields["connections"].member.get(id(S.vars["stream"]))
    ctx.check(f"{name}/exit:removed-from-connection-table", z3.BoolVal(gone is False), info={"props": ["C12"]})


c.exit_hook = finally_exit


# ------------------------------------------------------------------------------------ set-up prefix of dispatcher
from pyvc.interp import LazyOpt  # noqa: E402
from pyvc.session import ConnModel, Reader, Writer  # noqa: E402
from pyvc.values import ClassVal, Model, Obj, Opaque  # noqa: E402


class TransportModel(Model):
    model_name = "transport"

    def getattr(self, it, name):
        if name == "get_extra_info":

            def gei(i, a, k):
                if a[0] == "peername":
                    return (fresh("str", "peer_host"), fresh("int", "peer_port"))
                if a[0] == "sockname":
                    return (fresh("str", "sock_host"), fresh("int", "sock_port"))
                raise Unsupported("get_extra_info(" + repr(a[0]) + ")")

            return Builtin("transport.get_extra_info", gei)
        raise Unsupported("transport." + name)


def setup_prefix(u):
    it = u.it
    sess = Session(u, mode="SEQ", limits=False, ports=False)
    fn, tr = find_dispatcher_try(it)
    prefix = fn.body[: fn.body.index(tr)]
    srv = sess.server
    common = it.modules["aioftp.common"]
    # real StreamThrottle objects on the server (as Server.__init__ builds them)
    from_limits = it.getattr_(common.attrs["StreamThrottle"], "from_limits")
    srv.fields["throttle"] = it.call(from_limits, [LazyOpt(it, "int", "srv_rl"), LazyOpt(it, "int", "srv_wl")], {})
    srv.fields["throttle_per_connection"] = it.call(from_limits, [LazyOpt(it, "int", "conn_rl"), LazyOpt(it, "int", "conn_wl")], {})
    made = []

    def factory(i, a, k):
        o = Obj(ClassVal("SomePathIO"), tag=f"pathio{len(made)}")
        o.fields.update(k)
        o.fields["state"] = "shared-state"
        made.append(o)
        return o

    # the real PathIONursery, constructed by its real __init__; an earlier session has already obtained its backend
    nursery = it.call(it.modules["aioftp.pathio"].attrs["PathIONursery"], [Builtin("path_io_factory", factory)], {})
    srv.fields["path_io_factory"] = nursery
    earlier_conn = Opaque("earlier-connection")
    it.call(nursery, [], {"timeout": srv.fields["path_timeout"], "connection": earlier_conn})
    conns = {}
    srv.fields["connections"] = conns
    other_key, other_conn = Opaque("other-stream"), Opaque("other-connection")
    conns[other_key] = other_conn
    # Connection(**kwargs): the class model of server.Connection (T-conn)
    made_conns = []

    def conn_builder(i, cls, args, kwargs):
        s2 = Session.__new__(Session)
        s2.__dict__.update(sess.__dict__)
        c2 = ConnModel(sess)
        for kk, vv in kwargs.items():
            c2.set_done(kk, vv)
        made_conns.append(c2)
        return c2

    conn_cls = ClassVal("Connection")
    conn_cls.builder = conn_builder
    env = Env(it.modules[SERVER].env)
    env.vars["Connection"] = conn_cls
    reader, writer = Reader("control"), Writer("control")
    writer.fields["transport"] = TransportModel()
    env.vars.update(self=srv, reader=reader, writer=writer)
    orig_getattr = writer.getattr
    writer.getattr = lambda i, name: TransportModel() if name == "transport" else orig_getattr(i, name)
    spawned = []
    it.hooks["on_spawn"] = lambda i, t: spawned.append(t)

    def run_block(i, a, k):
        def run():
            i.exec_block(prefix, env, "Server.dispatcher.<locals>")

        return Coro(run, "dispatcher/prefix")

    vars = {"self": srv, "sess": sess, "env": env, "made_conns": made_conns, "made_pathio": made, "spawned": spawned, "reader": reader, "writer": writer, "other": (other_key, other_conn), "conns": conns}
    return Builtin("dispatcher/prefix", run_block), [], {}, vars


c = contract(SERVER, "Server.dispatcher", props=["C16", "C17", "C15", "C10"], name="Server.dispatcher/set-up")
c.setup = setup_prefix
c.raises = {}


def prefix_exit(S, outcome):
    it = S.it
    ctx = it.ctx
    name = "Server.dispatcher/set-up"
    if outcome[0] == "raise":
        ctx.check(f"{name}/raises:unexpected-{outcome[1].cls.name}", z3.BoolVal(False), info={"exc": outcome[1].cls.name})
        return
    env, srv = S.vars["env"], S.vars["self"]
    v = env.vars
    L = dispatcher_locals(find_dispatcher_try(it)[0])
    stream, conn = v.get(L["stream"]), v.get(L["connection"])
    T16, T17, T15 = {"props": ["C16"]}, {"props": ["C17"]}, {"props": ["C15", "C17"]}

    def same(a, b):
        return it.unbox(a) is it.unbox(b) or it.eq_term(it.unbox(a), it.unbox(b)) is True

    def or_none(x):
        x = it.unbox(x)
        if x is None:
            return None
        return x  # a configured 0 counts as 'no timeout' (Python truthiness in StreamIO.__init__)

    # ---- C16: the control stream reads under idle_timeout and writes under socket_timeout
    rt, wt = it.unbox(stream.fields["read_timeout"]), it.unbox(stream.fields["write_timeout"])
    idle, sock = it.unbox(srv.fields["idle_timeout"]), it.unbox(srv.fields["socket_timeout"])
    ctx.check(f"{name}/exit:control-reads-time-out-after-idle_timeout", z3.BoolVal(rt is idle or (idle is not None and rt is None)), info=T16)
    if idle is not None and rt is None:
        ctx.check(f"{name}/exit:control-read-timeout-dropped-only-when-zero", idle.t == 0, info=T16)
    ctx.check(f"{name}/exit:control-writes-time-out-after-socket_timeout", z3.BoolVal(wt is sock or (sock is not None and wt is None)), info=T16)
    if sock is not None and wt is None:
        ctx.check(f"{name}/exit:control-write-timeout-dropped-only-when-zero", sock.t == 0, info=T16)
    for fld in ("socket_timeout", "idle_timeout", "wait_future_timeout", "block_size", "path_timeout", "path_io", "command_connection", "response"):
        if conn.slots.get(fld) is None or conn.slots[fld].present is not True:
            ctx.check(f"{name}/exit:session-field-{fld}-initialised", z3.BoolVal(False), info=T17)
            return
    for fld, src in (("socket_timeout", "socket_timeout"), ("idle_timeout", "idle_timeout"), ("wait_future_timeout", "wait_future_timeout"), ("block_size", "block_size"), ("path_timeout", "path_timeout")):
        ctx.check(f"{name}/exit:session-carries-the-server's-{fld}", z3.BoolVal(conn.slots[fld].fut.value is srv.fields[src]), info=T16)
    # ---- C17 / C15: what is fresh per session and what is shared
    th = stream.fields["throttles"]
    ctx.check(f"{name}/exit:server-wide-throttle-is-the-shared-object", z3.BoolVal(th.get("server_global") is srv.fields["throttle"]), info=T15)
    pc = th.get("server_per_connection")
    tpc = srv.fields["throttle_per_connection"]
    fresh_clone = isinstance(pc, Obj) and pc is not tpc and pc.fields["read"] is not tpc.fields["read"] and pc.fields["write"] is not tpc.fields["write"]
    ctx.check(f"{name}/exit:per-connection-throttle-is-a-fresh-clone", z3.BoolVal(bool(fresh_clone)), info=T15)
    if fresh_clone:
        same_lim = same(pc.fields["read"].fields["_limit"], tpc.fields["read"].fields["_limit"]) and same(pc.fields["write"].fields["_limit"], tpc.fields["write"].fields["_limit"])
        ctx.check(f"{name}/exit:clone-keeps-the-configured-limits", z3.BoolVal(bool(same_lim)), info=T15)
    ctx.check(f"{name}/exit:stream-wraps-this-socket", z3.BoolVal(stream.fields["reader"] is S.vars["reader"] and stream.fields["writer"] is S.vars["writer"]), info=T17)
    ctx.check(f"{name}/exit:one-fresh-connection-object", z3.BoolVal(len(S.vars["made_conns"]) == 1 and conn is S.vars["made_conns"][0]), info=T17)
    mp = S.vars["made_pathio"]
    ctx.check(f"{name}/exit:one-new-backend-instance-bound-to-this-session", z3.BoolVal(len(mp) == 2 and conn.slots["path_io"].fut.value is mp[1] and mp[1].fields.get("connection") is conn and mp[0].fields.get("connection") is not conn), info=T17)
    ctx.check(f"{name}/exit:command-connection-is-this-stream", z3.BoolVal(conn.slots["command_connection"].fut.value is stream), info=T17)
    conns = S.vars["conns"]
    ok_reg = conns.get(stream) is conn and conns.get(S.vars["other"][0]) is S.vars["other"][1] and len(conns) == 2
    ctx.check(f"{name}/exit:registered-under-its-own-key-others-untouched", z3.BoolVal(bool(ok_reg)), info=T17)
    def slotval(n):
        sl = conn.slots.get(n)
        return sl.fut.value if sl is not None and sl.present is True and sl.fut.done is True else KeyError

    ew = slotval("extra_workers")
    ctx.check(f"{name}/exit:fresh-empty-worker-set", z3.BoolVal(isinstance(ew, set) and not ew and not any(ew is x for x in S.vars.get("preexisting_sets", []))), info=T17)
    init_ok = slotval("acquired") is False and slotval("restart_offset") == 0 and slotval("passive_server_port") == 0
    ctx.check(f"{name}/exit:initial-session-state", z3.BoolVal(bool(init_ok)), info={"props": ["C17", "C10", "C05"]})
    for fld in ("user", "logged", "current_directory", "rename_from", "passive_server", "data_connection"):
        sl = conn.slots.get(fld)
        ctx.check(f"{name}/exit:no-inherited-{fld}", z3.BoolVal(sl is None or sl.present is False), info=T17)
    names = sorted(getattr(t.coro, "name", "?") for t in S.vars["spawned"])
    ctx.check(f"{name}/exit:starts-greeting-writer-and-reader", z3.BoolVal(names == ["Server.greeting", "Server.parse_command", "Server.response_writer"]), info={"props": ["C17", "C05"], "names": names})
    # the response callable feeds this session's own queue
    q = v.get(L["response_queue"])
    resp = conn.slots["response"].fut.value
    it.call(resp, ["000", "probe"], {})
    ctx.check(f"{name}/exit:replies-go-to-the-session's-own-queue", z3.BoolVal(len(q.items) == 1 and q.items[0] == ("000", "probe")), info=T17)


c.exit_hook = prefix_exit


# ------------------------------------------------------------------------------------ body of `for task in done:`
from pyvc.core import BreakSig, ContinueSig, ReturnSig  # noqa: E402
from pyvc.models_aio import QueueModel  # noqa: E402


def find_for_body(it):
    fn, tr = find_dispatcher_try(it)
    L = dispatcher_locals(fn)
    fors = [n for st in tr.body for n in ast.walk(st) if isinstance(n, ast.For) and isinstance(n.target, ast.Name) and n.target.id == L["task"] and isinstance(n.iter, ast.Name) and n.iter.id == L["done"]]
    if len(fors) != 1:
        raise Unsupported("Server.dispatcher: expected exactly one `for <task> in <done>` loop inside the try")
    return fors[0].body


def command_table(it, server):
    """self.commands_mapping as Server.__init__ builds it: the Dict display is read from the AST and evaluated"""
    cls = it.modules[SERVER].attrs["Server"]
    init = cls.attrs["__init__"].node
    for n in ast.walk(init):
        if isinstance(n, ast.Assign) and isinstance(n.targets[0], ast.Attribute) and n.targets[0].attr == "commands_mapping":
            env = Env(it.modules[SERVER].env)
            env.vars["self"] = server
            return it.eval(n.value, env)
    raise Unsupported("Server.__init__: commands_mapping assignment not found")


KINDS = ["True", "False", "None", "command", "PathIOError", "ValueError", "UnicodeDecodeError", "ConnectionResetError", "TimeoutError", "CancelledError"]


def setup_for_body(u):
    it = u.it
    sess = Session(u, mode="SEQ", limits=False, ports=False, path_theory=False)
    body = find_for_body(it)
    srv, conn = sess.server, sess.conn
    table = command_table(it, srv)
    srv.fields["commands_mapping"] = table
    kind = KINDS[u.choose(len(KINDS), "finished-task-kind")]
    task = TaskModel(None, tag="finished")
    task.state = "done"
    cmdv = restv = None
    if kind == "True":
        task.result_v = True
    elif kind == "False":
        task.result_v = False
    elif kind == "None":
        task.result_v = None
    elif kind == "command":
        keys = sorted(table)
        k = u.choose(len(keys) + 1, "verb")
        if k < len(keys):
            cmdv = keys[k]
        else:
            cmdv = fresh("str", "unknown_verb")
            for kk in keys:
                u.assume(cmdv.t != z3.StringVal(kk))
        restv = fresh("str", "rest")
        task.result_v = (cmdv, restv)
    else:
        cls = it.modules["aioftp.errors"].attrs["PathIOError"] if kind == "PathIOError" else it.exc_classes[kind]
        task.exc = it.make_exc(cls)
    queue = QueueModel("responses")
    stream = conn.slots["command_connection"].fut.value
    pending = {TaskModel(None, tag="response_writer")}
    env = Env(it.modules[SERVER].env)
    L = dispatcher_locals(find_dispatcher_try(it)[0])
    env.vars["self"] = srv
    for logical, value in (("connection", conn), ("pending", pending), ("response_queue", queue), ("stream", stream), ("task", task)):
        env.vars[L[logical]] = value
    spawned = []
    it.hooks["on_spawn"] = lambda i, t: spawned.append(t)
    offset0 = conn.slots["restart_offset"].fut.value
    flow = {}

    def run_block(i, a, k):
        def run():
            try:
                i.exec_block(body, env, "Server.dispatcher.<locals>")
                flow["how"] = "fallthrough"
            except ContinueSig:
                flow["how"] = "continue"
            except ReturnSig:
                flow["how"] = "return"
            except BreakSig:
                flow["how"] = "break"

        return Coro(run, "dispatcher/for-body")

    vars = {"self": srv, "sess": sess, "kind": kind, "cmd": cmdv, "rest": restv, "spawned": spawned, "pending": pending, "pending0": set(pending), "flow": flow, "offset0": offset0, "table": table, "queue": queue}
    return Builtin("dispatcher/for-body", run_block), [], {}, vars


c = contract(SERVER, "Server.dispatcher", props=["C05", "C13", "C19", "C16"], name="Server.dispatcher/for-task-in-done")
c.setup = setup_for_body
c.raises = {"BaseException": []}


def for_body_exit(S, outcome):
    it = S.it
    ctx = it.ctx
    name = "Server.dispatcher/for-task-in-done"
    sess, kind = S.vars["sess"], S.vars["kind"]
    cs = codes(sess)
    flow = S.vars["flow"].get("how")
    spawned = S.vars["spawned"]
    new_pending = [t for t in S.vars["pending"] if t not in S.vars["pending0"]]
    T = {"props": ["C05", "C13", "C19"] + (["C16"] if kind == "TimeoutError" else [])}  # a timed-out reader/transfer ends the session (C16)
    if outcome[0] == "raise":
        en = outcome[1].cls.name
        # only a task's own non-PathIOError exception may leave the loop (it ends this session through the outer handlers)
        ctx.check(f"{name}/raises:only-the-finished-task's-own-exception-propagates", z3.BoolVal(kind in KINDS[5:] and en == kind), info=T)
        ctx.check(f"{name}/raises:no-reply-on-the-way-out", z3.BoolVal(not cs), info=T)
        return
    if kind == "PathIOError":
        ctx.check(f"{name}/exit:backend-failure-answered-451-and-the-session-continues", z3.BoolVal(cs == ["451"] and flow == "continue" and not spawned and not new_pending), info={"props": ["C13", "C05"]})
        return
    if kind in KINDS[5:]:
        ctx.check(f"{name}/exit:a-failed-task-must-not-be-swallowed", z3.BoolVal(False), info=T)
        return
    if kind == "False":
        joined = any(e[0] == "join" for e in ctx.events)
        ctx.check(f"{name}/exit:False-ends-the-session-after-flushing-the-replies", z3.BoolVal(flow == "return" and joined and not spawned), info=T)
        return
    if kind in ("True", "None"):
        ctx.check(f"{name}/exit:a-finished-handler-changes-nothing", z3.BoolVal(flow == "fallthrough" and not cs and not spawned and not new_pending), info=T)
        return
    # ---- a parsed command line
    cmd = S.vars["cmd"]
    names = [getattr(t.coro, "name", "?") for t in spawned]
    rearmed = names.count("Server.parse_command") == 1
    ctx.check(f"{name}/exit:exactly-one-new-reader-armed", z3.BoolVal(rearmed and flow == "fallthrough"), info=T)
    others = [t for t in spawned if getattr(t.coro, "name", "?") != "Server.parse_command"]
    conn = sess.conn
    ro = conn.slots["restart_offset"].fut.value
    if isinstance(cmd, str):
        target = S.vars["table"][cmd]
        want = target.func.qualname if hasattr(target, "func") else "?"
        ok = len(others) == 1 and not cs and all(t in S.vars["pending"] for t in spawned)
        ctx.check(f"{name}/exit:known-verb-starts-exactly-its-handler-and-no-reply", z3.BoolVal(bool(ok)), info=dict(T, cmd=cmd))
        if ok:
            meta = others[0].coro.meta
            clo = meta.get("closure")
            args_ok = clo is not None and meta["env"].vars.get("connection") is conn and meta["env"].vars.get("rest") is S.vars["rest"]
            ctx.check(f"{name}/exit:handler-gets-this-session-and-the-argument", z3.BoolVal(bool(args_ok)), info=T)
        if cmd in ("retr", "stor", "appe"):
            ctx.check(f"{name}/exit:transfer-verbs-keep-the-restart-offset", z3.BoolVal(ro is S.vars["offset0"]), info=T)
        else:
            ctx.check(f"{name}/exit:restart-offset-cleared-by-any-other-command", tt(it.eq_term(ro, 0)), info=T)
    else:
        ctx.check(f"{name}/exit:unknown-verb-answered-502-and-nothing-else", z3.BoolVal(cs == ["502"] and not others), info=T)


c.exit_hook = for_body_exit


# ------------------------------------------------------------------------------------ Server.close / Server.__init__
from pyvc.models_aio import ListenerModel, PortPool  # noqa: E402


def setup_close(u):
    it = u.it
    sess = Session(u, mode="SEQ", ports=False)
    srv = sess.server
    listener = ListenerModel(fresh("int", "port"), tag="control-listener")
    srv.fields["server"] = listener
    k = u.choose(3, "live-sessions")
    conns = {}
    disp = []
    for j in range(k):
        c2 = ConnModel(sess)
        t = TaskModel(None, tag=f"dispatcher{j}")
        c2.set_done("_dispatcher", t)
        conns[Opaque(f"stream{j}")] = c2
        disp.append(t)
    srv.fields["connections"] = conns
    return it.getattr_(srv, "close"), [], {}, {"self": srv, "listener": listener, "dispatchers": disp}


c = contract(SERVER, "Server.close", props=["C12"])
c.setup = setup_close
c.raises_("CancelledError")
c.assumptions.append("B-sessions: 0..2 live sessions in the connection table (the loop over the table is unrolled)")


def close_post(S):
    it = S.it
    ev = it.ctx.events
    cancelled = {e[1] for e in ev if e[0] == "task.cancel"}
    awaited = it.ctx.ghost.get("awaited_tasks", [])
    d = S.vars["dispatchers"]
    wc = [t for t in awaited if getattr(getattr(t, "coro", None), "name", "") == "wait_closed"]
    return bool(S.vars["listener"].closed and all(t in cancelled for t in d) and all(t in awaited for t in d) and len(wc) == 1)


c.ensures(close_post, "closes-the-listener-cancels-and-awaits-every-session-dispatcher")


def setup_init(u):
    it = u.it
    mod = it.modules[SERVER]
    n = u.choose(4, "number-of-data-ports")  # 0..2 ports, or None (unrestricted)
    ports = None if n == 3 else [fresh("int", f"port{i}") for i in range(n)]
    for p in ports or []:
        u.assume(z3.And(p.t > 0, p.t < 65536))
    maxc = fresh("int", "maximum_connections")
    u.assume(maxc.t >= 0)
    kwargs = {"data_ports": ports, "maximum_connections": maxc, "path_io_factory": Opaque("factory")}

    def run(i, a, k):
        return i.call(mod.attrs["Server"], [], kwargs)

    return Builtin("Server(...)", run), [], {}, {"ports": ports, "maxc": maxc}


c = contract(SERVER, "Server.__init__", props=["C11", "C10", "C15"])
c.setup = setup_init
c.raises = {}
c.assumptions.append("B-ports: data_ports lists of 0..2 ports (or None); the construction loop is unrolled")


def init_post(S):
    it = S.it
    srv = S.result
    ports = S.vars["ports"]
    pool = srv.fields["available_data_ports"]
    conj = []
    if ports is None:
        ok_pool = pool is None
    else:
        ok_pool = isinstance(pool, PortPool)
        if ok_pool:
            want = z3.K(z3.IntSort(), z3.IntVal(0))
            for p in ports:
                want = z3.Store(want, p.t, want[p.t] + 1)
            conj.append(pool.cnt == want)
            conj.append(pool.size == len(ports))
    ac = srv.fields["available_connections"]
    conj.append(it.eq_term(ac.fields["value"], S.vars["maxc"]))
    conj.append(it.eq_term(ac.fields["maximum_value"], S.vars["maxc"]))
    th, tpc = srv.fields["throttle"], srv.fields["throttle_per_connection"]
    distinct = th is not tpc and th.fields["read"] is not th.fields["write"] and th.fields["read"] is not tpc.fields["read"]
    table = srv.fields["commands_mapping"]
    verbs_ok = sorted(table) == sorted(["abor", "appe", "cdup", "cwd", "dele", "epsv", "list", "mkd", "mlsd", "mlst", "pass", "pasv", "pbsz", "prot", "pwd", "quit", "rest", "retr", "rmd", "rnfr", "rnto", "stor", "syst", "type", "user"])
    bound = all(getattr(v, "obj", None) is srv for v in table.values())
    conj = [z3.BoolVal(x) if isinstance(x, bool) else x for x in conj]
    return z3.And(z3.BoolVal(bool(ok_pool and distinct and verbs_ok and bound and not srv.fields["throttle_per_user"])), *conj)


c.ensures(init_post, "pool-holds-exactly-the-configured-ports-counters-full-throttles-distinct-25-verbs-bound-to-this-server")


# ------------------------------------------------------------------------------------ Server.response_writer
from pyvc.models_aio import QueueModel  # noqa: E402
from pyvc.unit import LoopSpec  # noqa: E402


def setup_response_writer(u):
    it = u.it
    sess = Session(u, mode="SEQ", ports=False)
    srv = sess.server
    stream = sess.conn.slots["command_connection"].fut.value
    q = QueueModel("responses")

    def head_of_queue(i, queue):
        # whatever reply the handlers queued first (FIFO order of asyncio.Queue is T-aio)
        item = (fresh("str", "code"), fresh("str", "info"), fresh("bool", "is_list"))[: 2 + i.ctx.choose(2, "reply-arity")]
        i.ctx.event("got", item)
        return item

    it.hooks["queue_get"] = head_of_queue

    def write_response(i, a, k):
        def run():
            i.ctx.event("write-begin", a, k)
            i.suspend("write_response")
            if i.ctx.choose(2, "control-write-outcome") == 1:
                i.throw("ConnectionResetError")
            i.ctx.event("written", a, k)

        return Coro(run, "write_response")

    srv.fields["write_response"] = Builtin("Server.write_response (recorded)", write_response)
    f = it.getattr_(srv, "response_writer")
    return f, [stream, q], {}, {"self": srv, "stream": stream, "queue": q, "head": {"ev": 0}}


def rw_iteration_ok(it, vars, finished):
    """one turn of the writer: takes the head of the queue, hands exactly that reply - unchanged, once - to
    write_response on this session's control stream, and marks it done exactly once, after the write attempt, whether
    the write succeeded, failed or was cancelled (the dispatcher's teardown joins the queue)"""
    ev = it.ctx.events[vars["head"]["ev"]:]
    got = [e for e in ev if e[0] == "got"]
    begun = [e for e in ev if e[0] == "write-begin"]
    done = [i for i, e in enumerate(ev) if e[0] == "task_done"]
    if not got:
        return len(begun) == 0 and len(done) == 0 and not finished
    if len(got) != 1 or len(begun) != 1 or len(done) != 1:
        return False
    a, k = begun[0][1], begun[0][2]
    item = got[0][1]
    same = not k and len(a) == 1 + len(item) and a[0] is vars["stream"] and all(x is y for x, y in zip(a[1:], item))
    wb = [i for i, e in enumerate(ev) if e[0] == "write-begin"][0]
    return bool(same and wb < done[0])


def rw_ghost(it, env, phase):
    us = it.ctx.unit_state
    if phase == "step":
        it.ctx.check("Server.response_writer/iteration:one-reply-taken-written-unchanged-and-marked-done-once", z3.BoolVal(bool(rw_iteration_ok(it, us.vars, True))), info={"props": ["C05", "C06", "C12"]})


def rw_havoc(it, env):
    it.ctx.unit_state.vars["head"]["ev"] = len(it.ctx.events)


def rw_exit(S, outcome):
    it = S.it
    if outcome[0] != "raise":
        it.ctx.check("Server.response_writer/exit:never-returns", z3.BoolVal(False), info={"props": ["C05"]})
        return
    name = outcome[1].cls.name
    ev = it.ctx.events[S.vars["head"]["ev"]:]
    got = [e for e in ev if e[0] == "got"]
    it.ctx.check(f"Server.response_writer/raises:{name}:reply-in-hand-is-marked-done-once", z3.BoolVal(bool(rw_iteration_ok(it, S.vars, False)) if got else not [e for e in ev if e[0] == "task_done"]), info={"props": ["C05", "C12"]})
    if name not in ("CancelledError", "ConnectionResetError"):
        it.ctx.check(f"Server.response_writer/raises:unexpected-{name}", z3.BoolVal(False), info={"props": ["C05", "C19"]})


c = contract(SERVER, "Server.response_writer", props=["C05", "C06", "C12"])
c.setup = setup_response_writer
c.loops = {("Server.response_writer", 0): LoopSpec(invariants=[], havoc=rw_havoc, ghost=rw_ghost)}
c.exit_hook = rw_exit
c.raises = {"BaseException": []}
c.cancellable = True
c.assumptions.append("T-aio Queue: get() returns the items in the order they were put (FIFO), each once; the unit quantifies over an arbitrary head item")


# ---- Server.close with ANY number of live sessions
from pyvc.objseq import ObjSeq  # noqa: E402
from pyvc.values import Model  # noqa: E402


class TaskBag(Model):
    """the local list `tasks` of Server.close inside/after its loop: the items it had before the loop plus (ghost) the
    dispatcher of every connection the loop has consumed - each append is checked to be exactly that"""

    model_name = "taskbag"

    def __init__(self, initial):
        super().__init__()
        self.initial = list(initial)
        self.appended = []

    def getattr(self, it, name):
        if name == "append":

            def ap(i, a, k):
                self.appended.append(a[0])
                i.ctx.event("bag.append", a[0])

            return Builtin("tasks.append", ap)
        raise Unsupported("list." + name)

    def iterate(self, it):
        return list(self.initial) + [self]

    def m___len__(self, it):
        n = fresh("int", "len_tasks")
        it.ctx.assume(n.t >= len(self.initial))
        return n


def setup_close_any(u):
    it = u.it
    sess = Session(u, mode="SEQ", ports=False)
    srv = sess.server
    listener = ListenerModel(fresh("int", "port"), tag="control-listener")
    srv.fields["server"] = listener
    ccls = u.cls(SERVER, "Server").__class__("connection-view", [], {})

    def make(it_, idx):
        o = Obj(ccls, tag="connection[i]")
        t = TaskModel(None, tag="dispatcher[i]")
        t.conn_index = idx
        o.fields["_dispatcher"] = t
        return o

    table = ObjSeq("sessions", make)
    # the local list that collects what the final asyncio.wait(...) awaits: its name is read from the real function
    import ast as _ast

    fn, _ = u.cls(SERVER, "Server").lookup("close")
    waited = [n.args[0].id for n in _ast.walk(fn.node) if isinstance(n, _ast.Call) and _ast.unparse(n.func) == "asyncio.wait" and n.args and isinstance(n.args[0], _ast.Name)]
    if len(waited) != 1:
        raise Unsupported("Server.close: expected one `asyncio.wait(<local list>)`; the any-number loop contract does not apply to another shape")
    LIST = waited[0]

    class Table(Model):
        model_name = "connections"

        def getattr(self, i, name):
            if name == "values":
                return Builtin("connections.values", lambda i2, a, k: table)
            raise Unsupported("connections." + name)

        def m___len__(self, i):
            return SV("int", table.n)

    srv.fields["connections"] = Table()
    bag = {}
    head = {"ev": 0}

    def tasks_shape(i):
        if "b" not in bag:
            bag["b"] = TaskBag(bag.get("initial", []))
        return bag["b"]

    def havoc(i, env):
        head["ev"] = len(i.ctx.events)

    def ghost(i, env, phase):
        if phase == "init":
            try:
                bag["initial"] = list(env.lookup(LIST))
            except KeyError:
                # this unit's loop contract is written for "a local list `tasks` collects what is awaited at the end";
                # another shape of the function is outside it (undecided here; the 0..2-session unit is shape-independent)
                raise Unsupported("Server.close: no local list `tasks` at the loop: the any-number loop contract does not apply")
            return
        if phase != "step":
            return
        ev = i.ctx.events[head["ev"]:]
        taken = [e for e in ev if e[0] == "seq.next" and e[1] is table]
        if len(taken) != 1:
            raise Unsupported("Server.close: the loop did not take exactly one session per iteration")
        d = taken[0][2].fields["_dispatcher"]
        cancels = [e for e in ev if e[0] == "task.cancel"]
        apps = [e for e in ev if e[0] == "bag.append"]
        ok = len(cancels) == 1 and cancels[0][1] is d and len(apps) == 1 and apps[0][1] is d
        i.ctx.check("Server.close/iteration:the-session's-dispatcher-is-cancelled-and-queued-for-the-final-wait", z3.BoolVal(bool(ok)), info={"props": ["C12"]})

    spec = LoopSpec(invariants=[], shapes={LIST: tasks_shape}, havoc=havoc, ghost=ghost)
    it.hooks.setdefault("loops", {})[(SERVER, "Server.close", 0)] = spec
    return it.getattr_(srv, "close"), [], {}, {"self": srv, "listener": listener, "bag": bag, "table": table}


c = contract(SERVER, "Server.close", props=["C12"], name="Server.close#any-number-of-sessions")
c.setup = setup_close_any
c.raises_("CancelledError")
c.assumptions.append("the connection table holds any number of sessions (a list of unknown length); per-iteration obligation + induction: every session's dispatcher is cancelled and is in the list handed to the final asyncio.wait")


def close_any_post(S):
    it = S.it
    bag = S.vars["bag"].get("b")
    awaited = it.ctx.ghost.get("awaited_tasks", [])
    wc = [t for t in awaited if getattr(getattr(t, "coro", None), "name", "") == "wait_closed"]
    return bool(S.vars["listener"].closed and bag is not None and any(t is bag for t in awaited) and len(wc) == 1)


c.ensures(close_any_post, "closes-the-listener-and-waits-for-wait_closed-and-for-the-whole-list-of-dispatchers")
