"""Block contracts for Server.dispatcher (DESIGN.md 2.7): the `finally:` suite, extracted structurally from the
AST of the real function on every run and executed with precondition Inv only (it is entered from every exit
of the try: return, exception, cancellation at any suspension point)."""
import ast

import z3

from contracts import c02_paths, c10_limits, c11_ports  # noqa: F401
from contracts.server_units import codes, handler_exit
from pyvc.core import SV, PyRaise, Unsupported, fresh
from pyvc.models_aio import TaskModel
from pyvc.session import b_and, b_implies, b_not, b_or, tt
from pyvc.sessionenv import Session
from pyvc.unit import contract
from pyvc.values import Builtin, Coro, Env

SERVER = "aioftp.server"


def find_dispatcher_try(it):
    mod = it.modules[SERVER]
    for n in ast.walk(mod.tree):
        if isinstance(n, ast.AsyncFunctionDef) and n.name == "dispatcher":
            tries = [s for s in n.body if isinstance(s, ast.Try)]
            if len(tries) != 1:
                raise Unsupported("Server.dispatcher: expected exactly one top-level try statement")
            return n, tries[0]
    raise Unsupported("Server.dispatcher not found")


def setup_finally(u):
    it = u.it
    sess = Session(u, mode="PIPE", limits=True, ports=None)
    u.sess = sess
    sess.mode = "TEARDOWN"  # (the arbitrary initial state was drawn under Inv; see Session.on_suspend)
    fn, tr = find_dispatcher_try(it)
    if not tr.finalbody:
        raise Unsupported("Server.dispatcher: the try statement has no finally suite")
    conn = sess.conn
    # locals of dispatcher that the suite reads
    pending = {TaskModel(None, tag="parse_command"), TaskModel(None, tag="response_writer"), TaskModel(None, tag="some-handler")}
    stream = conn.slots["command_connection"].fut.value
    env = Env(it.modules[SERVER].env)
    env.vars.update(
        self=sess.server,
        connection=conn,
        pending=pending,
        stream=stream,
        key=stream,
        host=fresh("str", "host"),
        port=fresh("int", "peer_port"),
    )
    # the session is registered under its own key (set-up prefix of dispatcher)
    sess.server.fields["connections"].member[id(stream)] = True
    # nothing is in flight when the try is left: guaranteed on every exit by _start_passive_server's contract
    pool = sess.server.fields["available_data_ports"]

    def run_block(i, a, k):
        def run():
            i.exec_block(tr.finalbody, env, "Server.dispatcher.<locals>")
            return None

        return Coro(run, "dispatcher/finally")

    vars = {"self": sess.server, "connection": conn, "sess": sess, "pending": pending, "stream": stream, "env": env}
    vars["listener0"] = conn.slots["passive_server"].fut.value
    vars["listener_done0"] = conn.done_term("passive_server")
    vars["data0"] = conn.slots["data_connection"].fut.value
    vars["data_done0"] = conn.done_term("data_connection")
    return Builtin("dispatcher/finally", run_block), [], {}, vars


c = contract(SERVER, "Server.dispatcher", props=["C10", "C11", "C12"], name="Server.dispatcher/finally")
c.setup = setup_finally
c.uses = [(SERVER, "AvailableConnections.release")]
c.raises = {}
c.assumptions.append("block contract: the finally suite of Server.dispatcher is verified with precondition Inv only; it is entered from every exit of the try (T-py: finally always runs)")


def finally_exit(S, outcome):
    sess = S.vars["sess"]
    it = S.it
    ctx = it.ctx
    conn = sess.conn
    name = "Server.dispatcher/finally"
    if outcome[0] == "raise":
        ctx.check(f"{name}/raises:unexpected-{outcome[1].cls.name}", z3.BoolVal(False), info={"props": ["C10", "C11", "C12"], "exc": outcome[1].cls.name})
        return
    closed_loop = ctx.ghost.get("loop_closed")
    loop_open = True if closed_loop is None else z3.Not(closed_loop.t)
    # ---- C10: every slot is returned
    ac = sess.server.fields["available_connections"]
    v = it.unbox(ac.fields["value"])
    if v is not None:
        ctx.check(f"{name}/exit:server-slot-returned", v.t == sess.ghost["srv_rest"], info={"props": ["C10"]})
    for obj, cond in sess.ghost.get("held_slots", []):
        ctx.check(f"{name}/exit:user-slot-returned", tt(b_not(cond)), info={"props": ["C10"]})
    # ---- C11: the session's port is back in the pool
    pool = sess.server.fields["available_data_ports"]
    if pool is not None:
        ctx.check(f"{name}/exit:port-returned-to-pool", tt(b_implies(loop_open, pool.cnt == sess.ghost["pool_rest"])), info={"props": ["C11", "C12"]})
    # ---- C12: everything the session held is released
    ev = ctx.events
    cancelled = {e[1] for e in ev if e[0] == "task.cancel"}
    tasks = list(S.vars["pending"]) + conn.slots["extra_workers"].fut.value.iterate(it)
    all_cancelled = all(t in cancelled for t in tasks)
    ctx.check(f"{name}/exit:all-session-tasks-cancelled", tt(b_implies(loop_open, all_cancelled)), info={"props": ["C12"]})
    awaited = ctx.ghost.get("awaited_tasks", [])
    ctx.check(f"{name}/exit:all-session-tasks-awaited", tt(b_implies(loop_open, all(t in awaited for t in tasks))), info={"props": ["C12"]})
    lst = S.vars["listener0"]
    ctx.check(f"{name}/exit:listener-closed", tt(b_implies(b_and(loop_open, S.vars["listener_done0"]), lst.closed)), info={"props": ["C12", "C11"]})
    data = S.vars["data0"]
    ctx.check(f"{name}/exit:data-connection-closed", tt(b_implies(b_and(loop_open, S.vars["data_done0"]), data.fields["writer"].closed)), info={"props": ["C12"]})
    ctx.check(f"{name}/exit:control-connection-closed", tt(b_implies(loop_open, S.vars["stream"].fields["writer"].closed)), info={"props": ["C12"]})
    gone = sess.server.fields["connections"].member.get(id(S.vars["stream"]))
    ctx.check(f"{name}/exit:removed-from-connection-table", z3.BoolVal(gone is False), info={"props": ["C12"]})


c.exit_hook = finally_exit
