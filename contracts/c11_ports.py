"""C11 — passive data-port pool: Server._start_passive_server keeps the ledger on every exit."""
import z3

from contracts import c02_paths, c10_limits  # noqa: F401
from pyvc.core import SV, PyRaise, as_int, fresh
from pyvc.models_aio import ListenerModel, PortPool, SymIntSet
from pyvc.sessionenv import Session
from pyvc.unit import LoopSpec, contract
from pyvc.values import Builtin, Coro
import itertools

_ctr = itertools.count()

SERVER = "aioftp.server"


def setup_sps(u, mode="SEQ"):
    it = u.it
    sess = Session(u, mode=mode, ports=None)
    # call-site precondition (pasv/epsv): no listener is registered yet
    u.assume(z3.Not(tt_(sess.conn.done_term("passive_server"))))
    u.sess = sess
    pool = sess.server.fields["available_data_ports"]
    # handler_callback is opaque for this function
    cb = Builtin("handler_callback", lambda i, a, k: None)

    def start_server(i, cb_, host, port, kw):
        c = i.ctx.choose(2, "start_server-outcome")
        if c == 1:
            e = i.make_exc("OSError")
            e.fields["errno"] = fresh("int", "errno")
            raise PyRaise(e)
        l = ListenerModel(port, cb_, tag="new")
        sess.effect("listen", listener=l)
        i.ctx.event("listen", l)
        return l

    it.hooks["start_server"] = start_server
    f = it.getattr_(sess.server, "_start_passive_server")
    vars = {"self": sess.server, "connection": sess.conn, "sess": sess}
    return f, [sess.conn, cb], {}, vars


c = contract(SERVER, "Server._start_passive_server", props=["C11", "C12"])
c.setup = setup_sps
c.cancellable = True
c.may_suspend = True


def the_pool(S):
    return S.vars["self"].fields["available_data_ports"]


def nothing_in_flight(S):
    pool = the_pool(S)
    return True if pool is None else pool.inflight is None


def port_in_flight_for_session(S):
    """normal return: exactly the port taken is in flight, recorded as the session's port and bound by the listener"""
    pool = the_pool(S)
    if pool is None:
        return True
    conn = S.vars["connection"]
    port = conn.slots["passive_server_port"].fut.value
    if pool.inflight is None:
        return False
    it = S.it
    return z3.And(tt_(it.eq_term(pool.inflight, port)), tt_(it.eq_term(S.result.port, port)))


def tt_(x):
    return z3.BoolVal(x) if isinstance(x, bool) else x


def havoc_pool(it, env):
    """the loop body suspends: by the time of an arbitrary iteration other sessions have moved ports"""
    sess = it.ctx.unit_state.vars["sess"]
    sess.arbitrary_state(fields=[])


c.loop(
    0,
    LoopSpec(
        invariants=[("nothing-in-flight-at-loop-head", lambda S: nothing_in_flight(S.it.ctx.unit_state)), ("I7-at-loop-head", lambda S: inv_I7(S))],
        shapes={"viewed_ports": lambda it: SymIntSet.fresh("viewed")},
        havoc=havoc_pool,
    ),
)


def inv_I7(S):
    sess = S.it.ctx.unit_state.vars["sess"]
    fs = [f for n, f in sess.inv() if n.startswith("I7")]
    return fs[0] if fs else True


c.ensures(port_in_flight_for_session, "taken-port-is-the-session-port-and-bound")
c.raises_("NoAvailablePort", nothing_in_flight, "exhaustion-leaves-nothing-in-flight")
c.raises_("OSError", nothing_in_flight, "bind-error-leaves-nothing-in-flight")
c.raises_("CancelledError", nothing_in_flight, "cancellation-leaves-nothing-in-flight")


def sps_modifies(S):
    """summary: the callee suspends, so pool/rest are whatever I7 allows afterwards; on a normal return a fresh
    port is in flight and recorded as the session's port"""
    pool = the_pool(S)
    if pool is not None:
        sess = S.vars["connection"].session
        sess.arbitrary_state(fields=[])
    return []


def sps_result(S):
    conn = S.vars["connection"]
    pool = the_pool(S)
    if pool is not None:
        port = fresh("int", "taken_port")
        conn.set_done("passive_server_port", port)
        pool.inflight = port
        # I7 with the port in flight (assumed as part of the callee's guarantee)
        sess = conn.session
        for n, f in sess.inv():
            if n.startswith("I7"):
                S.it.ctx.assume(f)
        return ListenerModel(port, tag="new")
    return ListenerModel(fresh("int", "kernel_port"), tag="new")


def sps_apply(S):
    sess = S.vars["connection"].session
    sess.effect("listen", listener=None)


c.modifies = sps_modifies
c.result_shape = sps_result
c.apply_hook = sps_apply


def sps_exit(S, outcome):
    S.vars["sess"].check_inv("exit")


c.exit_hook = sps_exit
c.requires(lambda S: z3.Not(tt_(S.vars["connection"].done_term("passive_server"))), "no-listener-registered-yet")

# the same function under arbitrary same-session interference (pipelined commands): exposes F-C11-b
import copy as _copy

cp = contract(SERVER, "Server._start_passive_server", props=["C11"], name="Server._start_passive_server#PIPE")
for _k, _v in c.__dict__.items():
    if _k not in ("name", "setup", "pre"):
        setattr(cp, _k, _v)
cp.pre = []
cp.setup = lambda u: setup_sps(u, "PIPE")
