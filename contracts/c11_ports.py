"""C11 — passive data-port pool: Server._start_passive_server keeps the ledger on every exit."""
import z3

from contracts import c02_paths, c10_limits  # noqa: F401
from pyvc.core import SV, PyRaise, as_int, fresh
from pyvc.models_aio import ListenerModel, PortPool, SymIntSet
from pyvc.sessionenv import Session
from pyvc.unit import LoopSpec, contract
from pyvc.values import Builtin, Coro
import itertools

_ctr = itertools.count()

SERVER = "aioftp.server"


def setup_sps(u, mode="SEQ"):
    it = u.it
    sess = Session(u, mode=mode, ports=None)
    # call-site precondition (pasv/epsv): no listener is registered yet
    u.assume(z3.Not(tt_(sess.conn.done_term("passive_server"))))
    u.sess = sess
    pool = sess.server.fields["available_data_ports"]
    # handler_callback is opaque for this function
    cb = Builtin("handler_callback", lambda i, a, k: None)

    def start_server(i, cb_, host, port, kw):
        c = i.ctx.choose(2, "start_server-outcome")
        if c == 1:
            e = i.make_exc("OSError")
            e.fields["errno"] = fresh("int", "errno")
            raise PyRaise(e)
        l = ListenerModel(port, cb_, tag="new")
        sess.effect("listen", listener=l)
        i.ctx.event("listen", l)
        return l

    it.hooks["start_server"] = start_server
    # the set of ports already tried: its name is read from the real function (`<name> = set()` before the retry loop)
    import ast as _ast

    fn, _ = u.cls(SERVER, "Server").lookup("_start_passive_server")
    sets = [n.targets[0].id for n in _ast.walk(fn.node) if isinstance(n, _ast.Assign) and isinstance(n.value, _ast.Call) and _ast.unparse(n.value) == "set()" and isinstance(n.targets[0], _ast.Name)]
    if len(sets) != 1:
        from pyvc.core import Unsupported

        raise Unsupported("Server._start_passive_server: expected one `<name> = set()` (ports already tried)")
    sess.viewed_name = sets[0]
    spec = it.hooks.get("loops", {}).get((SERVER, "Server._start_passive_server", 0))
    if spec is not None:
        spec.shapes = {sets[0]: lambda it_: SymIntSet.fresh("viewed")}
    f = it.getattr_(sess.server, "_start_passive_server")
    vars = {"self": sess.server, "connection": sess.conn, "sess": sess}
    return f, [sess.conn, cb], {}, vars


c = contract(SERVER, "Server._start_passive_server", props=["C11", "C12"])
c.setup = setup_sps
c.cancellable = True
c.may_suspend = True


def the_pool(S):
    return S.vars["self"].fields["available_data_ports"]


def nothing_in_flight(S):
    pool = the_pool(S)
    return True if pool is None else pool.inflight is None


def port_in_flight_for_session(S):
    """normal return: exactly the port taken is in flight, recorded as the session's port and bound by the listener"""
    pool = the_pool(S)
    if pool is None:
        return True
    conn = S.vars["connection"]
    port = conn.slots["passive_server_port"].fut.value
    if pool.inflight is None:
        return False
    it = S.it
    return z3.And(tt_(it.eq_term(pool.inflight, port)), tt_(it.eq_term(S.result.port, port)))


def tt_(x):
    return z3.BoolVal(x) if isinstance(x, bool) else x


def havoc_pool(it, env):
    """the loop body suspends: by the time of an arbitrary iteration other sessions have moved ports"""
    sess = it.ctx.unit_state.vars["sess"]
    sess.arbitrary_state(fields=[])
    # loop-head snapshot for the termination step (ghost)
    vp = env.lookup(getattr(sess, "viewed_name", "viewed_ports"))
    sess.retry_head = {"viewed": vp.arr, "rest": sess.ghost.get("pool_rest"), "ev": len(it.ctx.events)}


CONF = z3.Const("configured_ports", z3.ArraySort(z3.IntSort(), z3.IntSort()))  # ghost: the multiset given to Server(data_ports=...)


def retry_ghost(it, env, phase):
    """termination step (C11): an iteration that goes round again has taken a port that (a) was not in viewed_ports,
    (b) is in viewed_ports now while nothing was removed from it, (c) is one of the configured ports.  The successive
    viewed_ports therefore form a strictly increasing chain of subsets of the finite configured set;
    lean/RetryTerminates.lean (checked by the `lean_lemma` extra) proves such a chain has at most card(configured) steps."""
    if phase != "step":
        return
    sess = it.ctx.unit_state.vars["sess"]
    head = getattr(sess, "retry_head", None)
    got = [e for e in it.ctx.events[head["ev"]:] if e[0] == "pool.get"] if head else []
    if head is None or len(got) != 1 or head["rest"] is None:
        it.ctx.check("Server._start_passive_server/iteration:each-retry-views-a-configured-port-not-viewed-before", z3.BoolVal(False), info={"props": ["C11"]})
        return
    port = as_int(got[0][1])
    # instance of the ghost's definition: rest = configured - (ports held by other sessions), holdings are >= 0
    it.ctx.assume(head["rest"][port] <= CONF[port])
    now = env.lookup(getattr(sess, "viewed_name", "viewed_ports")).arr
    f = z3.And(z3.Not(head["viewed"][port]), now == z3.Store(head["viewed"], port, z3.BoolVal(True)), CONF[port] >= 1)
    it.ctx.check("Server._start_passive_server/iteration:each-retry-views-a-configured-port-not-viewed-before", f, info={"props": ["C11"]})


c.loop(
    0,
    LoopSpec(
        invariants=[("nothing-in-flight-at-loop-head", lambda S: nothing_in_flight(S.it.ctx.unit_state)), ("I7-at-loop-head", lambda S: inv_I7(S))],
        shapes={"viewed_ports": lambda it: SymIntSet.fresh("viewed")},
        havoc=havoc_pool,
        ghost=retry_ghost,
    ),
)


def inv_I7(S):
    sess = S.it.ctx.unit_state.vars["sess"]
    fs = [f for n, f in sess.inv() if n.startswith("I7")]
    return fs[0] if fs else True


c.ensures(port_in_flight_for_session, "taken-port-is-the-session-port-and-bound")
c.raises_("NoAvailablePort", nothing_in_flight, "exhaustion-leaves-nothing-in-flight")
c.raises_("OSError", nothing_in_flight, "bind-error-leaves-nothing-in-flight")
c.raises_("CancelledError", nothing_in_flight, "cancellation-leaves-nothing-in-flight")


def sps_modifies(S):
    """summary: the callee suspends, so pool/rest are whatever I7 allows afterwards; on a normal return a fresh
    port is in flight and recorded as the session's port"""
    pool = the_pool(S)
    if pool is not None:
        sess = S.vars["connection"].session
        sess.arbitrary_state(fields=[])
    return []


def sps_result(S):
    conn = S.vars["connection"]
    pool = the_pool(S)
    if pool is not None:
        port = fresh("int", "taken_port")
        conn.set_done("passive_server_port", port)
        pool.inflight = port
        # I7 with the port in flight (assumed as part of the callee's guarantee)
        sess = conn.session
        for n, f in sess.inv():
            if n.startswith("I7"):
                S.it.ctx.assume(f)
        return ListenerModel(port, tag="new")
    return ListenerModel(fresh("int", "kernel_port"), tag="new")


def sps_apply(S):
    sess = S.vars["connection"].session
    sess.effect("listen", listener=None)


c.modifies = sps_modifies
c.result_shape = sps_result
c.apply_hook = sps_apply


def sps_exit(S, outcome):
    S.vars["sess"].check_inv("exit")


c.exit_hook = sps_exit
c.requires(lambda S: z3.Not(tt_(S.vars["connection"].done_term("passive_server"))), "no-listener-registered-yet")

# the same function under arbitrary same-session interference (pipelined commands): exposes F-C11-b
import copy as _copy

cp = contract(SERVER, "Server._start_passive_server", props=["C11"], name="Server._start_passive_server#PIPE")
for _k, _v in c.__dict__.items():
    if _k not in ("name", "setup", "pre"):
        setattr(cp, _k, _v)
cp.pre = []
cp.setup = lambda u: setup_sps(u, "PIPE")


def lean_lemma(tier, seed):
    """the pigeonhole step of the termination argument, checked by Lean 4 + Mathlib on every run"""
    import os
    import shutil
    import subprocess
    import time

    root = os.path.dirname(os.path.dirname(os.path.abspath(__file__)))
    src = os.path.join(root, "lean", "RetryTerminates.lean")
    out = {"summary": "", "violations": [], "undecided": [], "evaluations": 0}
    if not shutil.which("lean"):
        out["undecided"].append("lean is not on PATH: the chain lemma of the retry-loop termination argument was not re-checked")
        return out
    t0 = time.time()
    try:
        p = subprocess.run(["lean", src], capture_output=True, text=True, timeout=900)
    except subprocess.TimeoutExpired:
        out["undecided"].append("lean timed out on lean/RetryTerminates.lean")
        return out
    txt = open(src).read()
    bad = [w for w in ("sorry", "admit", "axiom ") if w in txt]
    if p.returncode != 0 or bad or "sorry" in (p.stdout + p.stderr):
        out["undecided"].append(f"lean did not accept lean/RetryTerminates.lean (exit {p.returncode}, {bad}): {(p.stdout + p.stderr)[-300:]}")
        return out
    out["evaluations"] = 3
    out["summary"] = f"lean/RetryTerminates.lean: 3 theorems accepted by Lean {time.time() - t0:.1f}s (no sorry/axiom): a strictly increasing chain of subsets of the configured ports is finite"
    out["lemma"] = {"checker": "lean 4 + Mathlib", "file": "lean/RetryTerminates.lean", "theorems": ["chain_card_ge", "retry_loop_terminates", "retry_bound"]}
    return out
