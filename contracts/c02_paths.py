"""C02 — Server.get_paths: every client-supplied path resolves inside the user's base directory."""
import z3

from pyvc import models_path
from pyvc.core import SV, fresh
from pyvc.models_path import DD, SS, PathVal, SeqStr
from pyvc.sessionenv import Session
from pyvc.unit import LoopSpec, contract
from pyvc.values import Builtin

SERVER = "aioftp.server"

# norm: the left fold "'..' pops (stops at the root), anything else pushes" — uninterpreted, unfolded by the
# two definitional axioms below at the terms of the path (DESIGN.md 2.9)
f_norm = z3.Function("norm", SS, SS)


def step(acc, x):
    n = z3.Length(acc)
    return z3.If(x == DD, z3.If(n > 0, z3.SubSeq(acc, 0, n - 1), acc), z3.Concat(acc, z3.Unit(x)))


def spec_helpers():
    def norm(i, a, k):
        return SeqStr(f_norm(a[0].seq))

    def parts_of(i, a, k):
        return SeqStr(a[0].parts)

    def canonical(i, a, k):
        p = a[0]
        return SV(
            "bool",
            z3.And(p.anchor_t() == z3.StringVal("/"), models_path.no_dotdot(p.parts)),
        )

    def joined_parts(i, a, k):
        """parts (without anchor) of  cwd / path  for path given as str or path value"""
        cwd, path = a
        q = models_path.as_path(i, path)
        qa = q.is_abs_term()
        if isinstance(qa, bool):
            return SeqStr(q.parts if qa else z3.Concat(cwd.parts, q.parts))
        return SeqStr(z3.If(qa, q.parts, z3.Concat(cwd.parts, q.parts)))

    def is_rel(i, a, k):
        return i.call_method(a[0], "is_relative_to", [a[1]])

    def posix_join_parts(i, a, k):
        base, parts = a
        return PathVal("posix", base.anchor, z3.Concat(base.parts, parts.seq))

    def cwd_of(i, a, k):
        return a[0].slots["current_directory"].fut.value

    def base_of(i, a, k):
        return a[0].slots["user"].fut.value.fields["base_path"]

    def conn_done(i, a, k):
        return i.mk_bool(a[0].done_term(a[1]))

    return {
        "cwd_of": Builtin("cwd_of", cwd_of),
        "base_of": Builtin("base_of", base_of),
        "conn_done": Builtin("conn_done", conn_done),
        "norm": Builtin("norm", norm),
        "parts_of": Builtin("parts_of", parts_of),
        "canonical": Builtin("canonical", canonical),
        "joined_parts": Builtin("joined_parts", joined_parts),
        "is_rel": Builtin("is_rel", is_rel),
        "posix_join_parts": Builtin("posix_join_parts", posix_join_parts),
        "is_posix": Builtin("is_posix", lambda i, a, k: a[0].flavour == "posix"),
    }


def norm_ghost(it, env, phase):
    if phase == "init":
        it.ctx.assume(f_norm(z3.Empty(SS)) == z3.Empty(SS))
    else:
        done = env.vars["_done"].seq
        x = env.vars["_x"].t
        it.ctx.assume(f_norm(z3.Concat(done, z3.Unit(x))) == step(f_norm(done), x))


def setup_get_paths(u):
    sess = Session(u, mode="SEQ", ports=False)
    conn = sess.conn
    u.assume(conn.done_term("user"))
    u.assume(conn.done_term("current_directory"))
    # the precondition of get_paths is Inv.I2 (cwd canonical), assumed by Session.assume_inv
    if u.choose(2, "base-flavour-posix") == 1:
        user = conn.slots["user"].fut.value
        bp = models_path.fresh_seq("base")
        u.assume(models_path.all_clean(u.it, bp, "basec"))
        user.fields["base_path"] = PathVal("posix", fresh("str", "base_anchor"), bp)
        a = user.fields["base_path"].anchor.t
        u.assume(z3.Or(a == z3.StringVal(""), a == z3.StringVal("/"), a == z3.StringVal("//")))
    if u.choose(2, "path-arg-kind") == 0:
        path = fresh("str", "path_arg")  # what the client sent
    else:
        # cdup passes a path object (cwd.parent)
        ps = models_path.fresh_seq("argparts")
        u.assume(models_path.all_clean(u.it, ps, "argc"))
        path = PathVal("posix", "/", ps)
    f = u.cls(SERVER, "Server").attrs["get_paths"].func
    u.it.hooks.setdefault("spec_helpers", {}).update(spec_helpers())
    return f, [conn, path], {}, {"connection": conn, "path": path}


def get_paths_locals(fn):
    """the local that accumulates the resolved virtual path: the one the fold loop replaces by its own `.parent`"""
    import ast

    loops = [n for n in ast.walk(fn) if isinstance(n, ast.For)]
    if len(loops) != 1:
        raise KeyError("get_paths: expected one for loop")
    acc = [n.targets[0].id for n in ast.walk(loops[0]) if isinstance(n, ast.Assign) and isinstance(n.targets[0], ast.Name) and isinstance(n.value, ast.Attribute) and n.value.attr == "parent" and isinstance(n.value.value, ast.Name) and n.value.value.id == n.targets[0].id]
    if len(acc) != 1:
        raise KeyError("get_paths: accumulator `<x> = <x>.parent` not found")
    return {"resolved_virtual_path": acc[0]}


c = contract(SERVER, "Server.get_paths", props=["C02", "C04"])
c.setup = setup_get_paths
c.alias_resolver = get_paths_locals
c.loop(
    0,
    LoopSpec(
        invariants=[
            ("resolved-is-norm-of-consumed", "parts_of(resolved_virtual_path) == norm(_done)"),
            ("resolved-canonical", "canonical(resolved_virtual_path)"),
        ],
        shapes={"resolved_virtual_path": lambda it: PathVal("posix", "/", models_path.fresh_seq("resolved"))},
        ghost=norm_ghost,
    ),
)
c.requires("conn_done(connection, 'user') and conn_done(connection, 'current_directory')", "user-and-cwd-set")
c.requires("canonical(cwd_of(connection))", "cwd-canonical")
c.ensures("canonical(result[1])", "virtual-canonical")
c.ensures(
    "parts_of(result[1]) == norm(joined_parts(cwd_of(connection), path)) or (result[0] == base_of(connection) and len(parts_of(result[1])) == 0)",
    "virtual-is-norm-of-addressed-location",
)
c.ensures("is_rel(result[0], base_of(connection))", "real-confined-any-flavour")
c.ensures("implies(is_posix(base_of(connection)), result[0] == posix_join_parts(base_of(connection), parts_of(result[1])))", "real-posix-exact")


def result_shape(S):
    """fresh (real, virtual): real on the flavour of the user's base path, virtual a pure posix path"""
    it = S.it
    base = S.vars["connection"].slots["user"].fut.value.fields["base_path"]
    if base.flavour == "any":
        real = PathVal("any", None, None, opaque=z3.Const(f"real!{next(models_path._ctr)}", models_path.OP))
    else:
        real = PathVal("posix", fresh("str", "real_anchor"), models_path.fresh_seq("real"))
    real.resolved_for = S.vars["connection"].slots["user"].fut.value
    real.resolved_phase = getattr(getattr(S.vars["connection"], "session", None), "phase", 1)
    virtual = PathVal("posix", "/", models_path.fresh_seq("virtual"), abs_known=True)
    virtual.virtual_of = real
    return (real, virtual)


c.result_shape = result_shape
c.pure = True
c.assumptions.append("T-path: pathlib constructor/join/parent/parts/relative_to/is_relative_to axioms (DESIGN.md 3.2); J1 str(p) parses back to p")


# Summary without path theory, for units whose obligations do not speak about paths (workers: C12/C13/C14):
# dropping the postconditions only weakens what callers may assume.
ca = contract(SERVER, "Server.get_paths", props=[], name="Server.get_paths#opaque")
ca.self_check = False
ca.pure = True
ca.requires("conn_done(connection, 'user') and conn_done(connection, 'current_directory')", "user-and-cwd-set")


def _opaque_result(S):
    base = S.vars["connection"].slots["user"].fut.value.fields["base_path"]
    real = PathVal("any", None, None, opaque=z3.Const(f"real!{next(models_path._ctr)}", models_path.OP))
    real.resolved_for = S.vars["connection"].slots["user"].fut.value
    real.resolved_phase = getattr(getattr(S.vars["connection"], "session", None), "phase", 1)
    virtual = PathVal("any", None, None, opaque=z3.Const(f"virtual!{next(models_path._ctr)}", models_path.OP))
    virtual.virtual_of = real
    return (real, virtual)


ca.result_shape = _opaque_result
