"""C08 — names mean the same thing in every command and reply: round-trip lemmas over the encoder/decoder contracts."""
import z3

from contracts import c02_paths, server_units  # noqa: F401
from pyvc import models_path, strmodel
from pyvc.core import SV, PathEnd, PyRaise, as_int, fresh
from pyvc.models_path import PathVal
from pyvc.sessionenv import Session
from pyvc.strmodel import f_rstrip
from pyvc.unit import contract
from pyvc.values import Builtin, Coro, Obj

SERVER = "aioftp.server"
CLIENT = "aioftp.client"
T8 = {"props": ["C08"]}
E = z3.StringVal("")


def is_name(n):
    """the carrier set of C08: non-empty text without '/', NUL, CR, LF, not '.' or '..', no trailing whitespace"""
    S = z3.StringVal
    return z3.And(
        n != E,
        n != S("."),
        n != S(".."),
        z3.Not(z3.Contains(n, S("/"))),
        z3.Not(z3.Contains(n, S("\x00"))),
        z3.Not(z3.Contains(n, S("\r"))),
        z3.Not(z3.Contains(n, S("\n"))),
        f_rstrip(n) == n,
    )


# ------------------------------------------------------------------------------------ parse_mlsx_line
def setup_parse_mlsx(u):
    it = u.it
    cl = Obj(u.cls(CLIENT, "BaseClient"), tag="client")
    cl.fields["encoding"] = "utf-8"
    name = fresh("str", "name")
    facts = fresh("str", "facts")  # "Size=..;Create=..;Modify=..;Type=..;"
    A = u.assume
    A(is_name(name.t))
    A(z3.Not(z3.Contains(facts.t, z3.StringVal(" "))))
    A(z3.SuffixOf(z3.StringVal(";"), facts.t))
    line = z3.Concat(facts.t, z3.StringVal(" "), name.t)
    # instance of lemma:first-space-splits-facts-from-name (proved as its own obligation below)
    A(z3.IndexOf(line, z3.StringVal(" "), 0) == z3.Length(facts.t))
    # what arrives: the encoded line + CRLF (mlsd data channel) — or the str (MLST reply line)
    as_bytes = u.choose(2, "bytes-or-str") == 0
    A(f_rstrip(z3.Concat(line, z3.StringVal("\r\n"))) == line)  # T-str rstrip lemma (name carries no trailing whitespace)
    A(f_rstrip(line) == line)
    if as_bytes:
        full = z3.Concat(line, z3.StringVal("\r\n"))
        b = SV("bytes", strmodel.f_encode(full))
        A(strmodel.f_decodable(b.t))
        A(strmodel.f_decode(b.t) == full)
        arg = b
    else:
        arg = SV("str", line)
    f = it.getattr_(cl, "parse_mlsx_line")
    return f, [arg], {}, {"self": cl, "name": name, "facts": facts}


c = contract(CLIENT, "BaseClient.parse_mlsx_line", props=["C08", "C07"])
c.setup = setup_parse_mlsx
c.opts = {"feas_timeout_ms": 500, "solve_budget_s": 150, "solve_par": 8}


def mlsx_name_post(S):
    p = S.result[0]
    n = S.vars["name"].t
    return z3.And(p.anchor_t() == E, p.parts == z3.Unit(n))


c.ensures(mlsx_name_post, "the-name-after-the-first-space-is-returned-verbatim-as-a-one-component-path")
from pyvc.unit import LoopSpec  # noqa: E402

c.loop(0, LoopSpec(invariants=[], shapes={"entry": lambda it: strmodel.HavocDict()}))


def mlsx_locals(fn):
    """the dict of facts: the local the fact loop stores into (`<entry>[...] = ...`)"""
    import ast

    loops = [n for n in ast.walk(fn) if isinstance(n, ast.For)]
    tg = [n.targets[0].value.id for lp in loops for n in ast.walk(lp) if isinstance(n, ast.Assign) and isinstance(n.targets[0], ast.Subscript) and isinstance(n.targets[0].value, ast.Name)]
    if len(set(tg)) != 1:
        raise KeyError("parse_mlsx_line: fact dictionary not identified")
    return {"entry": tg[0]}


c.alias_resolver = mlsx_locals


# ------------------------------------------------------------------------------------ build_mlsx_string (name part)
def setup_build_mlsx(u):
    it = u.it
    it.hooks.setdefault("spec_helpers", {}).update(c02_paths.spec_helpers())
    sess = Session(u, mode="SEQ", ports=False, path_theory=False)
    sess.backend_suspends = False
    path = sess.mk_real_path("entry")
    f = it.getattr_(sess.server, "build_mlsx_string")
    return f, [sess.conn, path], {}, {"self": sess.server, "sess": sess, "path": path}


c = contract(SERVER, "Server.build_mlsx_string", props=["C08", "C07"])
c.setup = setup_build_mlsx
c.opts = {"solve_budget_s": 150, "solve_par": 8}
c.raises_("PathIOError")
c.assumptions.append("T-time: time.strftime('%Y%m%d%H%M%S', ...) yields digits only (no space, ';' or '=')")


def build_mlsx_post(S):
    it = S.it
    res = it.unbox(S.result).t
    name = it.getattr_(S.vars["path"], "name").t
    sp = z3.StringVal(" ")
    # "<facts> <name>": the facts part carries no space (so the first space is the separator), the name follows verbatim
    head = z3.SubString(res, 0, z3.Length(res) - z3.Length(name) - 1)
    return z3.And(z3.SuffixOf(z3.Concat(sp, name), res), z3.Not(z3.Contains(head, sp)), z3.SuffixOf(z3.StringVal(";"), head))


c.ensures(build_mlsx_post, "facts-without-spaces-then-one-space-then-the-name-verbatim")


# ------------------------------------------------------------------------------------ PWD reply (server side of lemma 2)
def pwd_reply_quotes_doubled(S):
    """RFC 959: the directory in a 257 reply is quoted and embedded quotes are doubled"""
    it = S.it
    sess = S.vars["sess"]
    for r in sess.replies:
        if r[0] == "257":
            cwd = sess.conn.slots["current_directory"].fut.value
            s = strmodel.to_str(it, cwd)
            q = z3.StringVal('"')
            doubled = strmodel.m_replace(it, s, ['"', '""'])
            want = z3.Concat(q, doubled.t if isinstance(doubled, SV) else z3.StringVal(doubled), q)
            got = it.unbox(r[1])
            got = got.t if isinstance(got, SV) else z3.StringVal(got)
            return got == want
    return True


# ------------------------------------------------------------------------------------ string lemma used above
def setup_first_space_lemma(u):
    F, n = fresh("str", "F"), fresh("str", "n")
    u.assume(z3.Not(z3.Contains(F.t, z3.StringVal(" "))))
    return Builtin("lemma", lambda i, a, k: None), [], {}, {"F": F, "n": n}


c = contract(CLIENT, "BaseClient", props=["C08", "C07"], name="lemma:first-space-splits-facts-from-name")
c.setup = setup_first_space_lemma
c.opts = {"solve_budget_s": 120}
c.ensures(lambda S: z3.IndexOf(z3.Concat(S.vars["F"].t, z3.StringVal(" "), S.vars["n"].t), z3.StringVal(" "), 0) == z3.Length(S.vars["F"].t), "index-of-the-first-space-is-the-length-of-a-space-free-prefix")
