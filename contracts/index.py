"""Property table: which contract modules, extra (bounded / cross-check) checkers, trusted base."""

T_PY = "T-py: Python semantics assumed by the executor (left-to-right evaluation, static attribute resolution to /repo classes, no monkeypatching or user subclasses, finally always runs, unbounded ints exact)"
T_ENGINE = "T-engine: the pyvc symbolic executor itself (mitigated by seeded-mutant self tests and CPython cross-checks)"
T_SOLVER = "T-solver: unsat answers of z3 5.1 / cvc5 1.0.3"
T_AIO = "T-aio: assumed contracts of asyncio (streams, wait_for, wait, gather, shield, sleep, Queue, PriorityQueue, start_server, create_task, Task.cancel) — DESIGN.md 3.1"
T_CONN = "T-conn: Connection container view (absent/pending/done per key) — DESIGN.md 2.4, validated by a bounded differential test"
T_IND = "T-ind: induction principle — an invariant re-established by every atomic block holds in every reachable state (DESIGN.md 2.6)"

T_PATH = "T-path: pathlib axioms (constructor, /, parent, parts, name, relative_to, is_relative_to; J1 str/parse round trip) — DESIGN.md 3.2, cross-checked by rt/c02_rt.py"


def c02_rt(tier, seed):
    from pyvc.rtcheck import run_rt

    return run_rt("c02_rt.py", "aioftp.server:Server.get_paths::Server.get_paths", tier, seed, 3000, 200000)


NOT_APPLICABLE = {}

def c04_rt(tier, seed):
    from pyvc.rtcheck import run_rt

    return run_rt("c04_rt.py", "aioftp.server:User.get_permissions::User.get_permissions", tier, seed, 2000, 100000)


def c08_rt(tier, seed):
    from pyvc.rtcheck import run_rt

    return run_rt("c08_rt.py", "rt:c08", tier, seed, 1500, 60000)


def xcheck(tier, seed):
    """executor vs CPython on concrete inputs (T-engine mitigation): a mismatch is a checker crash, not a verdict"""
    from pyvc import xcheck as xc

    r = xc.run(seed, 120 if tier == "quick" else 3000)
    out = {"summary": f"executor cross-check: {r['cases']} concrete executions of {len(r['per_function'])} real functions, pyvc interpreter vs CPython, mismatches={len(r['mismatches'])}, outside the subset={sum(r.get('outside_the_subset', {}).values())}", "violations": [], "undecided": [], "evaluations": r["cases"]}
    out["bounded"] = {"checker": "pyvc/xcheck.py", "what": "pyvc interpreter (concrete mode) agrees with CPython", "cases": r["cases"], "label": "bounded, validates the engine, not the property"}
    if r["mismatches"]:
        out["undecided"].append("ENGINE MISMATCH (checker bug): " + repr(r["mismatches"][0]))
    for fn, n in r.get("outside_the_subset", {}).items():
        if n == r["per_function"].get(fn):
            out["undecided"].append(f"executor cross-check: {fn} no longer executes in the interpreter ({r['why'].get(fn)})")
    return out


def c09_rt(tier, seed):
    from pyvc.rtcheck import run_rt

    return run_rt("c09_rt.py", "rt:c09", tier, seed, 400, 400, timeout=1500)


def c18_rt(tier, seed):
    from pyvc.rtcheck import run_rt

    return run_rt("c18_rt.py", "rt:c18", tier, seed, 120, 4000, timeout=1500)


def c19_rt(tier, seed):
    from pyvc.rtcheck import run_rt

    return run_rt("c19_rt.py", "rt:c19", tier, seed, 20000, 1000000)


def c01_rt(tier, seed):
    from pyvc.rtcheck import run_rt

    return run_rt("c01_rt.py", "rt:c01", tier, seed, 300, 5000)


def c07_rt(tier, seed):
    from pyvc.rtcheck import run_rt

    return run_rt("c07_rt.py", "rt:c07", tier, seed, 1500, 100000)


PROPS = {
    "C02": {
        "modules": ["contracts.c02_paths", "contracts.server_units", "contracts.worker_units"],
        "level": "proof",
        "extra": ["contracts.index.c02_rt"],
        "trusted_base": [T_PY, T_ENGINE, T_SOLVER, T_PATH, T_CONN],
        "assumptions": ["A-home: configured home_path values are normalised absolute paths (no '..' component)"],
        "not_decided": ["symlinks (the property is lexical)", "behaviour of a real Windows file system"],
        "explanation": "",
    },
    "C03": {
        "modules": ["contracts.server_units", "contracts.c03_auth"],
        "level": "proof",
        "trusted_base": [T_PY, T_ENGINE, T_SOLVER, T_AIO, T_CONN, T_IND, T_PATH],
        "assumptions": [
            "SEQ: the client sends one command at a time (C03's quantifier is over command sequences); between suspension points of a handler only data_connection and extra_workers may change",
            "A-um: the shipped MemoryUserManager is the user manager (custom managers are outside the claim); its methods do not suspend",
        ],
        "not_decided": ["custom user managers", "pipelined commands racing a handler across a suspension point are decided for the effect guards of the 18 path/transfer handlers (Server.<verb>#PIPE units; they fail on F-C03-a, a known finding) — not for USER/PASS/QUIT/SYST/REST/PASV/EPSV, whose SEQ units carry the state clauses"],
        "explanation": "",
    },
    "C11": {
        "modules": ["contracts.c11_ports", "contracts.server_units", "contracts.dispatcher_units"],
        "unit_filter": ["Server._start_passive_server", "Server._start_passive_server#PIPE", "Server.pasv#SEQ", "Server.epsv#SEQ", "Server.dispatcher/finally", "Server.__init__"],
        "extra": ["contracts.c11_ports.lean_lemma"],
        "level": "proof",
        "trusted_base": [T_PY, T_ENGINE, T_SOLVER, T_AIO, T_CONN, T_IND],
        "assumptions": ["PriorityQueue modelled as a multiset of ports (priorities ignored: the ledger is about ports)", "termination of the retry loop: the per-iteration obligation (each retry views a configured port not viewed before; z3) + lean/RetryTerminates.lean (a strictly increasing chain of subsets of a finite set is finite; Lean 4 + Mathlib, re-checked on every run); the instance rest[p] <= configured[p] of the ghost's definition is assumed at the port taken"],
        "not_decided": ["fairness of the retry order", "sockets CPython may leak when start_server itself is cancelled"],
        "explanation": "",
    },
    "C12": {
        "modules": ["contracts.worker_units", "contracts.dispatcher_units", "contracts.c11_ports"],
        "unit_filter": ["retr_worker@retr", "stor_worker@stor", "stor_worker@appe", "list_worker@list", "mlsd_worker@mlsd", "Server.dispatcher/finally", "Server._start_passive_server", "Server.close", "Server.close#any-number-of-sessions", "Server.response_writer"],
        "level": "proof",
        "trusted_base": [T_PY, T_ENGINE, T_SOLVER, T_AIO, T_CONN, T_IND],
        "assumptions": [
            "every suspension point of a worker may deliver CancelledError (server shutdown, peer disconnect and ABOR all arrive as cancellation); every backend call may raise PathIOError",
            "A-teardown: while the dispatcher's finally suite waits for the cancelled tasks, those tasks only release (their contracts) and other sessions move shared counters in balanced pairs",
        ],
        "not_decided": ["liveness: that cancelled tasks terminate, so that asyncio.wait(tasks_to_wait) and Server.close() complete", "sockets held inside CPython"],
        "explanation": "",
    },
    "C13": {
        "modules": ["contracts.worker_units", "contracts.server_units", "contracts.c13_pathio"],
        "extra": ["contracts.c13_pathio.structure_check"],
        "level": "proof",
        "trusted_base": [T_PY, T_ENGINE, T_SOLVER, T_AIO, T_CONN, T_IND],
        "assumptions": ["fault quantifier: every call of the abstract backend (exists, is_dir, is_file, stat, list step, mkdir, rmdir, unlink, rename, open, seek, read, write, close) forks a path raising PathIOError, for single and repeated faults alike"],
        "not_decided": ["behaviour of a real disk", "backends raising non-Exception BaseExceptions", "'other sessions are unaffected' beyond the frame conditions of C17"],
        "explanation": "",
    },
    "C14": {
        "modules": ["contracts.worker_units", "contracts.server_units"],
        "unit_filter": ["retr_worker@retr", "stor_worker@stor", "stor_worker@appe", "list_worker@list", "mlsd_worker@mlsd", "Server.abor#SEQ"],
        "level": "proof",
        "trusted_base": [T_PY, T_ENGINE, T_SOLVER, T_AIO, T_CONN],
        "assumptions": ["cancellation is delivered at a suspension point of the task (T-aio); SEQ interference"],
        "not_decided": ["real timing between client and server", "'only a prefix is delivered or stored' (needs the C01 transfer-loop invariants)"],
        "explanation": "",
    },
    "C04": {
        "modules": ["contracts.c04_permissions", "contracts.c02_paths", "contracts.server_units", "contracts.worker_units"],
        "extra": ["contracts.index.xcheck", "contracts.index.c02_rt", "contracts.index.c04_rt"],
        "level": "proof",
        "trusted_base": [T_PY, T_ENGINE, T_SOLVER, T_PATH, T_AIO, T_CONN],
        "assumptions": ["SEQ interference (one command at a time)", "the verb table (readers/modifiers) is taken from the property statement and checked against the executed decorator stacks"],
        "not_decided": [],
        "explanation": "",
    },
    "C15": {
        "modules": ["contracts.c15_throttle", "contracts.dispatcher_units", "contracts.c16_timeouts", "contracts.server_units", "contracts.c01_transfer"],
        "unit_filter_prefix": ["Throttle", "lemma:single-owner-trace-bound", "Server.__init__", "Server.dispatcher/set-up", "Server.user#SEQ", "Server.pasv.<locals>", "Server.epsv.<locals>", "BaseClient.__init__", "BaseClient.connect", "Client.get_stream"],
        "extra": ["contracts.c15_throttle.wiring_audit"],
        "level": "proof",
        "trusted_base": [T_PY, T_ENGINE, T_SOLVER, T_AIO],
        "assumptions": ["P-float: clock values, limits and reset periods are reals (IEEE rounding ignored); round(x) is an integer within 1/2 of x", "single owner: the I/O start times seen by one Throttle are non-decreasing"],
        "not_decided": [
            "the multi-stream sum bound ('one block in flight per participating stream') for a Throttle shared by several connections: needs a history argument over interleaved owners",
            "the wiring is proved per construction site (Server.__init__, dispatcher set-up, USER, the passive accept callbacks, BaseClient.__init__/connect, Client.get_stream: which Throttle object each stream carries, shared vs fresh, limits taken from which setting); that no *other* code replaces a stream's throttles dict later is the frame condition checked by contracts.c15_throttle.wiring_audit (AST enumeration of every store/mutation of a throttles mapping or throttle attribute; a site outside the contracts makes the check undecided)",
            "end-to-end durations in real or virtual time",
        ],
        "explanation": "",
    },
    "C05": {
        "modules": ["contracts.server_units", "contracts.worker_units", "contracts.dispatcher_units"],
        "level": "proof",
        "trusted_base": [T_PY, T_ENGINE, T_SOLVER, T_AIO, T_CONN, T_IND, T_PATH],
        "assumptions": [
            "SEQ: commands are sent one at a time (the property's quantifier)",
            "the reference model is the table contracts/server_units.py:MODEL (reply codes allowed per verb, fields a verb may write) plus the state clauses of c05_exit, written from the property statement and RFC 959/3659",
            "OS errors while binding a passive listener (other than EADDRINUSE) are outside the quantifier (command sequences): PASV/EPSV may then end the session through the dispatcher's except Exception",
        ],
        "not_decided": ["replies 'in order': Server.response_writer writes each queued reply once, unchanged, in queue order (per-iteration contract; FIFO of asyncio.Queue is T-aio) — that handlers of pipelined commands *queue* their replies in command order is not decided (PIPE); liveness of the writer task", "the resulting file tree (needs the backend outcome specification of C18)"],
        "explanation": "",
    },
    "C16": {
        "modules": ["contracts.c16_timeouts", "contracts.dispatcher_units", "contracts.worker_units", "contracts.server_units", "contracts.c15_throttle"],
        "unit_filter_prefix": ["ThrottleStreamIO.", "StreamIO", "Server.pasv.<locals>", "Server.epsv.<locals>", "Server.dispatcher/set-up", "retr_worker@", "stor_worker@", "list_worker@", "mlsd_worker@", "Server."],
        "level": "proof",
        "trusted_base": [T_PY, T_ENGINE, T_SOLVER, T_AIO, T_CONN],
        "assumptions": [
            "T-aio wait_for: with timeout None behaves as a plain await; otherwise returns the result or raises TimeoutError no earlier than the timeout — the *wiring* (which bound guards which await) is what is proved",
            "a configured timeout of 0 is treated as 'no timeout' by StreamIO.__init__ (`x or timeout`); the obligations state exactly that",
        ],
        "not_decided": ["wall-clock behaviour ('promptly after the bound')", "the throttle sleep inside ThrottleStreamIO.read/write happens outside the timeout (noted, not part of the statement)", "that a session which keeps sending commands is never dropped: each parsed line arms a fresh reader (Server.dispatcher/for-task-in-done), the timer itself is T-aio"],
        "explanation": "",
    },
    "C17": {
        "modules": ["contracts.dispatcher_units", "contracts.c16_timeouts", "contracts.server_units", "contracts.worker_units"],
        "level": "proof",
        "trusted_base": [T_PY, T_ENGINE, T_SOLVER, T_AIO, T_CONN, T_IND],
        "assumptions": ["isolation is decided as ownership / frame conditions: which objects are fresh per session, which are shared, and that session code writes only its own connection object and the ledgered shared counters"],
        "not_decided": ["the observational statement (same replies, data and tree changes as when running alone) under interleavings on a shared backend: needs commutativity of backend operations on disjoint paths and a simulation argument (concurrency beyond this family)"],
        "explanation": "",
    },
    "C20": {
        "modules": ["contracts.c20_logs", "contracts.server_units"],
        "extra": ["contracts.c20_logs.sink_audit"],
        "level": "proof",
        "trusted_base": [T_PY, T_ENGINE, T_SOLVER, T_AIO, "T-str / T-enc (rstrip lemma, lower uninterpreted, encode/decode inverse)", "logging: %-formatting of the record arguments happens inside the logging module; the payload of a record is its argument tuple"],
        "assumptions": ["non-interference is shown per sink: each record emitted while the password is in scope equals a term over public data and len(password) only", "passwords the line protocol can carry: non-empty, no trailing whitespace (otherwise the server strips them before they become a password)"],
        "not_decided": ["third-party logging handlers / filters", "text of exceptions logged by 'dispatcher caught exception' (UnicodeDecodeError shows the offending byte)", "a PASS separated from its argument by something other than one space is not a login command on either side"],
        "explanation": "",
    },
    "C08": {
        "modules": ["contracts.c08_names", "contracts.c20_logs", "contracts.server_units"],
        "unit_filter": ["Server.parse_command", "BaseClient.parse_mlsx_line", "Server.build_mlsx_string", "Server.pwd#SEQ", "lemma:first-space-splits-facts-from-name"],
        "extra": ["contracts.index.xcheck", "contracts.index.c08_rt"],
        "level": "proof",
        "trusted_base": [T_PY, T_ENGINE, T_SOLVER, T_PATH, "T-str / T-enc / T-time(strftime of an all-numeric format yields digits)"],
        "assumptions": ["carrier set Name of the property: non-empty text without '/', NUL, CR, LF, not '.'/'..', no trailing whitespace"],
        "not_decided": [
            "LIST-fallback name round trip (build_list_string / parse_list_line_unix) and the PWD decoder parse_directory_response are covered only by the bounded run-time checker rt/c08_rt.py (labelled bounded)",
            "the client-side command constructors ('CWD ' + str(path) etc.) are plain concatenations; their server-side split is Server.parse_command's contract",
            "what the OS does with such names",
        ],
        "explanation": "",
    },
    "C07": {
        "modules": ["contracts.c07_listing", "contracts.c08_names", "contracts.worker_units", "contracts.c09_client"],
        "unit_filter": ["lemma:ls-date-round-trip(build_list_mtime;parse_ls_date)", "BaseClient.parse_mlsx_line", "Server.build_mlsx_string", "lemma:first-space-splits-facts-from-name", "list_worker@list", "mlsd_worker@mlsd", "Client.list.<locals>.AsyncLister.__anext__", "Client.list.<locals>.AsyncLister._new_stream", "Client.stat", "Client.stat#any-listing"],
        "extra": ["contracts.index.c07_rt"],
        "level": "proof",
        "trusted_base": [T_PY, T_ENGINE, T_SOLVER, "T-time: proleptic Gregorian calendar; strftime/strptime inverse on the printed fields for the formats of the tree; years 1970..2200", "T-str"],
        "assumptions": ["T-zone: one fixed UTC offset for server localtime and client now; the client parses a listing within one hour of its production"],
        "not_decided": [
            "whole-line LIST round trip (type, size, name fields through build_list_string / parse_list_line_unix) and the MLSx fact values (Size, Modify, Type): bounded run-time checker rt/c07_rt.py only",
            "one entry per line / none invented is proved per loop iteration on both sides (list_worker/mlsd_worker: one listed entry -> exactly that entry's line; AsyncLister.__anext__: every line read is parsed once by its stream's parser; _new_stream / Client.stat: MLSD/MLST first, LIST only as the 50x fallback); that the backend lister itself yields each directory entry once is the backend's contract (C18 for MemoryPathIO, the OS for PathIO)",
            "DST zones; libc locale other than the setlocale('C') the code forces; what PathIO.stat reports",
        ],
        "explanation": "",
    },
    "C19": {
        "modules": ["contracts.c07_listing", "contracts.c06_framing", "contracts.c20_logs", "contracts.server_units", "contracts.dispatcher_units", "contracts.c19_malformed"],
        "extra": ["contracts.index.xcheck", "contracts.index.c19_rt"],
        "unit_filter_prefix": ["BaseClient.parse_unix_mode", "BaseClient.parse_ls_date", "BaseClient.parse_list_line", "BaseClient.parse_line", "BaseClient.parse_response#any-stream", "Server.parse_command#", "Server.dispatcher/for-task-in-done", "Server.", "BaseClient.parse_epsv_response", "BaseClient.parse_pasv_response", "Client.list.<locals>.AsyncLister"],
        "level": "proof",
        "trusted_base": [T_PY, T_ENGINE, T_SOLVER, T_AIO, "exception tables of the Python primitives used by the parsers (s[i], d[k], str.index/rindex, int(), bytes.decode, strptime, datetime.replace, unpacking): DESIGN.md 2.5", "regular expressions of parse_epsv_response / parse_pasv_response as assumed contracts on their match groups"],
        "assumptions": ["exception-set contracts are decided by exploring every syntactic path of the parser (no feasibility pruning): an over-approximation of the reachable raise sites"],
        "not_decided": ["'never hangs or loops forever' against a server that streams lines or nests directories without end (liveness relative to an adversarial peer)", "other sessions undisturbed: the frame conditions of C17"],
        "explanation": "",
    },
    "C01": {
        "modules": ["contracts.c01_transfer", "contracts.worker_units", "contracts.c15_throttle", "contracts.server_units"],
        "extra": ["contracts.index.c18_rt", "contracts.index.c01_rt"],
        "unit_filter": ["AsyncStreamIterator.__anext__", "retr_worker@retr", "stor_worker@stor", "stor_worker@appe", "ThrottleStreamIO.read", "ThrottleStreamIO.write", "Server.rest#SEQ", "Server.appe#SEQ", "Server.stor#SEQ", "Client.get_stream", "DataConnectionThrottleStreamIO.__aexit__", "Client.upload/copy-loop", "Client.upload/file-branch", "Client.download/file-branch", "Client.get_passive_connection"],
        "level": "proof",
        "trusted_base": [T_PY, T_ENGINE, T_SOLVER, T_AIO, T_CONN, "abstract backend file (assumed contract): sequential access after an optional seek; 'wb' truncates, 'ab' appends whatever was seeked, 'r+b' keeps the content; a write at position p pads with zeros beyond the end (pyvc/backend.py:FileHandle)"],
        "assumptions": [
            "network segmentation and chunking are universally quantified by the read contract: reader.read(n) returns *some* non-empty prefix of what remains, of length <= n",
            "SEQ: connection.restart_offset is stable while the worker runs (it is read lazily, three times, across suspension points)",
        ],
        "not_decided": [
            "kernel/TCP delivering what was written (T-aio)",
            "'every later download, stat or listing reflects the new content' beyond 'file and data stream closed before the completion reply' (backend visibility)",
            "parse_epsv_response / parse_pasv_response are used through stand-ins in Client.get_passive_connection's unit; that they decode what the server's PASV/EPSV handlers encode is decided by rt/c01_rt.py for EVERY port 0..65535 (exhaustive in the port, sampled in the host) on the real handlers, real write_response and real parse_response — run-time, labelled bounded",
            "that MemoryPathIO / Python file objects satisfy the abstract file contract (see C18)",
        ],
        "explanation": "",
    },
    "C18": {
        "modules": ["contracts.c18_backends", "contracts.worker_units"],
        "unit_filter_prefix": ["PathIO-vs-AsyncPathIO.", "stor_worker@"],
        "extra": ["contracts.index.c18_rt"],
        "level": "proof",
        "trusted_base": [T_PY, T_ENGINE, T_SOLVER, T_AIO, "T-os: equal pathlib call traces on an equal file system give equal outcomes"],
        "assumptions": ["the statement's second sentence (the two file-system backends agree at the backend API) is decided per method and therefore for every operation sequence"],
        "not_decided": [
            "MemoryPathIO against the POSIX outcome specification: only the bounded differential rt/c18_rt.py (all single operations, random sequences of 2-3 operations over an 8-path universe, MemoryPathIO vs PathIO on a temporary directory) — labelled bounded",
            "the Lister classes of PathIO/AsyncPathIO are under contract for the first two steps of a directory scan (PathIO-vs-AsyncPathIO.list); MemoryPathIO's lister is compared with the disk only by rt/c18_rt.py",
            "real disks, permissions, case-insensitive file systems",
        ],
        "explanation": "",
    },
    "C09": {
        "modules": ["contracts.c09_client", "contracts.c01_transfer", "contracts.c09_walk"],
        "unit_filter_prefix": ["Client."],
        "extra": ["contracts.index.c09_rt"],
        "level": "proof",
        "trusted_base": [T_PY, T_ENGINE, T_SOLVER, T_PATH],
        "assumptions": ["SEQ: one client operation at a time"],
        "not_decided": [
            "step contracts are discharged for Client.upload/download placement, Client.upload's copy loop, AsyncLister.__anext__ (loops unrolled twice), make_directory (depth <= 3), remove (fan-out <= 2); the whole-tree statement (identical structure and contents for every tree shape) is an induction over the tree using these step contracts and is covered only by the bounded run-time checker rt/c09_rt.py (real client against a real in-process server; 4 tree shapes of depth <= 3, destinations '', 'd', 'd/e', '/d/e', write_into on/off, 2 working directories) — labelled bounded",
        ],
        "explanation": "",
    },
    "C06": {
        "modules": ["contracts.c06_framing", "contracts.dispatcher_units"],
        "extra": ["contracts.index.xcheck"],
        "level": "proof",
        "trusted_base": [T_PY, T_ENGINE, T_SOLVER, T_AIO, "T-str: axiom schemas for rstrip / isdigit (uninterpreted functions constrained by consequences of the CPython semantics; DESIGN.md 2.9, 2.12)", "T-enc: encode/decode inverse and stateless"],
        "assumptions": ["carrier set of the round trip: reply lines without trailing whitespace (the property's own carrier: the client rstrips every line)", "segmentation independence is T-aio's readline contract"],
        "not_decided": ["encodings in which 0x0A occurs inside a character", "resynchronisation after a rejected reply: parse_response consumes whole lines only (follows from parse_line's contract), not stated as a separate obligation"],
        "explanation": "",
    },
    "C10": {
        "modules": ["contracts.c10_limits", "contracts.server_units", "contracts.c03_auth", "contracts.dispatcher_units"],
        "extra": ["contracts.index.xcheck"],
        "level": "proof",
        "trusted_base": [T_PY, T_ENGINE, T_SOLVER, T_AIO, T_CONN, T_IND],
        "assumptions": [],
        "not_decided": ["that `finally` runs when the event loop itself is torn down"],
        "explanation": "",
    },
}
