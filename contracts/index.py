"""Property table: which contract modules, extra (bounded / cross-check) checkers, trusted base."""

T_PY = "T-py: Python semantics assumed by the executor (left-to-right evaluation, static attribute resolution to /repo classes, no monkeypatching or user subclasses, finally always runs, unbounded ints exact)"
T_ENGINE = "T-engine: the pyvc symbolic executor itself (mitigated by seeded-mutant self tests and CPython cross-checks)"
T_SOLVER = "T-solver: unsat answers of z3 5.1 / cvc5 1.0.3"
T_AIO = "T-aio: assumed contracts of asyncio (streams, wait_for, wait, gather, shield, sleep, Queue, PriorityQueue, start_server, create_task, Task.cancel) — DESIGN.md 3.1"
T_CONN = "T-conn: Connection container view (absent/pending/done per key) — DESIGN.md 2.4, validated by a bounded differential test"
T_IND = "T-ind: induction principle — an invariant re-established by every atomic block holds in every reachable state (DESIGN.md 2.6)"

PROPS = {
    "C10": {
        "modules": ["contracts.c10_limits"],
        "level": "proof",
        "trusted_base": [T_PY, T_ENGINE, T_SOLVER, T_AIO, T_CONN, T_IND],
        "assumptions": [],
        "not_decided": ["that `finally` runs when the event loop itself is torn down"],
        "explanation": "",
    },
}
