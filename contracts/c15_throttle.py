"""C15 — speed limits: Throttle (wait / append / limit / clone) against the cumulative-rate invariant J,
ThrottleStreamIO.wait/append/read/write against the per-call ordering contract.

Ghost per Throttle (contract-level, never in /repo): t0 = start of the first accounted I/O, B = bytes accounted
since, rho = accumulated rounding slack.  J:  limit > 0 and _start is not None  ==>  B - _sum <= limit*(_start - t0) + rho
Clock values and limits are reals (P-float: IEEE rounding ignored)."""
import z3

from pyvc.core import SV, as_real, fresh
from pyvc.interp import LazyOpt
from pyvc.models_aio import clock
from pyvc.unit import contract
from pyvc.values import Obj

COMMON = "aioftp.common"
HALF = z3.RealVal("1/2")


def mk_throttle(u, tag="th"):
    it = u.it
    cls = u.cls(COMMON, "Throttle")
    th = Obj(cls, tag=tag)
    th.fields["_limit"] = LazyOpt(it, "real", tag + "_limit")
    rr = fresh("real", tag + "_reset_rate")
    u.assume(rr.t > 0)
    th.fields["reset_rate"] = rr
    th.fields["_start"] = LazyOpt(it, "real", tag + "_start")
    th.fields["_sum"] = fresh("int", tag + "_sum")
    g = {"t0": fresh("real", tag + "_t0"), "B": fresh("int", tag + "_B"), "rho": fresh("real", tag + "_rho")}
    th.ghost = g
    return th


def J(it, th, B=None, rho=None):
    lim = it.unbox(th.fields["_limit"])
    st = it.unbox(th.fields["_start"])
    if st is None:
        # class invariant (established by __init__ and the limit setter): nothing accounted <=> no start time
        return as_real(th.fields["_sum"]) == 0
    if lim is None:
        return z3.BoolVal(True)
    g = th.ghost
    B = g["B"].t if B is None else B
    rho = g["rho"].t if rho is None else rho
    return z3.Implies(lim.t > 0, z3.And(z3.ToReal(B) - as_real(th.fields["_sum"]) <= lim.t * (st.t - g["t0"].t) + rho, g["t0"].t <= st.t, rho >= 0))


def setup_append(u):
    it = u.it
    th = mk_throttle(u)
    u.assume(J(it, th))
    data = fresh("bytes", "data")
    start = fresh("real", "io_start")
    st0 = it.unbox(th.fields["_start"])
    if st0 is not None:
        u.assume(start.t >= st0.t)  # I/O start times of one owner are non-decreasing (clock is monotone)
    f = it.getattr_(th, "append")
    old = {"B": th.ghost["B"], "rho": th.ghost["rho"], "sum": th.fields["_sum"], "start": st0, "limit": it.unbox(th.fields["_limit"])}
    return f, [data, start], {}, {"self": th, "data": data, "start": start, "old": old}


c = contract(COMMON, "Throttle.append", props=["C15"])
c.setup = setup_append
c.assumptions.append("P-float: clock values, limits and rates are reals; round(x) is an integer within 1/2 of x")


def limited(S):
    lim = S.vars["old"]["limit"]
    return lim is not None, (lim.t > 0 if lim is not None else None)


def append_post_J(S, strict):
    it = S.it
    th = S.vars["self"]
    old = S.vars["old"]
    lim = old["limit"]
    if lim is None:
        return True
    n = z3.Length(S.vars["data"].t)
    st_new = it.unbox(th.fields["_start"])
    g = th.ghost
    # ghost update, driven by what the code did: first accounted I/O fixes t0; a reset adds 1/2 of slack
    if old["start"] is None:
        t0, B, rho = S.vars["start"].t, n, z3.RealVal(0)
        if st_new is None:
            return z3.Implies(lim.t > 0, z3.BoolVal(False))
        return z3.Implies(lim.t > 0, z3.And(z3.ToReal(B) - as_real(th.fields["_sum"]) <= lim.t * (st_new.t - t0) + rho))
    B = old["B"].t + n
    reset = z3.Not(st_new.t == old["start"].t)
    rho = old["rho"].t if strict else z3.If(reset, old["rho"].t + HALF, old["rho"].t)
    return z3.Implies(lim.t > 0, z3.ToReal(B) - as_real(th.fields["_sum"]) <= lim.t * (st_new.t - g["t0"].t) + rho)


c.ensures(lambda S: append_post_J(S, strict=False), "cumulative-rate-invariant-preserved-with-half-byte-slack-per-reset")
c.ensures(lambda S: append_post_J(S, strict=True), "cumulative-rate-invariant-preserved-exactly")


def append_noop_when_off(S):
    it = S.it
    th, old = S.vars["self"], S.vars["old"]
    lim = old["limit"]
    same = z3.And(as_real(th.fields["_sum"]) == as_real(old["sum"]), z3.BoolVal(it.unbox(th.fields["_start"]) is old["start"]))
    if lim is None:
        return same
    return z3.Implies(lim.t <= 0, same)


c.ensures(append_noop_when_off, "nothing-accounted-when-unlimited")
c.ensures(lambda S: True if S.it.unbox(S.vars["self"].fields["_start"]) is not None else as_real(S.vars["self"].fields["_sum"]) == 0, "no-start-time-means-nothing-accounted")


# ---------------------------------------------------------------- wait()
def setup_wait(u):
    it = u.it
    th = mk_throttle(u)
    u.assume(J(it, th))
    f = it.getattr_(th, "wait")
    now = clock(it)
    return f, [], {}, {"self": th, "now0": now}


c = contract(COMMON, "Throttle.wait", props=["C15"])
c.setup = setup_wait


def wait_post_rate(S):
    """when wait() returns at clock t: _sum <= limit * (t - _start)  (with J: B <= limit*(t - t0) + rho)"""
    it = S.it
    th = S.vars["self"]
    lim, st = it.unbox(th.fields["_limit"]), it.unbox(th.fields["_start"])
    if lim is None or st is None:
        return True
    t = clock(it).t
    return z3.Implies(lim.t > 0, as_real(th.fields["_sum"]) <= lim.t * (t - st.t))


def wait_tight(S):
    """no delay beyond what the bound requires: exactly one sleep of max(0, _start + _sum/limit - now); none at all when
    unlimited or nothing accounted yet"""
    it = S.it
    th = S.vars["self"]
    lim, st = it.unbox(th.fields["_limit"]), it.unbox(th.fields["_start"])
    slept = it.ctx.ghost.get("slept", [])
    suspends = [e for e in it.ctx.events if e[0] == "suspend"]
    if lim is None or st is None:
        return len(slept) == 0 and not suspends
    now0 = S.vars["now0"].t
    if len(slept) == 0:
        return z3.And(lim.t <= 0, z3.BoolVal(not suspends))
    if len(slept) != 1:
        return False
    d = as_real(slept[0][0])
    end = st.t + as_real(th.fields["_sum"]) / lim.t
    want = z3.If(end - now0 > 0, end - now0, z3.RealVal(0))
    return z3.And(lim.t > 0, d == want)


c.ensures(wait_post_rate, "io-starts-only-when-the-accounted-bytes-fit-the-rate")
c.ensures(wait_tight, "sleeps-exactly-the-required-time-and-not-at-all-when-off")
c.raises_("CancelledError")
c.cancellable = False


# ---------------------------------------------------------------- limit setter / clone
def setup_setlimit(u):
    it = u.it
    th = mk_throttle(u)
    v = LazyOpt(it, "real", "new_limit")
    prop = u.cls(COMMON, "Throttle").attrs["limit"]

    from pyvc.values import Builtin

    def run(i, a, k):
        i.setattr_(th, "limit", v)
        return None

    return Builtin("Throttle.limit.setter", run), [], {}, {"self": th, "value": v}


c = contract(COMMON, "Throttle.limit", props=["C15"], name="Throttle.limit.setter")
c.setup = setup_setlimit
c.ensures(lambda S: S.it.unbox(S.vars["self"].fields["_start"]) is None and S.it.eq_term(S.vars["self"].fields["_sum"], 0) and (S.it.unbox(S.vars["self"].fields["_limit"]) is S.it.unbox(S.vars["value"])), "new-limit-forgets-the-past")


def setup_clone(u):
    th = mk_throttle(u)
    return u.it.getattr_(th, "clone"), [], {}, {"self": th}


c = contract(COMMON, "Throttle.clone", props=["C15"])
c.setup = setup_clone
c.ensures(
    lambda S: (S.result is not S.vars["self"])
    and S.result.cls is S.vars["self"].cls
    and S.it.unbox(S.result.fields["_limit"]) is S.it.unbox(S.vars["self"].fields["_limit"])
    and S.result.fields["reset_rate"] is S.vars["self"].fields["reset_rate"]
    and S.result.fields["_start"] is None
    and S.result.fields["_sum"] == 0,
    "clone-is-a-distinct-object-with-same-limit-and-no-memory",
)


# ---------------------------------------------------------------- ThrottleStreamIO
from pyvc.session import Reader, Writer  # noqa: E402
from pyvc.values import Builtin  # noqa: E402


def mk_stream(u, n_throttles, direction=None, timeouts=False):
    it = u.it
    mod = it.modules[COMMON]
    st_cls = mod.attrs["StreamThrottle"]
    stream = Obj(mod.attrs["ThrottleStreamIO"], tag="stream")
    throttles = {}
    for i in range(n_throttles):
        st = Obj(st_cls, tag=f"st{i}")
        st.fields["read"] = mk_throttle(u, f"r{i}")
        st.fields["write"] = mk_throttle(u, f"w{i}")
        for d_ in ("read", "write"):
            if direction is None or d_ == direction:
                u.assume(J(it, st.fields[d_]))
        throttles[f"level{i}"] = st
    stream.fields.update(reader=Reader("r"), writer=Writer("w"), throttles=throttles, read_timeout=None, write_timeout=None)
    if timeouts:
        stream.fields["read_timeout"] = LazyOpt(it, "real", "read_timeout", lambda v: v.t > 0)
        stream.fields["write_timeout"] = LazyOpt(it, "real", "write_timeout", lambda v: v.t > 0)
    return stream, throttles


def setup_stream_wait(u):
    it = u.it
    n = [1, 2][u.choose(2, "throttle-levels")]
    name = ["read", "write"][u.choose(2, "direction")]
    stream, throttles = mk_stream(u, n, name)
    if n == 2:
        # two levels: the case analysis per level is done with one level; here both levels are active (limited and
        # started), which is the case "several limits apply at once"
        for st in throttles.values():
            th = st.fields[name]
            lim, s0 = it.unbox(th.fields["_limit"]), it.unbox(th.fields["_start"])
            if lim is None or s0 is None:
                from pyvc.core import PathEnd

                raise PathEnd("covered by the one-level case analysis")
            u.assume(lim.t > 0)
    f = it.getattr_(stream, "wait")
    return f, [name], {}, {"self": stream, "name": name, "throttles": throttles}


c = contract(COMMON, "ThrottleStreamIO.wait", props=["C15"])
c.setup = setup_stream_wait
c.opts = {"feas_timeout_ms": 100}  # nonlinear real arithmetic: path-feasibility pruning is best effort (unknown = keep the path)
c.assumptions.append("B-levels: streams with 1 or 2 throttle levels (the loop over the levels is unrolled; the tree constructs 1, 2 or 4 levels and treats each level independently)")
c.assumptions.append("T-aio: asyncio.wait(tasks) (ALL_COMPLETED) returns only after every task finished; the tasks are modelled as running one after the other, which is exact for tasks that only sleep on distinct Throttle objects")


def stream_wait_all_bounds(S):
    """tightest applicable limit governs: on return every limited throttle of that direction satisfies its own bound"""
    it = S.it
    t = clock(it).t
    conj = []
    for st in S.vars["throttles"].values():
        th = st.fields[S.vars["name"]]
        lim, s0 = it.unbox(th.fields["_limit"]), it.unbox(th.fields["_start"])
        if lim is None or s0 is None:
            continue
        conj.append(z3.Implies(lim.t > 0, as_real(th.fields["_sum"]) <= lim.t * (t - s0.t)))
    return z3.And(*conj) if conj else True


def stream_wait_free_when_off(S):
    """no suspension at all when no throttle of this direction has a (non-zero) limit — the other direction is irrelevant"""
    it = S.it
    any_limited = []
    for st in S.vars["throttles"].values():
        th = st.fields[S.vars["name"]]
        lim = it.unbox(th.fields["_limit"])
        if lim is not None:
            any_limited.append(lim.t != 0)
    suspended = any(e[0] in ("suspend", "sleep") for e in it.ctx.events)
    if not any_limited:
        return not suspended
    return z3.Implies(z3.Not(z3.Or(*any_limited)), z3.BoolVal(not suspended))


c.ensures(stream_wait_all_bounds, "every-limited-throttle-of-the-direction-is-within-its-bound-on-return")
c.ensures(stream_wait_free_when_off, "no-delay-when-the-direction-is-unlimited")


def make_rw_setup(method):
    def setup(u):
        it = u.it
        n = 1
        stream, throttles = mk_stream(u, n, "write" if method == "write" else "read", timeouts=True)
        # Throttle.append is used through a summary that records the call
        f = it.getattr_(stream, method)
        if method == "write":
            data = fresh("bytes", "payload")
            args = [data]
        elif method == "read":
            data = None
            args = [fresh("int", "count")]
        else:
            data = None
            args = []
        return f, args, {}, {"self": stream, "throttles": throttles, "method": method, "data": data, "args": args}

    return setup


def rw_post(S):
    """wait(direction) -> start = now -> I/O (argument unchanged) -> append(direction, data, start) on every level"""
    it = S.it
    ev = it.ctx.events
    method = S.vars["method"]
    direction = "write" if method == "write" else "read"
    st = S.vars["self"]
    r, w = st.fields["reader"], st.fields["writer"]
    if method == "write":
        ok_io = z3.simplify(w.written == S.vars["data"].t)
        data = S.vars["data"]
    else:
        data = S.result
        ok_io = z3.simplify(r.consumed == S.result.t) if data is not None else False
    # appended exactly once per level, on the right side, with this data
    appended = [e for e in ev if e[0] == "th.append"]
    want = [stt.fields[direction] for stt in S.vars["throttles"].values()]
    ok_app = len(appended) == len(want) and all(e[1] is t and e[2] is data for e, t in zip(appended, want))
    # `start` was taken after the waits and before the I/O: equals the clock value at which the I/O began
    io_start = it.ctx.ghost.get("io_clock")
    ok_start = all(it.eq_term(e[3], io_start) is True or e[3] is io_start for e in appended) if appended else True
    return z3.And(ok_io if not isinstance(ok_io, bool) else z3.BoolVal(ok_io), z3.BoolVal(bool(ok_app)), z3.BoolVal(bool(ok_start)))


# summary of Throttle.append used by the stream units: records the call (its own contract is proved above)
ca = contract(COMMON, "Throttle.append", props=[], name="Throttle.append#summary")
ca.self_check = False
ca.apply_hook = lambda S: S.it.ctx.event("th.append", S.vars["self"], S.vars["data"], S.vars["start"])

def rw_timer_covers_only_the_socket_io(S):
    """C16: the speed-limit sleep is not part of the timed region — a throttled peer is not dropped for idleness"""
    ev = S.it.ctx.events
    idx_wait = [i for i, e in enumerate(ev) if e[0] == "wait_for"]
    idx_sleep = [i for i, e in enumerate(ev) if e[0] == "sleep"]
    if not idx_wait:
        return True
    return all(i < idx_wait[0] for i in idx_sleep)


for _m in ("read", "write", "readline"):
    c = contract(COMMON, f"ThrottleStreamIO.{_m}", props=["C15", "C01", "C16"])
    c.ensures(rw_timer_covers_only_the_socket_io, "throttle-sleep-is-outside-the-io-timeout", props=["C16"])
    c.raises_("TimeoutError", rw_timer_covers_only_the_socket_io, "throttle-sleep-is-outside-the-io-timeout", props=["C16"])
    c.setup = make_rw_setup(_m)
    c.opts = {"feas_timeout_ms": 100}
    c.uses = [(COMMON, "Throttle.append#summary")]
    c.ensures(rw_post, "waits-then-stamps-then-moves-exactly-the-data-then-accounts-it-on-every-level")
    c.raises_("OSError")
    c.raises_("ValueError")


# ---------------------------------------------------------------- trace lemma over the contracts (single owner)
def setup_lemma(u):
    """J (kept by every append) + the postcondition of wait() give the statement's bound at the instant an I/O starts:
    B <= L*(t - t0) + rho, hence bytes including the block in flight never exceed L*(t-t0) + block + rho."""
    L, t, t0, st, rho = (fresh("real", n) for n in ("L", "t", "t0", "start", "rho"))
    B, sm, blk = fresh("int", "B"), fresh("int", "sum"), fresh("int", "block")
    u.assume(z3.And(L.t > 0, rho.t >= 0, blk.t >= 0))
    u.assume(z3.ToReal(B.t) - z3.ToReal(sm.t) <= L.t * (st.t - t0.t) + rho.t)  # J
    u.assume(z3.ToReal(sm.t) <= L.t * (t.t - st.t))  # wait() post
    return Builtin("lemma", lambda i, a, k: None), [], {}, {"L": L, "t": t, "t0": t0, "rho": rho, "B": B, "blk": blk}


c = contract(COMMON, "Throttle", props=["C15"], name="lemma:single-owner-trace-bound")
c.setup = setup_lemma
c.ensures(lambda S: z3.ToReal(S.vars["B"].t) <= S.vars["L"].t * (S.vars["t"].t - S.vars["t0"].t) + S.vars["rho"].t, "bytes-accounted-at-io-start-within-rate")
c.ensures(
    lambda S: z3.ToReal(S.vars["B"].t + S.vars["blk"].t) <= S.vars["L"].t * (S.vars["t"].t - S.vars["t0"].t) + z3.ToReal(S.vars["blk"].t) + S.vars["rho"].t,
    "bytes-including-block-in-flight-within-rate-plus-one-block",
)


# ------------------------------------------------------------------------------------ wiring audit (closes the frame of the wiring units)
WIRING_SITES = {
    # (file, enclosing function) -> unit whose contract pins the throttles carried by the stream made/updated there
    ("common.py", "ThrottleStreamIO.__init__"): "ThrottleStreamIO (constructor stores the dict it is given)",
    ("server.py", "Server.dispatcher"): "Server.dispatcher/set-up",
    ("server.py", "Server.user"): "Server.user#SEQ",
    ("server.py", "Server.pasv.handler"): "Server.pasv.<locals>.handler",
    ("server.py", "Server.epsv.handler"): "Server.epsv.<locals>.handler",
    ("client.py", "BaseClient.connect"): "BaseClient.connect",
    ("client.py", "Client.get_stream"): "Client.get_stream",
}
THROTTLE_HOLDERS = {"throttle", "throttle_per_connection", "throttle_per_user", "throttles"}


def wiring_audit(tier, seed):
    """frame condition of the C15 wiring contracts: every place in the package that builds, stores or mutates a stream's
    `throttles` mapping, or (re)binds one of the server/client throttle attributes, lies inside a function under a
    wiring contract.  A site outside the table is *undecided* (exit 2: wiring not covered), never a violation."""
    import ast
    import os

    repo = os.environ.get("AIOFTP_REPO", "/repo")
    out = {"summary": "", "violations": [], "undecided": [], "evaluations": 0}
    sites = []
    for fn in ("common.py", "server.py", "client.py", "pathio.py", "utils.py", "errors.py", "__init__.py", "__main__.py"):
        p = os.path.join(repo, "src", "aioftp", fn)
        if not os.path.exists(p):
            continue
        tree = ast.parse(open(p).read())

        def walk(node, qual):
            for ch in ast.iter_child_nodes(node):
                q = qual
                if isinstance(ch, (ast.FunctionDef, ast.AsyncFunctionDef, ast.ClassDef)):
                    q = f"{qual}.{ch.name}" if qual else ch.name
                if isinstance(ch, ast.keyword) and ch.arg == "throttles":
                    sites.append((fn, qual, ch.value.lineno, "throttles= argument"))
                if isinstance(ch, (ast.Assign, ast.AugAssign, ast.AnnAssign, ast.Delete)):
                    tg = ch.targets if isinstance(ch, (ast.Assign, ast.Delete)) else [ch.target]
                    for t in tg:
                        base = t.value if isinstance(t, ast.Subscript) else t
                        if isinstance(base, ast.Attribute) and base.attr in THROTTLE_HOLDERS:
                            sites.append((fn, qual, ch.lineno, f"store to .{base.attr}"))
                if isinstance(ch, ast.Call) and isinstance(ch.func, ast.Attribute) and isinstance(ch.func.value, ast.Attribute) and ch.func.value.attr in THROTTLE_HOLDERS and ch.func.attr in ("update", "pop", "clear", "setdefault", "popitem", "__setitem__", "__delitem__"):
                    sites.append((fn, qual, ch.lineno, f".{ch.func.value.attr}.{ch.func.attr}()"))
                walk(ch, q)

        walk(tree, "")
    allowed = dict(WIRING_SITES)
    allowed[("server.py", "Server.__init__")] = "Server.__init__"
    allowed[("client.py", "BaseClient.__init__")] = "BaseClient.__init__"
    for fn, qual, line, what in sites:
        out["evaluations"] += 1
        if (fn, qual) not in allowed:
            out["undecided"].append({"name": f"wiring-site-outside-the-contracts:{fn}:{qual}:{what}", "reason": f"{fn}:{line} {what} in {qual or '<module>'} is not covered by a wiring contract"})
    seen = {(fn, q) for fn, q, _, _ in sites}
    for k in allowed:
        if k not in seen:
            out["undecided"].append({"name": f"wiring-site-vanished:{k[0]}:{k[1]}", "reason": "the table of wiring sites no longer matches the source"})
    out["summary"] = f"throttle wiring audit: {len(sites)} construction/mutation sites, all inside functions under a wiring contract" if not out["undecided"] else f"throttle wiring audit: {len(out['undecided'])} site(s) not covered"
    out["bounded"] = {"checker": "contracts.c15_throttle.wiring_audit", "what": "enumeration from the AST of every store/mutation of a throttles mapping or throttle attribute", "cases": len(sites), "label": "exhaustive (finite)"}
    return out
