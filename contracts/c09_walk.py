"""C09: the directory branches of Client.upload and Client.download as block contracts over the real statements.

upload:   make_directory(destination); then a work-list walk: every path the local lister yields below a queued
          directory is handled exactly once - a directory is created remotely at destination/<path relative to source>
          and queued, anything else is uploaded there with write_into=True.
download: mkdir(destination, parents, exist_ok); then every listed entry of type file/dir is downloaded, once, in listing
          order, to destination/<name relative to source> with write_into=True; other entry types are skipped.
What `destination / path.relative_to(source)` denotes is the placement lemma of contracts/c09_client.py."""
import ast

import z3

from contracts.c09_client import CLIENT, fresh_seq, mk_path
from pyvc import models_path
from pyvc.core import SV, PathEnd, PyRaise, Unsupported, fresh
from pyvc.models_path import PathVal
from pyvc.unit import LoopSpec, contract
from pyvc.values import Builtin, Coro, Env, Model, Obj

T9 = {"props": ["C09"]}


def _fn(it, name):
    mod = it.modules[CLIENT]
    return mod, [n for n in ast.walk(mod.tree) if isinstance(n, ast.AsyncFunctionDef) and n.name == name][0]


def _dir_branch(fn, which):
    """body of the `elif await ....is_dir(source):` arm of upload/download"""
    for n in ast.walk(fn):
        if isinstance(n, ast.If) and n.orelse and len(n.orelse) == 1 and isinstance(n.orelse[0], ast.If):
            arm = n.orelse[0]
            src = ast.unparse(arm.test)
            if "is_dir" in src and "source" in src:
                return arm.body
    raise Unsupported(f"Client.{which}: directory branch not found")


class WorkList(Model):
    """abstraction of the deque of directories still to be listed: every member is `source` or a path below it (ghost
    invariant, checked at every append); popleft returns an arbitrary member"""

    model_name = "worklist"

    def __init__(self, u, source, initial):
        super().__init__()
        self.u, self.source = u, source
        self.init_ok = len(initial) == 1 and initial[0] is source
        self.appended = []

    def truthy(self, it):
        return it.ctx.branch(fresh("bool", "worklist_nonempty").t, "worklist-nonempty")

    def getattr(self, it, name):
        if name == "popleft":

            def pl(i, a, k):
                below = fresh_seq("queued_below")
                i.ctx.assume(models_path.all_clean(i, below, "queued_below"))
                p = PathVal("posix", self.source.anchor, z3.Concat(self.source.parts, below), abs_known=True)
                p.below = below
                i.ctx.event("popleft", p)
                return p

            return Builtin("worklist.popleft", pl)
        if name == "append":

            def ap(i, a, k):
                x = a[0]
                i.ctx.check("Client.upload/walk:only-directories-below-source-are-queued", z3.And(x.anchor_t() == self.source.anchor_t(), z3.PrefixOf(self.source.parts, x.parts)), info=T9)
                self.appended.append(x)
                i.ctx.event("queued", x)

            return Builtin("worklist.append", ap)
        raise Unsupported("deque." + name)


class LocalLister(Model):
    model_name = "locallister"

    def __init__(self, parent):
        super().__init__()
        self.parent = parent

    def getattr(self, it, name):
        if name == "__aiter__":
            return Builtin("lister.__aiter__", lambda i, a, k: self)
        if name == "__anext__":

            def nx(i, a, k):
                def run():
                    i.suspend("list.next")
                    if i.ctx.choose(2, "list-next") == 1:
                        i.throw("StopAsyncIteration")
                    nm = fresh("str", "child_name")
                    i.ctx.assume(models_path.clean_part(nm.t))
                    child = PathVal("posix", self.parent.anchor, z3.Concat(self.parent.parts, z3.Unit(nm.t)), abs_known=True)
                    child.name_t = nm.t
                    i.ctx.event("listed", self.parent, child)
                    return child

                return Coro(run, "lister.__anext__")

            return Builtin("lister.__anext__", nx)
        raise Unsupported("lister." + name)


def setup_upload_walk(u):
    it = u.it
    mod, fn = _fn(it, "upload")
    body = _dir_branch(fn, "upload")
    source = mk_path(u, "source", "/")
    dest = mk_path(u, "dest", ["", "/"][u.choose(2, "destination-absolute")])
    bs = fresh("int", "block_size")
    calls = []

    def rec(name, suspend=True):
        def f(i, a, k):
            def run():
                i.suspend(name)
                calls.append((name, a[1:], k))
                i.ctx.event("call", name, a[1:], k)

            return Coro(run, name)

        b = Builtin("Client." + name, f)
        b.is_method = True
        return b

    class LocalIO(Model):
        model_name = "local_path_io"

        def getattr(self, i, name):
            if name == "list":
                return Builtin("path_io.list", lambda i2, a, k: LocalLister(a[0]))
            if name == "is_dir":

                def isdir(i2, a, k):
                    def run():
                        i2.suspend("is_dir")
                        r = i2.ctx.choose(2, "is_dir") == 0
                        i2.ctx.event("is_dir", a[0], r)
                        return r

                    return Coro(run, "is_dir")

                return Builtin("path_io.is_dir", isdir)
            raise Unsupported("path_io." + name)

    cl = Obj(u.cls(CLIENT, "Client"), tag="client")
    cl.cls = type(cl.cls)(cl.cls.name, [cl.cls], {"make_directory": rec("make_directory"), "upload": rec("upload")})
    cl.fields["path_io"] = LocalIO()
    wl = {}

    def mk_deque(i, a, k):
        wl["w"] = WorkList(u, source, list(a[0]) if a else [])
        return wl["w"]

    ns = Obj(u.cls(CLIENT, "Client").__class__("collections-namespace", [], {}), tag="collections")
    ns.fields["deque"] = Builtin("collections.deque", mk_deque)
    env = Env(mod.env)
    env.vars.update(self=cl, source=source, destination=dest, block_size=bs, collections=ns)
    head = {"ev": 0}

    def inner_ghost(i, e, phase):
        if phase != "step":
            return
        ev = i.ctx.events[head["ev"]:]
        listed = [x for x in ev if x[0] == "listed"]
        isd = [x for x in ev if x[0] == "is_dir"]
        cs = [x for x in ev if x[0] == "call"]
        qd = [x for x in ev if x[0] == "queued"]
        ok = len(listed) == 1 and len(isd) == 1 and len(cs) == 1 and isd[0][1] is listed[0][2]
        i.ctx.check("Client.upload/walk:each-listed-entry-is-probed-and-handled-exactly-once", z3.BoolVal(bool(ok)), info=T9)
        if not ok:
            return
        parent, child = listed[0][1], listed[0][2]
        name, args, kw = cs[0][1], cs[0][2], cs[0][3]
        rel = args[-1] if name == "make_directory" else (args[1] if len(args) > 1 else None)
        want_parts = z3.Concat(dest.parts, parent.below, z3.Unit(child.name_t))
        placed = z3.And(rel.anchor_t() == dest.anchor_t(), rel.parts == want_parts) if isinstance(rel, PathVal) else z3.BoolVal(False)
        if isd[0][2]:
            shape = name == "make_directory" and len(args) == 1 and not kw and len(qd) == 1 and qd[0][1] is child
            i.ctx.check("Client.upload/walk:a-directory-is-created-at-its-place-and-queued", z3.And(z3.BoolVal(bool(shape)), placed), info=T9)
        else:
            shape = name == "upload" and len(args) == 2 and args[0] is child and kw.get("write_into") is True and kw.get("block_size") is bs and set(kw) == {"write_into", "block_size"} and not qd
            i.ctx.check("Client.upload/walk:a-file-is-uploaded-to-its-place-with-write_into", z3.And(z3.BoolVal(bool(shape)), placed), info=T9)

    def inner_havoc(i, e):
        head["ev"] = len(i.ctx.events)

    outer = LoopSpec(invariants=[])
    inner = LoopSpec(invariants=[], havoc=inner_havoc, ghost=inner_ghost)

    def pick(node):
        return (inner, "Client.upload/walk/entries") if isinstance(node, ast.AsyncFor) else (outer, "Client.upload/walk/worklist")

    it.hooks["block_loop"] = pick

    def run(i, a, k):
        def go():
            i.exec_block(body, env, "Client.upload.<locals>")

        return Coro(go, "upload-directory-branch")

    return Builtin("Client.upload/directory-walk", run), [], {}, {"calls": calls, "dest": dest, "source": source, "wl": wl}


c = contract(CLIENT, "Client.upload", props=["C09"], name="Client.upload/directory-walk")
c.setup = setup_upload_walk
c.raises_("CancelledError")
c.assumptions.append("block contract over the statements of the `elif await self.path_io.is_dir(source):` arm of the real Client.upload; the work list is abstracted to 'some set of directories at or below source' (ghost invariant checked at every append); make_directory and the recursive upload are recording stand-ins with their own contracts")


def upload_walk_post(S):
    """the destination directory itself is created first; the work list starts as [source]"""
    calls = S.vars["calls"]
    wl = S.vars["wl"].get("w")
    return bool(calls and calls[0][0] == "make_directory" and len(calls[0][1]) == 1 and calls[0][1][0] is S.vars["dest"] and wl is not None and wl.init_ok)


c.ensures(upload_walk_post, "creates-the-destination-first-and-starts-the-walk-at-source")


# ------------------------------------------------------------------------------------ download
def setup_download_walk(u):
    it = u.it
    mod, fn = _fn(it, "download")
    body = _dir_branch(fn, "download")
    source = mk_path(u, "source", ["", "/"][u.choose(2, "source-absolute")])
    dest = mk_path(u, "dest", "/")
    bs = fresh("int", "block_size")
    n = u.choose(3, "entries-listed")
    entries = []
    for j in range(n):
        below = fresh_seq(f"below{j}")
        u.assume(models_path.all_clean(it, below, f"below{j}"))
        u.assume(z3.Length(below) >= 1)
        p = PathVal("posix", source.anchor, z3.Concat(source.parts, below), abs_known=source.abs_known)
        p.below = below
        entries.append((p, {"type": ["file", "dir", "link"][u.choose(3, f"type{j}")]}))
    calls = []

    def rec(name):
        def f(i, a, k):
            def run():
                i.suspend(name)
                calls.append((name, a[1:], k))

            return Coro(run, name)

        b = Builtin("Client." + name, f)
        b.is_method = True
        return b

    def list_(i, a, k):
        def run():
            i.suspend("list")
            calls.append(("list", a[1:], k))
            return list(entries)

        return Coro(run, "list")

    lb = Builtin("Client.list", list_)
    lb.is_method = True

    class LocalIO(Model):
        model_name = "local_path_io"

        def getattr(self, i, name):
            if name == "mkdir":

                def mk(i2, a, k):
                    def run():
                        i2.suspend("mkdir")
                        calls.append(("mkdir", a, k))

                    return Coro(run, "mkdir")

                return Builtin("path_io.mkdir", mk)
            raise Unsupported("path_io." + name)

    cl = Obj(u.cls(CLIENT, "Client"), tag="client")
    cl.cls = type(cl.cls)(cl.cls.name, [cl.cls], {"download": rec("download"), "list": lb})
    cl.fields["path_io"] = LocalIO()
    env = Env(mod.env)
    env.vars.update(self=cl, source=source, destination=dest, block_size=bs)

    def run(i, a, k):
        def go():
            i.exec_block(body, env, "Client.download.<locals>")

        return Coro(go, "download-directory-branch")

    return Builtin("Client.download/directory-walk", run), [], {}, {"calls": calls, "dest": dest, "source": source, "entries": entries, "bs": bs}


c = contract(CLIENT, "Client.download", props=["C09"], name="Client.download/directory-walk")
c.setup = setup_download_walk
c.raises_("CancelledError")
c.assumptions.append("block contract over the statements of the `elif await self.is_dir(source):` arm of the real Client.download; B-entries: 0..2 listed entries (names and depths below source symbolic), types file/dir/other; the recursive download and Client.list are recording stand-ins with their own contracts")


def download_walk_post(S):
    calls, entries, dest, bs = S.vars["calls"], S.vars["entries"], S.vars["dest"], S.vars["bs"]
    if len(calls) < 2 or calls[0][0] != "mkdir" or calls[1][0] != "list":
        return False
    a, k = calls[0][1], calls[0][2]
    if not (len(a) == 1 and a[0] is dest and k.get("parents") is True and k.get("exist_ok") is True):
        return False
    if not (len(calls[1][1]) == 1 and calls[1][1][0] is S.vars["source"] and not calls[1][2].get("recursive")):
        return False
    want = [(p, info) for p, info in entries if info["type"] in ("file", "dir")]
    got = calls[2:]
    if len(got) != len(want):
        return False
    conj = []
    for (name, args, kw), (p, info) in zip(got, want):
        if name != "download" or len(args) != 2 or args[0] is not p or kw.get("write_into") is not True or kw.get("block_size") is not bs or set(kw) != {"write_into", "block_size"}:
            return False
        full = args[1]
        conj.append(z3.And(full.anchor_t() == dest.anchor_t(), full.parts == z3.Concat(dest.parts, p.below)))
    return z3.And(*conj) if conj else True


c.ensures(download_walk_post, "creates-the-destination-lists-source-and-downloads-each-file-or-dir-entry-once-to-its-place")


# ------------------------------------------------------------------------------------ download: listings of ANY length
from pyvc.objseq import ObjSeq  # noqa: E402

BELOW = z3.Array("listed_below", z3.IntSort(), models_path.SS)
ETYPE = z3.Array("listed_type", z3.IntSort(), z3.StringSort())


def setup_download_walk_any(u):
    it = u.it
    mod, fn = _fn(it, "download")
    body = _dir_branch(fn, "download")
    source = mk_path(u, "source", ["", "/"][u.choose(2, "source-absolute")])
    dest = mk_path(u, "dest", "/")
    bs = fresh("int", "block_size")
    calls = []
    head = {"n": 0}

    def make(it_, idx):
        p = PathVal("posix", source.anchor, z3.Concat(source.parts, BELOW[idx]), abs_known=source.abs_known)
        p.entry_index = idx
        return (p, {"type": SV("str", ETYPE[idx])})

    table = ObjSeq("listing", make)

    def rec(name):
        def f(i, a, k):
            def run():
                i.suspend(name)
                calls.append((name, a[1:], k))

            return Coro(run, name)

        b = Builtin("Client." + name, f)
        b.is_method = True
        return b

    def list_(i, a, k):
        def run():
            i.suspend("list")
            calls.append(("list", a[1:], k))
            return table

        return Coro(run, "list")

    lb = Builtin("Client.list", list_)
    lb.is_method = True

    class LocalIO(Model):
        model_name = "local_path_io"

        def getattr(self, i, name):
            if name == "mkdir":

                def mk(i2, a, k):
                    def run():
                        i2.suspend("mkdir")
                        calls.append(("mkdir", a, k))

                    return Coro(run, "mkdir")

                return Builtin("path_io.mkdir", mk)
            raise Unsupported("path_io." + name)

    cl = Obj(u.cls(CLIENT, "Client"), tag="client")
    cl.cls = type(cl.cls)(cl.cls.name, [cl.cls], {"download": rec("download"), "list": lb})
    cl.fields["path_io"] = LocalIO()
    env = Env(mod.env)
    env.vars.update(self=cl, source=source, destination=dest, block_size=bs)

    def ghost(i, e, phase):
        if phase != "step":
            return
        k = e.vars["_i"]
        k = k.t if isinstance(k, SV) else z3.IntVal(k)
        idx = z3.simplify(k - 1)
        new = calls[head["n"]:]
        wanted = z3.Or(ETYPE[idx] == z3.StringVal("file"), ETYPE[idx] == z3.StringVal("dir"))
        if not new:
            i.ctx.check("Client.download/walk:an-entry-is-skipped-only-when-it-is-neither-file-nor-dir", z3.Not(wanted), info=T9)
            return
        ok = len(new) == 1 and new[0][0] == "download" and len(new[0][1]) == 2 and new[0][2].get("write_into") is True and new[0][2].get("block_size") is bs and set(new[0][2]) == {"write_into", "block_size"}
        if not ok:
            i.ctx.check("Client.download/walk:each-file-or-dir-entry-is-downloaded-once-to-its-place", z3.BoolVal(False), info=T9)
            return
        name, full = new[0][1]
        f = z3.And(wanted, z3.BoolVal(getattr(name, "entry_index", None) is not None), full.anchor_t() == dest.anchor_t(), full.parts == z3.Concat(dest.parts, BELOW[idx]))
        if getattr(name, "entry_index", None) is not None:
            f = z3.And(f, name.entry_index == idx)
        i.ctx.check("Client.download/walk:each-file-or-dir-entry-is-downloaded-once-to-its-place", f, info=T9)

    def havoc(i, e):
        head["n"] = len(calls)

    it.hooks["block_loop"] = LoopSpec(invariants=[], havoc=havoc, ghost=ghost)

    def run(i, a, k):
        def go():
            i.exec_block(body, env, "Client.download.<locals>")

        return Coro(go, "download-directory-branch")

    return Builtin("Client.download/directory-walk", run), [], {}, {"calls": calls, "dest": dest, "source": source}


c = contract(CLIENT, "Client.download", props=["C09"], name="Client.download/directory-walk#any-listing")
c.setup = setup_download_walk_any
c.raises_("CancelledError")
c.assumptions.append("as Client.download/directory-walk, with a listing of any length: the per-iteration obligation (entry i is downloaded exactly once to destination/<its path below source> iff its type is file or dir) holds for an arbitrary iteration; 'every entry, in order' follows by induction over the loop")


def download_walk_any_post(S):
    calls = S.vars["calls"]
    if len(calls) < 2 or calls[0][0] != "mkdir" or calls[1][0] != "list":
        return False
    a, k = calls[0][1], calls[0][2]
    return bool(len(a) == 1 and a[0] is S.vars["dest"] and k.get("parents") is True and k.get("exist_ok") is True and len(calls[1][1]) == 1 and calls[1][1][0] is S.vars["source"])


c.ensures(download_walk_any_post, "creates-the-destination-then-lists-source")
