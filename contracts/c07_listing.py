"""C07 — listings report the backend's truth: the ls-date round trip (Server.build_list_mtime -> parse_ls_date),
and C19's exception-set contracts of the client listing parsers."""
import z3

from pyvc import models_time as mt
from pyvc import strmodel
from pyvc.core import SV, PathEnd, PyRaise, as_int, fresh
from pyvc.models_time import DateStr, DateTimeModel
from pyvc.unit import LoopSpec, contract
from pyvc.values import Builtin, Coro, Obj

SERVER = "aioftp.server"
CLIENT = "aioftp.client"
HALF = 15778476


def setup_date_round_trip(u):
    it = u.it
    fm, fs, fc = mt.fresh_fields("m"), mt.fresh_fields("s"), mt.fresh_fields("c")
    A = u.assume
    for f in (fm, fs, fc):
        A(mt.valid(f, 1970, 2200))
    K = fresh("real", "epoch_and_zone_offset")  # T-zone: one fixed offset for mtime, server now and client now
    frm, frs, frc = (fresh("real", n) for n in ("frac_m", "frac_s", "frac_c"))
    for fr in (frm, frs, frc):
        A(z3.And(fr.t >= 0, fr.t < 1))
    m = SV("real", z3.ToReal(mt.E(fm)) + frm.t - K.t)
    s = SV("real", z3.ToReal(mt.E(fs)) + frs.t - K.t)
    cE = z3.ToReal(mt.E(fc)) + frc.t - K.t
    # the client parses the listing within the hour it was produced
    A(z3.And(s.t <= cE, cE < s.t + 3600))
    it.ctx.ghost["civil"] = [(m.t, fm)]
    client_now = DateTimeModel(fc, frc.t)
    srv_cls = u.cls(SERVER, "Server")
    cl_cls = u.cls(CLIENT, "BaseClient")

    def run(i, a, k):
        text = i.call(i.getattr_(srv_cls, "build_list_mtime"), [m, s], {})
        return i.call(i.getattr_(cl_cls, "parse_ls_date"), [text], {"now": client_now})

    return Builtin("build_list_mtime;parse_ls_date", run), [], {}, {"fm": fm, "m": m, "s": s, "c": cE}


c = contract(SERVER, "Server.build_list_mtime", props=["C07"], name="lemma:ls-date-round-trip(build_list_mtime;parse_ls_date)")
c.setup = setup_date_round_trip
c.opts = {"solve_budget_s": 120, "feas_timeout_ms": 800}
c.assumptions.append("T-time: strftime/strptime with '%b %e %H:%M' <-> '%b %d %H:%M' and '%b %e  %Y' <-> '%b %d  %Y' are mutually inverse on the fields they print, and each format rejects the other's output; datetime arithmetic is the proleptic Gregorian calendar; years 1970..2200")
c.assumptions.append("T-zone: server localtime and client datetime.now() use the same fixed UTC offset (no DST transition between mtime and now); the client parses within one hour of the listing")
# (the `while not isleap(...)` loop of parse_ls_date is unrolled: the solver shows that no more than 8 iterations are feasible)


def no_leap_skipped(S):
    """while not isleap(prev_leap_year): prev_leap_year -= 1  — no leap year in (prev_leap_year, now.year]"""
    y = as_int(S.vars["prev_leap_year"])
    now_y = as_int(S.it.getattr_(S.vars["now"], "year"))
    q = z3.Int("q!leap")
    return z3.And(y <= now_y, now_y - y <= 8, z3.ForAll([q], z3.Implies(z3.And(q > y, q <= now_y), z3.Not(mt.isleap_t(q)))), y >= 1962)


def rt_minute(S):
    """(A) inside the last half year (minus the one-day ambiguity window): exact to the minute"""
    r = S.result
    fm, m, s, cc = S.vars["fm"], S.vars["m"].t, S.vars["s"].t, S.vars["c"]
    pre = z3.And(s - HALF < m, m <= s, cc - m < HALF - 86400)
    if not isinstance(r, DateStr) or r.kind != "stamp00":
        return z3.Not(pre)
    return z3.Implies(pre, z3.And(*[r.f[k] == fm[k] for k in ("Y", "M", "D", "h", "mi")]))


def rt_day(S):
    """(B) otherwise (older than half a year, or in the future): exact to the day"""
    r = S.result
    fm, m, s = S.vars["fm"], S.vars["m"].t, S.vars["s"].t
    pre = z3.Not(z3.And(s - HALF < m, m <= s))
    if not isinstance(r, DateStr) or r.kind != "stamp00":
        return z3.Not(pre)
    return z3.Implies(pre, z3.And(r.f["Y"] == fm["Y"], r.f["M"] == fm["M"], r.f["D"] == fm["D"], r.f["h"] == 0, r.f["mi"] == 0))


c.ensures(rt_minute, "recent-mtime-round-trips-to-the-minute")
c.ensures(rt_day, "old-or-future-mtime-round-trips-to-the-day")
c.raises_("ValueError", lambda S: z3.Not(z3.And(S.vars["s"].t - HALF < S.vars["m"].t, S.vars["m"].t <= S.vars["s"].t, S.vars["c"] - S.vars["m"].t < HALF - 86400)), "rejected-only-inside-the-ambiguity-window")


# ------------------------------------------------------------------------------------ C19: exception sets of the parsers
LISTING_ERRORS = ("ValueError", "KeyError", "IndexError")


def mk_client(u):
    cl = Obj(u.cls(CLIENT, "BaseClient"), tag="client")
    cl.fields["encoding"] = "utf-8"
    cl.fields["parse_list_line_custom"] = None
    cl.fields["parse_list_line_custom_first"] = True
    return cl


def make_parser_setup(name, arg_kind):
    def setup(u):
        it = u.it
        cl = mk_client(u)
        arg = fresh("bytes", "line") if arg_kind == "bytes" else fresh("str", "text")
        f = it.getattr_(cl, name) if name != "parse_ls_date" else it.getattr_(u.cls(CLIENT, "BaseClient"), name)
        return f, [arg], {}, {"self": cl, "arg": arg}

    return setup


def listing_exit(S, outcome):
    it = S.it
    name = S.contract.qualname
    if outcome[0] == "raise":
        en = outcome[1].cls
        ok = any(en.is_subclass(it.exc_classes[x]) for x in LISTING_ERRORS)
        it.ctx.check(f"{name}/raises:only-ValueError-KeyError-IndexError", z3.BoolVal(ok), info={"props": ["C19"], "exc": en.name})


def leap_year_local(fn):
    """the counter of the `while not calendar.isleap(<y>): <y> -= 1` loop"""
    import ast

    loops = [n for n in ast.walk(fn) if isinstance(n, ast.While)]
    ys = [n.target.id for lp in loops for n in ast.walk(lp) if isinstance(n, ast.AugAssign) and isinstance(n.target, ast.Name)]
    if len(set(ys)) != 1:
        raise KeyError("parse_ls_date: leap-year counter not identified")
    return {"prev_leap_year": ys[0]}


for _n, _k in (("parse_unix_mode", "str"), ("parse_ls_date", "str"), ("parse_list_line_unix", "bytes"), ("parse_list_line_windows", "bytes")):
    c = contract(CLIENT, f"BaseClient.{_n}", props=["C19"])
    c.setup = make_parser_setup(_n, _k)
    c.raises = {"BaseException": []}
    c.exit_hook = listing_exit
    c.opts = {"feas_timeout_ms": 0, "no_covers": True}
    if _n == "parse_ls_date":
        c.alias_resolver = leap_year_local
    if _n in ("parse_ls_date", "parse_list_line_unix"):
        c.loop(0 if _n == "parse_ls_date" else 0, LoopSpec(invariants=[("year-in-range", lambda S: z3.And(as_int(S.vars["prev_leap_year"]) >= -8, as_int(S.vars["prev_leap_year"]) <= 9999))]))


# summaries of the two helpers, used inside parse_list_line_unix (their exception sets are the units above)
_s = contract(CLIENT, "BaseClient.parse_unix_mode", props=[], name="BaseClient.parse_unix_mode#summary")
_s.self_check = False
_s.result_shape = lambda S: fresh("int", "mode")
for _e in LISTING_ERRORS:
    _s.raises_(_e)
_s = contract(CLIENT, "BaseClient.parse_ls_date", props=[], name="BaseClient.parse_ls_date#summary")
_s.self_check = False
_s.result_shape = lambda S: fresh("str", "modify")
_s.raises_("ValueError")
REGISTRY_UNIX = [(CLIENT, "BaseClient.parse_unix_mode#summary"), (CLIENT, "BaseClient.parse_ls_date#summary")]
from pyvc.unit import REGISTRY as _R  # noqa: E402

_R[(CLIENT, "BaseClient.parse_list_line_unix")].uses = REGISTRY_UNIX


def parse_ls_date_only_value_error(S, outcome):
    listing_exit(S, outcome)
    if outcome[0] == "raise":
        S.it.ctx.check("BaseClient.parse_ls_date/raises:only-ValueError", z3.BoolVal(outcome[1].cls.is_subclass(S.it.exc_classes["ValueError"])), info={"props": ["C19"], "exc": outcome[1].cls.name})


_R[(CLIENT, "BaseClient.parse_ls_date")].exit_hook = parse_ls_date_only_value_error
_R[(CLIENT, "BaseClient.parse_ls_date")].opts = {"feas_timeout_ms": 400}  # the isleap loop is cut by infeasibility of a 9th iteration


def setup_parse_list_line(u):
    it = u.it
    cl = mk_client(u)
    arg = fresh("bytes", "line")
    return it.getattr_(cl, "parse_list_line"), [arg], {}, {"self": cl, "arg": arg}


for _n in ("parse_list_line_unix", "parse_list_line_windows"):
    _s = contract(CLIENT, f"BaseClient.{_n}", props=[], name=f"BaseClient.{_n}#summary")
    _s.self_check = False
    _s.result_shape = lambda S: (models_path_any(S), {"type": fresh("str", "type")})
    for _e in LISTING_ERRORS:
        _s.raises_(_e)


def models_path_any(S):
    from pyvc import models_path

    return models_path.PathVal("posix", "", models_path.fresh_seq("listed"))


c = contract(CLIENT, "BaseClient.parse_list_line", props=["C19"])
c.setup = setup_parse_list_line
c.uses = [(CLIENT, "BaseClient.parse_list_line_unix#summary"), (CLIENT, "BaseClient.parse_list_line_windows#summary")]
c.raises = {"BaseException": []}


def pll_exit(S, outcome):
    it = S.it
    if outcome[0] == "raise":
        exc = outcome[1]
        ok = exc.cls.name == "ValueError"
        it.ctx.check("BaseClient.parse_list_line/raises:always-the-documented-ValueError", z3.BoolVal(ok), info={"props": ["C19"], "exc": exc.cls.name})
        if ok:
            args = exc.fields.get("args", ())
            carries = len(args) >= 2 and args[1] is S.vars["arg"]
            it.ctx.check("BaseClient.parse_list_line/raises:the-unparsable-line-is-reported", z3.BoolVal(bool(carries)), info={"props": ["C19"]})


c.exit_hook = pll_exit
c.opts = {"feas_timeout_ms": 0, "no_covers": True}
