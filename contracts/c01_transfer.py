"""C01 — transferred bytes are exact: the block iterator (common.AsyncStreamIterator) and the abstract file used by the
worker units (contracts/worker_units.py carries the transfer-loop invariants and the completion obligations)."""
import z3

from pyvc.core import SV, PyRaise, fresh
from pyvc.unit import contract
from pyvc.values import Builtin, Coro, Obj

COMMON = "aioftp.common"


def setup_anext(u):
    it = u.it
    data = fresh("bytes", "block")

    def read_coro(i, a, k):
        def run():
            i.suspend("read")
            return data

        return Coro(run, "read_coro")

    itr = it.call(u.cls(COMMON, "AsyncStreamIterator"), [Builtin("read_coro", read_coro)], {})
    return it.getattr_(itr, "__anext__"), [], {}, {"self": itr, "data": data}


c = contract(COMMON, "AsyncStreamIterator.__anext__", props=["C01"])
c.setup = setup_anext
c.ensures(lambda S: z3.And(S.it.unbox(S.result).t == S.vars["data"].t, z3.Length(S.vars["data"].t) > 0), "yields-every-non-empty-block-unchanged")
c.raises_("StopAsyncIteration", lambda S: z3.Length(S.vars["data"].t) == 0, "stops-only-on-an-empty-read")
c.raises_("CancelledError")
