"""C01 — transferred bytes are exact: the block iterator (common.AsyncStreamIterator) and the abstract file used by the
worker units (contracts/worker_units.py carries the transfer-loop invariants and the completion obligations)."""
import z3

from pyvc.core import SV, PyRaise, fresh
from pyvc.unit import contract
from pyvc.values import Builtin, Coro, Obj

COMMON = "aioftp.common"


def setup_anext(u):
    it = u.it
    data = fresh("bytes", "block")

    def read_coro(i, a, k):
        def run():
            i.suspend("read")
            return data

        return Coro(run, "read_coro")

    itr = it.call(u.cls(COMMON, "AsyncStreamIterator"), [Builtin("read_coro", read_coro)], {})
    return it.getattr_(itr, "__anext__"), [], {}, {"self": itr, "data": data}


c = contract(COMMON, "AsyncStreamIterator.__anext__", props=["C01"])
c.setup = setup_anext
c.ensures(lambda S: z3.And(S.it.unbox(S.result).t == S.vars["data"].t, z3.Length(S.vars["data"].t) > 0), "yields-every-non-empty-block-unchanged")
c.raises_("StopAsyncIteration", lambda S: z3.Length(S.vars["data"].t) == 0, "stops-only-on-an-empty-read")
c.raises_("CancelledError")


# ------------------------------------------------------------------------------------ client side
from pyvc import strmodel  # noqa: E402
from pyvc.core import as_int  # noqa: E402
from pyvc.interp import LazyOpt  # noqa: E402
from pyvc.session import Reader, Writer  # noqa: E402
from pyvc.unit import LoopSpec  # noqa: E402

CLIENT = "aioftp.client"
T1 = {"props": ["C01"]}

# summaries: Client.command records what is sent; get_passive_connection hands out a fresh socket pair
_cmd = contract(CLIENT, "BaseClient.command", props=[], name="BaseClient.command#record")
_cmd.self_check = False
_cmd.may_suspend = True


def _cmd_result(S):
    it = S.it
    it.ctx.event("command", S.vars["command"], S.vars["expected_codes"], S.vars["wait_codes"])
    return (fresh("str", "code"), ["info"])


_cmd.result_shape = _cmd_result
_cmd.raises_("StatusCodeError")

_gpc = contract(CLIENT, "Client.get_passive_connection", props=[], name="Client.get_passive_connection#record")
_gpc.self_check = False
_gpc.may_suspend = True


def _gpc_result(S):
    it = S.it
    r, w = Reader("data"), Writer("data")
    it.ctx.event("passive", S.vars["conn_type"], r, w)
    it.ctx.ghost["data_pair"] = (r, w)
    return (r, w)


_gpc.result_shape = _gpc_result
_gpc.raises_("StatusCodeError")
_gpc.raises_("OSError")


def mk_client(u):
    it = u.it
    cl = Obj(u.cls(CLIENT, "Client"), tag="client")
    cl.fields["socket_timeout"] = LazyOpt(it, "real", "socket_timeout", lambda v: v.t > 0)
    cl.fields["throttle"] = it.call(it.getattr_(u.cls(COMMON, "StreamThrottle"), "from_limits"), [], {})
    cl.fields["encoding"] = "utf-8"
    return cl


def setup_get_stream(u):
    it = u.it
    cl = mk_client(u)
    verb_cmd = fresh("str", "verb_command")
    offset = fresh("int", "offset")
    u.assume(offset.t >= 0)
    # the coroutine wrapped by @async_enterable: awaiting the enterable runs it
    enterable = it.call(it.getattr_(cl, "get_stream"), [verb_cmd, "1xx"], {"offset": offset})
    run = Builtin("await get_stream(...)", lambda i, a, k: i.call(i.getattr_(enterable, "__await__"), [], {}))
    return run, [], {}, {"self": cl, "verb": verb_cmd, "offset": offset}


c = contract(CLIENT, "Client.get_stream", props=["C01"])
c.setup = setup_get_stream
c.uses = [(CLIENT, "BaseClient.command#record"), (CLIENT, "Client.get_passive_connection#record")]
c.raises_("StatusCodeError")
c.raises_("OSError")
c.raises_("CancelledError")


def get_stream_post(S):
    """data connection first, then REST <offset> (iff offset != 0, expecting 350), then the transfer verb; the stream
    wraps the passive socket pair, shares the client's throttle and uses socket_timeout"""
    it = S.it
    ev = [e for e in it.ctx.events if e[0] in ("command", "passive")]
    off = S.vars["offset"].t
    if not ev or ev[0][0] != "passive":
        return False
    cmds = [e for e in ev[1:]]
    if any(e[0] != "command" for e in cmds):
        return False
    st = S.result
    r, w = it.ctx.ghost["data_pair"]
    wiring = st.fields["reader"] is r and st.fields["writer"] is w and st.fields["throttles"].get("_") is S.vars["self"].fields["throttle"] and st.fields["client"] is S.vars["self"]
    verb_last = len(cmds) >= 1 and cmds[-1][1] is S.vars["verb"]
    if len(cmds) == 1:
        return z3.And(off == 0, z3.BoolVal(bool(wiring and verb_last)))
    if len(cmds) == 2:
        rest_cmd = it.unbox(cmds[0][1])
        want = z3.Concat(z3.StringVal("REST "), strmodel.to_str(it, S.vars["offset"]).t)
        return z3.And(off != 0, rest_cmd.t == want, z3.BoolVal(cmds[0][2] == "350"), z3.BoolVal(bool(wiring and verb_last)))
    return False


c.ensures(get_stream_post, "passive-then-REST-iff-offset-then-verb-and-the-stream-wraps-that-socket")


def _same(it, a, b):
    return it.unbox(a) is it.unbox(b) or it.eq_term(it.unbox(a), it.unbox(b)) is True


def stream_wired_to_client(S, st):
    """C15/C16 wiring: the only throttle of a client stream is the client's own StreamThrottle object (so the control
    and every data stream are limited together); both I/O timeouts are the client's socket_timeout"""
    it = S.it
    cl = S.vars["self"]
    th = st.fields["throttles"]
    return bool(isinstance(th, dict) and list(th) == ["_"] and th["_"] is cl.fields["throttle"] and _same(it, st.fields["read_timeout"], cl.fields["socket_timeout"]) and _same(it, st.fields["write_timeout"], cl.fields["socket_timeout"]))


c.ensures(lambda S: stream_wired_to_client(S, S.result), "data-stream-is-limited-by-the-client's-one-throttle-and-uses-socket_timeout", props=["C15"])


# ---- DataConnectionThrottleStreamIO.__aexit__ / finish
def setup_aexit(u):
    it = u.it
    cl = mk_client(u)
    r, w = Reader("data"), Writer("data")
    st = it.call(u.cls(CLIENT, "DataConnectionThrottleStreamIO"), [cl, r, w], {"throttles": {}, "timeout": None})
    with_exc = u.choose(2, "body-raised") == 1
    exc = it.make_exc("ValueError") if with_exc else None
    f = it.getattr_(st, "__aexit__")
    return f, [exc.cls if exc else None, exc, None], {}, {"self": st, "writer": w, "with_exc": with_exc}


c = contract(CLIENT, "DataConnectionThrottleStreamIO.__aexit__", props=["C01"])
c.setup = setup_aexit
c.uses = [(CLIENT, "BaseClient.command#record")]
c.raises_("StatusCodeError")
c.raises_("CancelledError")


def aexit_post(S):
    it = S.it
    ev = it.ctx.events
    closes = [i for i, e in enumerate(ev) if e[0] == "close"]
    cmds = [(i, e) for i, e in enumerate(ev) if e[0] == "command"]
    if S.vars["with_exc"]:
        return len(closes) == 1 and not cmds
    ok = len(closes) == 1 and len(cmds) == 1 and closes[0] < cmds[0][0] and cmds[0][1][1] is None and cmds[0][1][2] == "2xx" and cmds[0][1][3] == "1xx"
    return bool(ok)


c.ensures(aexit_post, "closes-the-data-stream-then-waits-for-the-2xx-completion-reply")
c.raises_("StatusCodeError", lambda S: S.vars["writer"].closed, "data-stream-closed-even-when-the-completion-reply-is-bad")


# ---- the copy loop of Client.upload (file branch), extracted from the real function
import ast  # noqa: E402

from pyvc.values import Env  # noqa: E402


def setup_upload_copy(u):
    it = u.it
    mod = it.modules[CLIENT]
    fn = [n for n in ast.walk(mod.tree) if isinstance(n, ast.AsyncFunctionDef) and n.name == "upload"][0]
    loops = [n for n in ast.walk(fn) if isinstance(n, ast.AsyncFor)]
    copy = [n for n in loops if isinstance(n.iter, ast.Call) and isinstance(n.iter.func, ast.Attribute) and n.iter.func.attr == "iter_by_block"]
    if len(copy) != 1:
        raise __import__("pyvc.core", fromlist=["Unsupported"]).Unsupported("Client.upload: copy loop not found")
    loop = copy[0]
    content = fresh("bytes", "file_content")
    fr = Reader("file", incoming=content.t)

    class FileIn:
        pass

    from pyvc.values import Model

    class FileModel(Model):
        model_name = "file_in"

        def getattr(self, i, name):
            if name == "iter_by_block":
                def ibb(i2, a, k):
                    n = a[0]
                    itr_cls = i2.modules[COMMON].attrs["AsyncStreamIterator"]
                    return i2.call(itr_cls, [Builtin("read", lambda i3, a3, k3: i3.call(i3.getattr_(fr, "read"), [n], {}))], {})
                return Builtin("iter_by_block", ibb)
            raise __import__("pyvc.core", fromlist=["Unsupported"]).Unsupported("file." + name)

    w = Writer("data")
    stream = Obj(u.cls(COMMON, "StreamIO"), tag="stream")
    stream.fields.update(reader=Reader("data"), writer=w, read_timeout=None, write_timeout=None)
    bs = fresh("int", "block_size")
    u.assume(bs.t >= 1)
    env = Env(mod.env)
    # names of the two locals of the copy loop, read from the loop itself: `async for b in <SRC>.iter_by_block(..): await <DST>.write(b)`
    src_name = loop.iter.func.value.id if isinstance(loop.iter.func.value, ast.Name) else None
    dst = [n.func.value.id for n in ast.walk(loop) if isinstance(n, ast.Call) and isinstance(n.func, ast.Attribute) and n.func.attr == "write" and isinstance(n.func.value, ast.Name)]
    if src_name is None or len(dst) != 1:
        raise __import__("pyvc.core", fromlist=["Unsupported"]).Unsupported("Client.upload: copy loop is not `async for b in <file>.iter_by_block(..): await <stream>.write(b)`")
    env.vars.update(block_size=bs)
    env.vars[src_name] = FileModel()
    env.vars[dst[0]] = stream

    def run(i, a, k):
        def body():
            i.exec(loop, env, "Client.upload.<locals>")
        return Coro(body, "upload-copy-loop")

    u.it.hooks.setdefault("loops", {})
    return Builtin("Client.upload/copy-loop", run), [], {}, {"content": content, "file_reader": fr, "writer": w}


c = contract(CLIENT, "Client.upload", props=["C01", "C09"], name="Client.upload/copy-loop")
c.setup = setup_upload_copy
c.raises_("OSError")
c.raises_("CancelledError")
c.assumptions.append("block contract: the `async for block in file_in.iter_by_block(block_size): await stream.write(block)` loop is extracted from the AST of the real Client.upload; the local file yields some non-empty prefix of what remains, of length <= block_size")


def upload_loop_inv(S):
    us = S.it.ctx.unit_state
    fr, w = us.vars["file_reader"], us.vars["writer"]
    return z3.And(w.written == fr.consumed, z3.Concat(fr.consumed, fr.incoming) == us.vars["content"].t)


def upload_loop_havoc(it, env):
    us = it.ctx.unit_state
    fr, w = us.vars["file_reader"], us.vars["writer"]
    fr.incoming, fr.consumed, w.written = fresh("bytes", "inc").t, fresh("bytes", "cons").t, fresh("bytes", "wr").t


# the block has no enclosing function frame: its loop contract is looked up through the unit (ordinal -1)
c.env_hooks = {"block_loop": LoopSpec(invariants=[("sent-so-far-is-exactly-what-was-read", upload_loop_inv)], havoc=upload_loop_havoc)}
c.ensures(lambda S: S.vars["writer"].written == S.vars["content"].t, "every-byte-of-the-file-is-sent-once-in-order")



# ------------------------------------------------------------------------------------ client wiring (C15 / C16)
def setup_client_init(u):
    it = u.it
    rl, wl = LazyOpt(it, "int", "read_speed_limit", lambda v: v.t >= 0), LazyOpt(it, "int", "write_speed_limit", lambda v: v.t >= 0)
    st = LazyOpt(it, "real", "socket_timeout", lambda v: v.t > 0)
    made = []

    def factory(i, a, k):
        o = Obj(u.cls("aioftp.pathio", "AbstractPathIO"), tag="path_io")
        made.append((o, k))
        return o

    kwargs = {"read_speed_limit": rl, "write_speed_limit": wl, "socket_timeout": st, "path_io_factory": Builtin("factory", factory)}
    return Builtin("BaseClient(...)", lambda i, a, k: i.call(u.cls(CLIENT, "BaseClient"), [], kwargs)), [], {}, {"rl": rl, "wl": wl, "st": st}


c = contract(CLIENT, "BaseClient.__init__", props=["C15"])
c.setup = setup_client_init


def client_init_post(S):
    it = S.it
    cl = S.result
    th = cl.fields["throttle"]
    ok = isinstance(th, Obj) and th.cls.name == "StreamThrottle" and th.fields["read"] is not th.fields["write"]
    ok = ok and _same(it, th.fields["read"].fields["_limit"], S.vars["rl"]) and _same(it, th.fields["write"].fields["_limit"], S.vars["wl"])
    return bool(ok and _same(it, cl.fields["socket_timeout"], S.vars["st"]) and cl.fields["stream"] is None)


c.ensures(client_init_post, "one-throttle-per-client-with-read-limit-on-read-and-write-limit-on-write")


def setup_connect(u):
    it = u.it
    cl = mk_client(u)
    cl.fields["connection_timeout"] = LazyOpt(it, "real", "connection_timeout", lambda v: v.t > 0)
    pair = []

    def open_conn(i, a, k):
        def run():
            i.suspend("open_connection")
            if i.ctx.choose(2, "connect-outcome") == 1:
                i.throw("OSError")
            r, w = Reader("control"), Writer("control")
            pair.append((r, w, a))
            return (r, w)

        return Coro(run, "open_connection")

    cl.fields["_open_connection"] = Builtin("open_connection", open_conn)
    host, port = fresh("str", "host"), fresh("int", "port")
    # (Client.connect = this + reading the greeting through command())
    return it.getattr_(u.cls(CLIENT, "BaseClient"), "connect"), [cl, host, port], {}, {"self": cl, "host": host, "port": port, "pair": pair}


c = contract(CLIENT, "BaseClient.connect", props=["C15"])
c.setup = setup_connect
c.raises_("OSError")
c.raises_("TimeoutError")
c.raises_("CancelledError")


def connect_post(S):
    it = S.it
    cl = S.vars["self"]
    st = cl.fields["stream"]
    pair = S.vars["pair"]
    if len(pair) != 1 or not isinstance(st, Obj):
        return False
    r, w, a = pair[0]
    scopes = [e for e in it.ctx.events if e[0] == "wait_for"]
    ct = it.unbox(cl.fields["connection_timeout"])
    timed = (ct is None and not scopes) or (ct is not None and len(scopes) == 1 and scopes[0][1] is ct)
    return bool(st.fields["reader"] is r and st.fields["writer"] is w and a[0] is S.vars["host"] and a[1] is S.vars["port"] and stream_wired_to_client(S, st) and timed)


c.ensures(connect_post, "control-stream-wraps-the-new-socket-is-limited-by-the-client's-throttle-and-the-connect-is-bounded-by-connection_timeout")


# ------------------------------------------------------------------------------------ file branch of Client.upload / Client.download
from pyvc.core import Unsupported  # noqa: E402
from pyvc.models_path import PathVal  # noqa: E402
from pyvc.values import Model  # noqa: E402


class LocalFile(Model):
    """a local file handed out by client.path_io.open(...): reads come from `reader` (upload), writes go to `written`"""

    model_name = "localfile"

    def __init__(self, path, mode, content=None):
        super().__init__()
        self.path, self.mode = path, mode
        self.reader = Reader("localfile", incoming=content) if content is not None else None
        self.written = z3.StringVal("")
        self.closed = False

    def getattr(self, i, name):
        if name == "iter_by_block":

            def ibb(i2, a, k):
                n = a[0]
                itr_cls = i2.modules[COMMON].attrs["AsyncStreamIterator"]
                return i2.call(itr_cls, [Builtin("read", lambda i3, a3, k3: i3.call(i3.getattr_(self.reader, "read"), [n], {}))], {})

            return Builtin("iter_by_block", ibb)
        if name == "write":

            def write(i2, a, k):
                def run():
                    i2.suspend("localfile.write")
                    if i2.ctx.choose(2, "local-write-outcome") == 1:
                        i2.throw("OSError")
                    self.written = z3.Concat(self.written, a[0].t)

                return Coro(run, "localfile.write")

            return Builtin("localfile.write", write)
        if name == "close":

            def close(i2, a, k):
                def run():
                    self.closed = True

                return Coro(run, "localfile.close")

            return Builtin("localfile.close", close)
        raise Unsupported("localfile." + name)


class Ctx(Model):
    """async context manager stand-in: __aenter__ gives `value`; __aexit__ records how it was left"""

    model_name = "ctxmgr"

    def __init__(self, kind, value, on_exit, on_enter=None):
        super().__init__()
        self.kind, self.value, self.on_exit, self.on_enter = kind, value, on_exit, on_enter

    def m___await__(self, i):
        # `await path_io.open(...)`: the file without the context manager (the caller has to close it)
        i.suspend(self.kind + ".__await__")
        i.ctx.event("enter", self.kind)
        if self.on_enter:
            self.on_enter()
        return self.value

    def getattr(self, i, name):
        if name == "__aenter__":

            def en(i2, a, k):
                def run():
                    i2.suspend(self.kind + ".__aenter__")
                    i2.ctx.event("enter", self.kind)
                    if self.on_enter:
                        self.on_enter()
                    return self.value

                return Coro(run, self.kind + ".__aenter__")

            return Builtin(self.kind + ".__aenter__", en)
        if name == "__aexit__":

            def ex(i2, a, k):
                def run():
                    self.on_exit(i2, a[1] if len(a) > 1 else None)
                    i2.ctx.event("exit", self.kind, a[1] if len(a) > 1 else None)
                    return None

                return Coro(run, self.kind + ".__aexit__")

            return Builtin(self.kind + ".__aexit__", ex)
        raise Unsupported("ctx." + name)


def make_file_branch_setup(direction):
    meth = {"up": "upload", "down": "download"}[direction]

    def setup(u):
        it = u.it
        mod = it.modules[CLIENT]
        fn = [n for n in ast.walk(mod.tree) if isinstance(n, ast.AsyncFunctionDef) and n.name == meth][0]
        # the file arm: body of the first `if await ...is_file(source):` of the function, whatever its inner structure
        arms = [n for n in ast.walk(fn) if isinstance(n, ast.If) and "is_file" in ast.unparse(n.test) and "source" in ast.unparse(n.test)]
        if not arms:
            raise Unsupported(f"Client.{meth}: file branch not found")
        node_body = arms[0].body
        content = fresh("bytes", "content")
        opened, streams, prep = [], [], []
        from contracts.c09_client import mk_path

        local = mk_path(u, "local", "/")
        remote = mk_path(u, "remote", ["", "/"][u.choose(2, "remote-absolute")])
        w = Writer("data")
        stream = Obj(u.cls(COMMON, "ThrottleStreamIO"), tag="stream")
        stream.fields.update(reader=Reader("data", incoming=content.t if direction == "down" else None), writer=w, read_timeout=None, write_timeout=None, throttles={})

        class LocalIO(Model):
            model_name = "local_path_io"

            def getattr(self, i, name):
                if name == "open":

                    def op(i2, a, k):
                        f = LocalFile(a[0], k.get("mode", a[1] if len(a) > 1 else "rb"), content.t if direction == "up" else None)

                        def closed(i3, exc):
                            f.closed = True

                        # (the file is opened by __aenter__ of the context object, as in pathio.AsyncPathIOContext)
                        return Ctx("file", f, closed, on_enter=lambda: opened.append(f))

                    return Builtin("path_io.open", op)
                if name == "mkdir":

                    def mk(i2, a, k):
                        def run():
                            i2.suspend("mkdir")
                            prep.append(("mkdir", a, k))

                        return Coro(run, "mkdir")

                    return Builtin("path_io.mkdir", mk)
                raise Unsupported("path_io." + name)

        def make_directory(i, a, k):
            def run():
                i.suspend("make_directory")
                prep.append(("make_directory", a[1:], k))

            return Coro(run, "make_directory")

        def get_stream(i, a, k):
            rec = {"args": a[1:], "kwargs": k, "left": None}
            streams.append(rec)

            def left(i2, exc):
                rec["left"] = "close" if exc is not None else "finish"

            return Ctx("stream", stream, left)

        cl = mk_client(u)
        gs = Builtin("Client.get_stream", get_stream)
        gs.is_method = True
        md = Builtin("Client.make_directory", make_directory)
        md.is_method = True
        cl.cls = type(cl.cls)(cl.cls.name, [cl.cls], {"get_stream": gs, "make_directory": md})
        cl.fields["path_io"] = LocalIO()
        bs = fresh("int", "block_size")
        u.assume(bs.t >= 1)
        env = Env(mod.env)
        env.vars.update(self=cl, source=local if direction == "up" else remote, destination=remote if direction == "up" else local, block_size=bs)

        def run(i, a, k):
            def body():
                i.exec_block(node_body, env, f"Client.{meth}.<locals>")

            return Coro(body, f"{meth}-file-branch")

        return Builtin(f"Client.{meth}/file-branch", run), [], {}, {"prep": prep, "content": content, "opened": opened, "streams": streams, "stream": stream, "writer": w, "local": local, "remote": remote, "direction": direction, "self": cl}

    return setup


def branch_loop_inv(S):
    us = S.it.ctx.unit_state
    d = us.vars["direction"]
    op = us.vars["opened"]
    if len(op) != 1:
        # the loop contract is written for "the file is open before the copy loop starts"; a branch that opens it
        # elsewhere is outside what this contract can decide (undecided, not a violation - rt/c01_rt.py refutes or not)
        raise Unsupported("copy loop entered without exactly one open local file: the loop contract does not apply")
    f = op[0]
    if d == "up":
        r, wr = f.reader, us.vars["writer"].written
    else:
        r, wr = us.vars["stream"].fields["reader"], f.written
    return z3.And(wr == r.consumed, z3.Concat(r.consumed, r.incoming) == us.vars["content"].t, z3.BoolVal(not f.closed))


def branch_loop_havoc(it, env):
    us = it.ctx.unit_state
    d = us.vars["direction"]
    f = us.vars["opened"][0]
    r = f.reader if d == "up" else us.vars["stream"].fields["reader"]
    r.incoming, r.consumed = fresh("bytes", "inc").t, fresh("bytes", "cons").t
    if d == "up":
        us.vars["writer"].written = fresh("bytes", "wr").t
    else:
        f.written = fresh("bytes", "wr").t


def branch_post(S):
    """one local file (upload: 'rb' at source; download: 'wb' at destination) and one data stream (STOR <destination> /
    RETR <source>, expecting 1xx, from offset 0); on a normal exit every byte went across once, in order, the file is
    closed and the stream was left through finish() (= the completion reply was awaited)"""
    it = S.it
    d = S.vars["direction"]
    op, st = S.vars["opened"], S.vars["streams"]
    if len(op) != 1 or len(st) != 1:
        return False
    f, rec = op[0], st[0]
    prep = S.vars["prep"]
    # the directory that will hold the target exists before anything is transferred
    if d == "up":
        prep_ok = len(prep) == 1 and prep[0][0] == "make_directory" and len(prep[0][1]) == 1 and isinstance(prep[0][1][0], PathVal)
    else:
        prep_ok = len(prep) == 1 and prep[0][0] == "mkdir" and prep[0][2].get("parents") is True and prep[0][2].get("exist_ok") is True
    if not prep_ok:
        return False
    tgt = S.vars["remote"] if d == "up" else S.vars["local"]
    par = prep[0][1][0]
    n = z3.Length(tgt.parts)
    parent_ok = z3.And(par.anchor_t() == tgt.anchor_t(), z3.PrefixOf(par.parts, tgt.parts), z3.Length(par.parts) == z3.If(n > 0, n - 1, 0))
    want_mode = "rb" if d == "up" else "wb"
    if f.mode != want_mode or f.path is not S.vars["local"] or not f.closed or rec["left"] != "finish":
        return False
    off = rec["kwargs"].get("offset", 0)
    if not (isinstance(off, int) and off == 0) or len(rec["args"]) != 2 or rec["args"][1] != "1xx":
        return False
    sp = SpecInterp(it)
    verb = "STOR " if d == "up" else "RETR "
    want_cmd = sp.value(f'"{verb}" + str(remote)', S)
    moved = S.vars["writer"].written if d == "up" else f.written
    return z3.And(parent_ok, it.unbox(rec["args"][0]).t == want_cmd.t, moved == S.vars["content"].t)


def branch_raise(S):
    """whatever goes wrong, the local file is closed and the data stream is not left through finish()"""
    op, st = S.vars["opened"], S.vars["streams"]
    return all(f.closed for f in op) and all(r["left"] in (None, "close") for r in st) and all(r["left"] == "close" for r in st if any(e[0] == "enter" and e[1] == "stream" for e in S.it.ctx.events))


from pyvc.unit import SpecInterp  # noqa: E402

for _d, _m in (("up", "upload"), ("down", "download")):
    c = contract(CLIENT, f"Client.{_m}", props=["C01", "C09"], name=f"Client.{_m}/file-branch")
    c.setup = make_file_branch_setup(_d)
    c.env_hooks = {"block_loop": LoopSpec(invariants=[("moved-so-far-is-exactly-what-was-read", branch_loop_inv)], havoc=branch_loop_havoc)}
    c.ensures(branch_post, "one-file-one-stream-right-mode-right-command-every-byte-once-in-order-closed-and-finished")
    for _e in ("OSError", "CancelledError", "ConnectionResetError"):
        c.raises_(_e, branch_raise, "file-closed-and-stream-abandoned-not-finished")
    c.cancellable = True
    c.assumptions.append(f"block contract: the `async with self.path_io.open(...), self.{_m}_stream(...)` statement (with the copy loop inside) is extracted from the AST of the real Client.{_m}; get_stream and path_io.open are stand-ins that record their arguments (get_stream has its own contract)")


# ------------------------------------------------------------------------------------ Client.get_passive_connection
def setup_gpc(u):
    it = u.it
    cl = mk_client(u)
    order = [("epsv", "pasv"), ("pasv",), ("epsv",), ("pasv", "epsv")][u.choose(4, "passive-commands")]
    cl.fields["_passive_commands"] = order
    cl.fields["server_host"] = fresh("str", "server_host")
    conn_type = fresh("str", "conn_type")
    sent, opened, answers = [], [], []

    def command(i, a, k):
        def run():
            i.suspend("command")
            cmd, exp = a[1], (a[2] if len(a) > 2 else None)
            oc = i.ctx.choose(3, "reply")  # accepted, refused 502 (not implemented), refused otherwise
            sent.append((cmd, exp, oc))
            if oc:
                code = i.call(u.cls(CLIENT, "Code"), [["502", "550"][oc - 1]], {})
                raise PyRaise(i.call(u.cls("aioftp.errors", "StatusCodeError"), [i.call(u.cls(CLIENT, "Code"), [exp], {}), code, ["refused"]], {}))
            line = fresh("str", "reply_line")
            return (i.call(u.cls(CLIENT, "Code"), [exp if exp and exp.isdigit() else "200"], {}), [line])

        return Coro(run, "command")

    def mk_parser(kind):
        def parse(i, a, k):
            port = fresh("int", "port")
            if kind == "epsv":
                ip = None
            else:
                ip = ["0.0.0.0", None][0] if i.ctx.choose(2, "pasv-ip-unspecified") == 1 else fresh("str", "ip")
                if isinstance(ip, SV):
                    i.ctx.assume(ip.t != z3.StringVal("0.0.0.0"))
            answers.append((kind, a[-1], ip, port))
            return (ip, port)

        return parse

    def open_conn(i, a, k):
        def run():
            i.suspend("open_connection")
            if i.ctx.choose(2, "connect-outcome") == 1:
                i.throw("OSError")
            r, w = Reader("data"), Writer("data")
            opened.append((a, r, w))
            return (r, w)

        return Coro(run, "open_connection")

    attrs = {}
    for nm, fn in (("command", command), ("parse_epsv_response", mk_parser("epsv")), ("parse_pasv_response", mk_parser("pasv"))):
        b = Builtin("Client." + nm, fn)
        b.is_method = True
        attrs[nm] = b
    cl.cls = type(cl.cls)(cl.cls.name, [cl.cls], attrs)
    cl.fields["_open_connection"] = Builtin("open_connection", open_conn)
    return it.getattr_(cl, "get_passive_connection"), [conn_type], {}, {"self": cl, "conn_type": conn_type, "order": order, "sent": sent, "opened": opened, "answers": answers}


c = contract(CLIENT, "Client.get_passive_connection", props=["C01"])
c.setup = setup_gpc
c.raises_("CancelledError")
c.raises_("OSError")


def _gpc_protocol(S, upto_success):
    """TYPE <conn_type> (expecting 200) first; then the configured passive commands in order, each expecting its own
    code (EPSV 229 / PASV 227), the next one tried only after the previous was refused with 50x"""
    it = S.it
    sent, order = S.vars["sent"], S.vars["order"]
    if not sent:
        return False
    t = sent[0]
    if t[1] != "200":
        return False
    conj = [it.unbox(t[0]).t == z3.Concat(z3.StringVal("TYPE "), S.vars["conn_type"].t)]
    tries = sent[1:]
    if len(tries) > len(order):
        return False
    for j, (cmd, exp, oc) in enumerate(tries):
        want = {"epsv": ("EPSV", "229"), "pasv": ("PASV", "227")}[order[j]]
        if not (isinstance(cmd, str) and cmd == want[0] and exp == want[1]):
            return False
        if j < len(tries) - 1 and oc != 1:
            return False  # moved on after something other than a 50x refusal
    return z3.And(*conj)


def gpc_post(S):
    it = S.it
    sent, opened, answers = S.vars["sent"], S.vars["opened"], S.vars["answers"]
    proto = _gpc_protocol(S, True)
    if proto is False or sent[0][2] != 0 or len(sent) < 2 or sent[-1][2] != 0:
        return False
    if len(opened) != 1 or len(answers) != 1:
        return False
    kind, line, ip, port = answers[0]
    (a, r, w) = opened[0]
    res = S.result
    if not (isinstance(res, tuple) and res[0] is r and res[1] is w and a[1] is port):
        return False
    host = S.vars["self"].fields["server_host"]
    if ip is None or (isinstance(ip, str) and ip == "0.0.0.0"):
        return z3.And(proto, z3.BoolVal(a[0] is host))
    return z3.And(proto, z3.BoolVal(a[0] is ip))


c.ensures(gpc_post, "TYPE-then-passive-commands-in-order-with-50x-fallback-then-connects-to-the-address-of-the-accepted-reply")


def gpc_refused(S):
    """a refusal ends the attempt unless it is a 50x to a passive command that has a successor"""
    sent, order = S.vars["sent"], S.vars["order"]
    proto = _gpc_protocol(S, False)
    if proto is False or S.vars["opened"]:
        return False
    last = sent[-1]
    if len(sent) == 1:
        return z3.And(proto, z3.BoolVal(last[2] != 0))
    is_last_cmd = len(sent) - 1 == len(order)
    return z3.And(proto, z3.BoolVal(last[2] == 2 or (last[2] == 1 and is_last_cmd)))


c.raises_("StatusCodeError", gpc_refused, "refusal-is-reported-unless-50x-with-a-fallback-left")
