"""C03 — login: MemoryUserManager against the user-manager contract assumed by the handler units."""
import z3

from contracts import c10_limits
from contracts.c10_limits import ac_state
from pyvc.core import SV, fresh
from pyvc.interp import LazyOpt
from pyvc.sessionenv import ObjMap
from pyvc.unit import contract
from pyvc.values import Obj

SERVER = "aioftp.server"
MAX_USERS = 3  # bound of the user-table loop in get_user (labelled bounded in the evidence)


def mk_um(u):
    it = u.it
    mod = it.modules[SERVER]
    n = u.choose(MAX_USERS + 1, "user-table-size")
    users = []
    for i in range(n):
        o = Obj(mod.attrs["User"], tag=f"user{i}")
        o.fields["login"] = LazyOpt(it, "str", f"login{i}")
        o.fields["password"] = LazyOpt(it, "str", f"password{i}")
        o.fields["maximum_connections"] = None
        users.append(o)
    um = Obj(mod.attrs["MemoryUserManager"], tag="um")
    um.fields["users"] = users
    um.fields["timeout"] = None
    acs = {}
    for o in users:
        acs[o] = ac_state(u, f"ac_{o.tag}")
    um.fields["available_connections"] = acs
    return um, users


def setup_get_user(u):
    um, users = mk_um(u)
    login = fresh("str", "login_arg")
    f = u.it.getattr_(um, "get_user")
    old = {o: um.fields["available_connections"][o].fields["value"] for o in users}  # lazies: forced by the code or the spec
    return f, [login], {}, {"self": um, "login": login, "users": users, "old_values": old}


c = contract(SERVER, "MemoryUserManager.get_user", props=["C03", "C10"])
c.setup = setup_get_user
c.uses = [(SERVER, "AvailableConnections.acquire"), (SERVER, "AvailableConnections.locked")]
c.assumptions.append(f"B-users: the user table loop of get_user is unrolled for tables of 0..{MAX_USERS} users (bounded stand-in for the loop; all field values symbolic)")


def state_is(S, name):
    return S.result[0].name == name


def gu_user(S):
    return S.result[1]


def spec_first_match(S):
    """the returned user is the first with login == arg, else the first anonymous one, else None"""
    it = S.it
    users, login = S.vars["users"], S.vars["login"]
    res = gu_user(S)
    # build the expected index by the spec, path-sensitively (logins are decided on this path)
    expected = None
    anon = None
    conds = []
    for o in users:
        lg = it.unbox(o.fields["login"])
        if lg is None:
            if anon is None:
                anon = o
            continue
        e = it.eq_term(lg, login)
        if e is True:
            expected = o
            break
        if e is False:
            continue
        # undecided equality: the executor has already forked on it inside get_user; evaluate under the path condition
        if it.ctx.proved(e, "spec-login-eq"):
            expected = o
            break
    if expected is None:
        expected = anon
    return res is expected


c.ensures(spec_first_match, "returns-first-matching-else-first-anonymous", props=["C03"])
c.ensures(lambda S: state_is(S, "ERROR") if gu_user(S) is None else True, "unknown-login-is-ERROR", props=["C03"])
c.ensures(
    lambda S: True if not state_is(S, "PASSWORD_REQUIRED") else (S.it.unbox(gu_user(S).fields["password"]) is not None and S.it.unbox(gu_user(S).fields["login"]) is not None),
    "PASSWORD_REQUIRED-only-for-named-user-with-password",
    props=["C03"],
)
c.ensures(
    lambda S: True if not state_is(S, "OK") else (S.it.unbox(gu_user(S).fields["login"]) is None or S.it.unbox(gu_user(S).fields["password"]) is None),
    "OK-only-for-anonymous-or-passwordless",
    props=["C03"],
)
c.ensures(
    lambda S: True if not state_is(S, "OK") else S.it.unbox(gu_user(S).fields["password"]) is None,
    "OK-only-when-the-account-has-no-password",
    props=["C03"],
)


def slot_ledger(S):
    """a slot is taken iff state != ERROR, and only from the returned user's counter"""
    it = S.it
    um = S.vars["self"]
    res = gu_user(S)
    conj = []
    for o in S.vars["users"]:
        ac = um.fields["available_connections"][o]
        old = it.unbox(S.vars["old_values"][o])
        new = it.unbox(ac.fields["value"])
        if old is None:
            conj.append(new is None)
            continue
        delta = -1 if (o is res and not state_is(S, "ERROR")) else 0
        e = it.eq_term(new, it.binop(__import__("ast").Add(), old, delta))
        conj.append(e)
    conj = [z3.BoolVal(x) if isinstance(x, bool) else x for x in conj]
    return z3.And(*conj) if conj else True


c.ensures(slot_ledger, "slot-taken-iff-not-ERROR", props=["C10", "C03"])
c.ensures(
    lambda S: True
    if gu_user(S) is None or S.it.unbox(S.vars["old_values"][gu_user(S)]) is None
    else z3.Implies(S.it.unbox(S.vars["old_values"][gu_user(S)]).t == 0, z3.BoolVal(state_is(S, "ERROR"))),
    "full-user-is-refused",
    props=["C10"],
)


def setup_auth(u):
    um, users = mk_um(u)
    if not users:
        users = [Obj(u.it.modules[SERVER].attrs["User"], tag="userX")]
        users[0].fields["password"] = LazyOpt(u.it, "str", "passwordX")
    user = users[0]
    pw = fresh("str", "password_arg")
    f = u.it.getattr_(um, "authenticate")
    return f, [user, pw], {}, {"self": um, "user": user, "password": pw}


c = contract(SERVER, "MemoryUserManager.authenticate", props=["C03"])
c.setup = setup_auth
c.ensures(lambda S: S.it.eq_term(S.result, S.it.mk_bool(S.it.eq_term(S.it.unbox(S.vars["user"].fields["password"]), S.vars["password"]))), "true-iff-password-equal")


def setup_logout(u):
    um, users = mk_um(u)
    if not users:
        raise __import__("pyvc.core", fromlist=["PathEnd"]).PathEnd("no users")
    user = users[u.choose(len(users), "which-user")]
    ac = um.fields["available_connections"][user]
    old = u.it.unbox(ac.fields["value"])
    if old is not None:
        # precondition: the session held a slot of this user (I6): value < max
        u.assume(old.t < u.it.unbox(ac.fields["maximum_value"]).t)
    f = u.it.getattr_(um, "notify_logout")
    return f, [user], {}, {"self": um, "user": user, "old": old, "ac": ac}


c = contract(SERVER, "MemoryUserManager.notify_logout", props=["C10"])
c.setup = setup_logout
c.uses = [(SERVER, "AvailableConnections.release")]
c.ensures(lambda S: True if S.vars["old"] is None else S.it.unbox(S.vars["ac"].fields["value"]).t == S.vars["old"].t + 1, "returns-exactly-one-slot")


# ------------------------------------------------------------------------------------ get_user's selection loop, user tables of ANY length
import ast as _ast  # noqa: E402

from pyvc.objseq import ObjSeq, cond_opt  # noqa: E402
from pyvc.unit import LoopSpec  # noqa: E402
from pyvc.values import Builtin, Coro, Env  # noqa: E402

HAS_LOGIN = z3.Array("user_has_login", z3.IntSort(), z3.BoolSort())
LOGIN = z3.Array("user_login", z3.IntSort(), z3.StringSort())


def _exact(i, login):
    return z3.And(HAS_LOGIN[i], LOGIN[i] == login.t)


def setup_selection(u):
    it = u.it
    mod = it.modules[SERVER]
    cls = mod.attrs["MemoryUserManager"]
    fn, _ = cls.lookup("get_user")
    node = fn.node if hasattr(fn, "node") else None
    if node is None:
        from pyvc.core import Unsupported

        raise Unsupported("MemoryUserManager.get_user: source not found")
    # the selection part: statements up to and including the first `for` loop
    body = []
    for st in node.body:
        if isinstance(st, _ast.Expr) and isinstance(getattr(st, "value", None), _ast.Constant):
            continue
        body.append(st)
        if isinstance(st, _ast.For):
            break
    if not body or not isinstance(body[-1], _ast.For):
        from pyvc.core import Unsupported

        raise Unsupported("MemoryUserManager.get_user: selection loop not found")
    # the variable that carries the selection: the one the loop assigns its own loop variable to (name read from the AST)
    loop = body[-1]
    tgt = loop.target.id if isinstance(loop.target, _ast.Name) else None
    sel = [n.targets[0].id for n in _ast.walk(loop) if isinstance(n, _ast.Assign) and isinstance(n.value, _ast.Name) and n.value.id == tgt and isinstance(n.targets[0], _ast.Name)]
    if tgt is None or not sel or len(set(sel)) != 1:
        from pyvc.core import Unsupported

        raise Unsupported("MemoryUserManager.get_user: selection variable not identified")
    SEL = sel[0]
    it.hooks["block_loop"] = LoopSpec(invariants=[("no-exact-match-so-far-and-user-is-the-first-anonymous-so-far", lambda S: sel_inv(S, SEL))], shapes={SEL: sel_user_shape})

    def make(it_, idx):
        o = Obj(mod.attrs["User"], tag="user[i]")
        o.fields["login"] = cond_opt(it_, HAS_LOGIN[idx], SV("str", LOGIN[idx]), "login[i]")
        return o

    table = ObjSeq("users", make)
    um = Obj(cls, tag="um")
    um.fields["users"] = table
    login = fresh("str", "login_arg")
    env = Env(mod.env)
    env.vars.update(self=um, login=login)

    def run(i, a, k):
        def go():
            i.exec_block(body, env, "MemoryUserManager.get_user.<locals>")
            return env.vars[SEL]

        return Coro(go, "get_user-selection")

    return Builtin("MemoryUserManager.get_user/selection", run), [], {}, {"table": table, "login": login, "env": env}


c = contract(SERVER, "MemoryUserManager.get_user", props=["C03"], name="MemoryUserManager.get_user/selection#any-table")
c.setup = setup_selection
c.assumptions.append("block contract over the selection loop of the real MemoryUserManager.get_user (`user = None; for u in self.users: ...`); the user table is a list of any length whose entries have an optional login; the rest of get_user is straight-line on the selected user and is the bounded unit's")


def _sel_state(S_or_env, table):
    return None


def sel_inv(S, SEL="user"):
    """consumed k entries without break: none of them is an exact match; `user` is None iff none of them is anonymous,
    otherwise it is the FIRST anonymous entry among them"""
    it = S.it
    table, login = S.vars["table"], S.vars["login"]
    k = S.vars["_i"]
    k = k.t if isinstance(k, SV) else z3.IntVal(k)
    user = S.vars[SEL]
    i = z3.Int("i!sel")
    no_exact = z3.ForAll([i], z3.Implies(z3.And(i >= 0, i < k), z3.Not(_exact(i, login))))
    if user is None:
        return z3.And(no_exact, z3.ForAll([i], z3.Implies(z3.And(i >= 0, i < k), HAS_LOGIN[i])))
    if getattr(user, "seq_of", None) is not table:
        return False
    a = user.seq_index
    return z3.And(no_exact, a >= 0, a < k, z3.Not(HAS_LOGIN[a]), z3.ForAll([i], z3.Implies(z3.And(i >= 0, i < a), HAS_LOGIN[i])))


def sel_user_shape(it):
    """at an arbitrary loop head `user` is None or some entry of the table (which one: constrained by the invariant)"""
    us = it.ctx.unit_state
    table = us.vars["table"]
    if it.ctx.choose(2, "user-so-far") == 0:
        return None
    a = z3.Int(f"anon_index!{next(_sel_ctr)}")
    return table.elem(it, a)


import itertools as _it2  # noqa: E402

_sel_ctr = _it2.count()


def sel_post(S):
    """the selected user is the first entry whose login equals the argument; if there is none, the first anonymous
    entry; if there is none either, None - for a table of any length"""
    table, login = S.vars["table"], S.vars["login"]
    res = S.result
    i = z3.Int("i!selpost")
    n = table.n
    rng = z3.And(i >= 0, i < n)
    none_exact = z3.ForAll([i], z3.Implies(rng, z3.Not(_exact(i, login))))
    if res is None:
        return z3.And(none_exact, z3.ForAll([i], z3.Implies(rng, HAS_LOGIN[i])))
    if getattr(res, "seq_of", None) is not table:
        return False
    j = res.seq_index
    first_exact = z3.And(_exact(j, login), z3.ForAll([i], z3.Implies(z3.And(i >= 0, i < j), z3.Not(_exact(i, login)))))
    first_anon = z3.And(none_exact, z3.Not(HAS_LOGIN[j]), z3.ForAll([i], z3.Implies(z3.And(i >= 0, i < j), HAS_LOGIN[i])))
    return z3.And(j >= 0, j < n, z3.Or(first_exact, first_anon))


c.ensures(sel_post, "first-exact-login-else-first-anonymous-else-none")
c.opts = {"solve_budget_s": 60}
