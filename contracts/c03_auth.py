"""C03 — login: MemoryUserManager against the user-manager contract assumed by the handler units."""
import z3

from contracts import c10_limits
from contracts.c10_limits import ac_state
from pyvc.core import SV, fresh
from pyvc.interp import LazyOpt
from pyvc.sessionenv import ObjMap
from pyvc.unit import contract
from pyvc.values import Obj

SERVER = "aioftp.server"
MAX_USERS = 3  # bound of the user-table loop in get_user (labelled bounded in the evidence)


def mk_um(u):
    it = u.it
    mod = it.modules[SERVER]
    n = u.choose(MAX_USERS + 1, "user-table-size")
    users = []
    for i in range(n):
        o = Obj(mod.attrs["User"], tag=f"user{i}")
        o.fields["login"] = LazyOpt(it, "str", f"login{i}")
        o.fields["password"] = LazyOpt(it, "str", f"password{i}")
        o.fields["maximum_connections"] = None
        users.append(o)
    um = Obj(mod.attrs["MemoryUserManager"], tag="um")
    um.fields["users"] = users
    um.fields["timeout"] = None
    acs = {}
    for o in users:
        acs[o] = ac_state(u, f"ac_{o.tag}")
    um.fields["available_connections"] = acs
    return um, users


def setup_get_user(u):
    um, users = mk_um(u)
    login = fresh("str", "login_arg")
    f = u.it.getattr_(um, "get_user")
    old = {o: um.fields["available_connections"][o].fields["value"] for o in users}  # lazies: forced by the code or the spec
    return f, [login], {}, {"self": um, "login": login, "users": users, "old_values": old}


c = contract(SERVER, "MemoryUserManager.get_user", props=["C03", "C10"])
c.setup = setup_get_user
c.uses = [(SERVER, "AvailableConnections.acquire"), (SERVER, "AvailableConnections.locked")]
c.assumptions.append(f"B-users: the user table loop of get_user is unrolled for tables of 0..{MAX_USERS} users (bounded stand-in for the loop; all field values symbolic)")


def state_is(S, name):
    return S.result[0].name == name


def gu_user(S):
    return S.result[1]


def spec_first_match(S):
    """the returned user is the first with login == arg, else the first anonymous one, else None"""
    it = S.it
    users, login = S.vars["users"], S.vars["login"]
    res = gu_user(S)
    # build the expected index by the spec, path-sensitively (logins are decided on this path)
    expected = None
    anon = None
    conds = []
    for o in users:
        lg = it.unbox(o.fields["login"])
        if lg is None:
            if anon is None:
                anon = o
            continue
        e = it.eq_term(lg, login)
        if e is True:
            expected = o
            break
        if e is False:
            continue
        # undecided equality: the executor has already forked on it inside get_user; evaluate under the path condition
        if it.ctx.proved(e, "spec-login-eq"):
            expected = o
            break
    if expected is None:
        expected = anon
    return res is expected


c.ensures(spec_first_match, "returns-first-matching-else-first-anonymous", props=["C03"])
c.ensures(lambda S: state_is(S, "ERROR") if gu_user(S) is None else True, "unknown-login-is-ERROR", props=["C03"])
c.ensures(
    lambda S: True if not state_is(S, "PASSWORD_REQUIRED") else (S.it.unbox(gu_user(S).fields["password"]) is not None and S.it.unbox(gu_user(S).fields["login"]) is not None),
    "PASSWORD_REQUIRED-only-for-named-user-with-password",
    props=["C03"],
)
c.ensures(
    lambda S: True if not state_is(S, "OK") else (S.it.unbox(gu_user(S).fields["login"]) is None or S.it.unbox(gu_user(S).fields["password"]) is None),
    "OK-only-for-anonymous-or-passwordless",
    props=["C03"],
)
c.ensures(
    lambda S: True if not state_is(S, "OK") else S.it.unbox(gu_user(S).fields["password"]) is None,
    "OK-only-when-the-account-has-no-password",
    props=["C03"],
)


def slot_ledger(S):
    """a slot is taken iff state != ERROR, and only from the returned user's counter"""
    it = S.it
    um = S.vars["self"]
    res = gu_user(S)
    conj = []
    for o in S.vars["users"]:
        ac = um.fields["available_connections"][o]
        old = it.unbox(S.vars["old_values"][o])
        new = it.unbox(ac.fields["value"])
        if old is None:
            conj.append(new is None)
            continue
        delta = -1 if (o is res and not state_is(S, "ERROR")) else 0
        e = it.eq_term(new, it.binop(__import__("ast").Add(), old, delta))
        conj.append(e)
    conj = [z3.BoolVal(x) if isinstance(x, bool) else x for x in conj]
    return z3.And(*conj) if conj else True


c.ensures(slot_ledger, "slot-taken-iff-not-ERROR", props=["C10", "C03"])
c.ensures(
    lambda S: True
    if gu_user(S) is None or S.it.unbox(S.vars["old_values"][gu_user(S)]) is None
    else z3.Implies(S.it.unbox(S.vars["old_values"][gu_user(S)]).t == 0, z3.BoolVal(state_is(S, "ERROR"))),
    "full-user-is-refused",
    props=["C10"],
)


def setup_auth(u):
    um, users = mk_um(u)
    if not users:
        users = [Obj(u.it.modules[SERVER].attrs["User"], tag="userX")]
        users[0].fields["password"] = LazyOpt(u.it, "str", "passwordX")
    user = users[0]
    pw = fresh("str", "password_arg")
    f = u.it.getattr_(um, "authenticate")
    return f, [user, pw], {}, {"self": um, "user": user, "password": pw}


c = contract(SERVER, "MemoryUserManager.authenticate", props=["C03"])
c.setup = setup_auth
c.ensures(lambda S: S.it.eq_term(S.result, S.it.mk_bool(S.it.eq_term(S.it.unbox(S.vars["user"].fields["password"]), S.vars["password"]))), "true-iff-password-equal")


def setup_logout(u):
    um, users = mk_um(u)
    if not users:
        raise __import__("pyvc.core", fromlist=["PathEnd"]).PathEnd("no users")
    user = users[u.choose(len(users), "which-user")]
    ac = um.fields["available_connections"][user]
    old = u.it.unbox(ac.fields["value"])
    if old is not None:
        # precondition: the session held a slot of this user (I6): value < max
        u.assume(old.t < u.it.unbox(ac.fields["maximum_value"]).t)
    f = u.it.getattr_(um, "notify_logout")
    return f, [user], {}, {"self": um, "user": user, "old": old, "ac": ac}


c = contract(SERVER, "MemoryUserManager.notify_logout", props=["C10"])
c.setup = setup_logout
c.uses = [(SERVER, "AvailableConnections.release")]
c.ensures(lambda S: True if S.vars["old"] is None else S.it.unbox(S.vars["ac"].fields["value"]).t == S.vars["old"].t + 1, "returns-exactly-one-slot")
