"""Server-side command handlers as verification units: each entry of Server.commands_mapping is executed
symbolically through its *real* decorator stack against an arbitrary session state satisfying Inv.

Obligations are attached (a) to effects (guards: C02/C03/C04), (b) to exits (Inv, reply discipline: C05/C13),
(c) to suspension points (Inv as the guarantee of rely/guarantee reasoning)."""
import z3

from contracts import c02_paths, c10_limits, c11_ports  # noqa: F401  (register Server.get_paths, AvailableConnections.*, _start_passive_server)
from pyvc import models_path
from pyvc.core import SV, PyRaise, Unsupported, fresh
from pyvc.models_path import PathVal
from pyvc.session import b_and, b_implies, b_not, b_or, tt
from pyvc.sessionenv import Session
from pyvc.unit import REGISTRY, LoopSpec, contract
from pyvc.values import BoundMethod, Builtin, Obj

SERVER = "aioftp.server"

VERBS = {
    "abor": "abor",
    "appe": "appe",
    "cdup": "cdup",
    "cwd": "cwd",
    "dele": "dele",
    "epsv": "epsv",
    "list": "list",
    "mkd": "mkd",
    "mlsd": "mlsd",
    "mlst": "mlst",
    "pass": "pass_",
    "pasv": "pasv",
    "pbsz": "pbsz",
    "prot": "prot",
    "pwd": "pwd",
    "quit": "quit",
    "rest": "rest",
    "retr": "retr",
    "rmd": "rmd",
    "rnfr": "rnfr",
    "rnto": "rnto",
    "stor": "stor",
    "syst": "syst",
    "type": "type",
    "user": "user",
}


# ------------------------------------------------------------------------------------ callee contracts
# User.get_permissions: summary used inside handler units (its own contract is proved in c04_permissions.py)
cp = contract(SERVER, "User.get_permissions", props=[], name="User.get_permissions#summary")
cp.self_check = False


def _perm_result(S):
    it = S.it
    cls = it.modules[SERVER].attrs["Permission"]
    o = Obj(cls, tag="perm")
    o.fields["readable"] = fresh("bool", "readable")
    o.fields["writable"] = fresh("bool", "writable")
    o.fields["path"] = PathVal("posix", "/", models_path.fresh_seq("permpath"))
    S.it.ctx.event("get_permissions", S.vars["self"], S.vars["path"], o)
    return o


cp.result_shape = _perm_result
cp.pure = True


# ------------------------------------------------------------------------------------ guards
def authorised(sess):
    c = sess.conn
    return b_and(c.done_term("logged"), c.done_term("user"), sess.ghost["auth_ok"])


def guard_c03(sess, kind, d):
    """C03: effects happen only for a session whose login completed for its current user"""
    if kind == "backend":
        return [(f"{d['op']}:authorised", authorised(sess))]
    if kind == "store":
        if d["field"] == "current_directory" and d["how"] == "set":
            u = sess.conn.slots.get("user")
            home = u.fut.value.fields["home_path"] if (u is not None and isinstance(u.fut.value, Obj)) else None
            if d["value"] is home and home is not None:
                return []  # reset to the home directory by the login sequence itself
            return [("set-cwd:authorised", authorised(sess))]
        if d["field"] == "data_connection" and d["how"] == "del":
            return [("detach-data-connection:authorised", authorised(sess))]
    if kind == "listen":
        return [("open-data-listener:authorised", authorised(sess))]
    return []


# ------------------------------------------------------------------------------------ handler units
def make_handler_setup(meth, mode):
    def setup(u):
        it = u.it
        it.hooks.setdefault("spec_helpers", {}).update(c02_paths.spec_helpers())
        limits = meth in ("user", "greeting")
        sess = Session(u, mode=mode, limits=limits, ports=None if meth in ("pasv", "epsv") else False)
        sess.guards.append(("C03", guard_c03))
        u.sess = sess
        rest = fresh("str", "rest")
        # what parse_command hands over: a decoded line without trailing whitespace (rstrip'ed)
        f = it.getattr_(sess.server, meth)
        return f, [sess.conn, rest], {}, {"self": sess.server, "connection": sess.conn, "rest": rest, "sess": sess}

    return setup


def handler_exit(S, outcome):
    sess = S.vars["sess"]
    it = S.it
    sess.check_inv("exit")
    if outcome[0] == "raise":
        exc = outcome[1]
        ok = {"PathIOError", "CancelledError"}
        name = exc.cls.name
        if name not in ok:
            it.ctx.check(f"{S.contract.qualname}/raises:unexpected-{name}", z3.BoolVal(False), info={"props": ["C05", "C19"], "exc": name})


def replies(sess):
    return sess.replies


def codes(sess):
    return [r[0] for r in sess.replies]


def pasv_exit(S, outcome):
    """C11 at PASV/EPSV: exhaustion is answered 421 (and only then the handler ends the session);
    the port ledger I7 is checked by handler_exit -> check_inv"""
    handler_exit(S, outcome)
    sess = S.vars["sess"]
    ctx = S.it.ctx
    name = S.contract.qualname
    exhausted = any(e[0] == "exhausted" for e in ctx.events)
    if outcome[0] == "return":
        cs = codes(sess)
        if exhausted:
            ctx.check(f"{name}/exit:exhaustion-answered-421", z3.BoolVal(cs[-1:] == ["421"] and outcome[1] is False), info={"props": ["C11", "C05"]})
        else:
            ctx.check(f"{name}/exit:no-421-without-exhaustion", z3.BoolVal("421" not in cs), info={"props": ["C11"]})


def define_handler_units():
    for verb, meth in VERBS.items():
        for mode in ("SEQ",):
            c = contract(SERVER, f"Server.{meth}", props=["C03", "C05", "C11"], name=f"Server.{meth}#{mode}")
            c.setup = make_handler_setup(meth, mode)
            c.uses = [(SERVER, "Server.get_paths"), (SERVER, "User.get_permissions#summary"), (SERVER, "Server._start_passive_server")]
            c.exit_hook = pasv_exit if meth in ("pasv", "epsv") else handler_exit
            c.raises = {"PathIOError": [], "CancelledError": [], "Exception": []}
            c.mode = mode


define_handler_units()
