"""Server-side command handlers as verification units: each entry of Server.commands_mapping is executed
symbolically through its *real* decorator stack against an arbitrary session state satisfying Inv.

Obligations are attached (a) to effects (guards: C02/C03/C04), (b) to exits (Inv, reply discipline: C05/C13),
(c) to suspension points (Inv as the guarantee of rely/guarantee reasoning)."""
import z3

from contracts import c02_paths, c10_limits, c11_ports  # noqa: F401  (register Server.get_paths, AvailableConnections.*, _start_passive_server)
from pyvc import models_path
from pyvc.core import SV, PyRaise, Unsupported, fresh
from pyvc.models_path import PathVal
from pyvc.session import b_and, b_implies, b_not, b_or, tt
from pyvc.sessionenv import Session
from pyvc.unit import REGISTRY, LoopSpec, contract
from pyvc.values import BoundMethod, Builtin, Obj, Opaque

SERVER = "aioftp.server"

VERBS = {
    "abor": "abor",
    "appe": "appe",
    "cdup": "cdup",
    "cwd": "cwd",
    "dele": "dele",
    "epsv": "epsv",
    "list": "list",
    "mkd": "mkd",
    "mlsd": "mlsd",
    "mlst": "mlst",
    "pass": "pass_",
    "pasv": "pasv",
    "pbsz": "pbsz",
    "prot": "prot",
    "pwd": "pwd",
    "quit": "quit",
    "rest": "rest",
    "retr": "retr",
    "rmd": "rmd",
    "rnfr": "rnfr",
    "rnto": "rnto",
    "stor": "stor",
    "syst": "syst",
    "type": "type",
    "user": "user",
}


# ------------------------------------------------------------------------------------ callee contracts
# User.get_permissions: summary used inside handler units (its own contract is proved in c04_permissions.py)
cp = contract(SERVER, "User.get_permissions", props=[], name="User.get_permissions#summary")
cp.self_check = False


def _perm_result(S):
    it = S.it
    cls = it.modules[SERVER].attrs["Permission"]
    o = Obj(cls, tag="perm")
    o.fields["readable"] = fresh("bool", "readable")
    o.fields["writable"] = fresh("bool", "writable")
    o.fields["path"] = PathVal("posix", "/", models_path.fresh_seq("permpath"))
    S.it.ctx.event("get_permissions", S.vars["self"], S.vars["path"], o)
    return o


cp.result_shape = _perm_result
cp.pure = True
# C02 (second sentence) / C04: the path whose permission is looked up is the normalised virtual path that get_paths
# resolved for this request - not the raw argument, not a path joined by hand
cp.requires(lambda S: hasattr(S.vars["path"], "virtual_of"), "permission-lookup-uses-the-virtual-path-resolved-by-get_paths")


# ------------------------------------------------------------------------------------ guards
def authorised(sess):
    c = sess.conn
    return b_and(c.done_term("logged"), c.done_term("user"), sess.ghost["auth_ok"])


def guard_c03(sess, kind, d):
    """C03: effects happen only for a session whose login completed for its current user"""
    if kind == "backend":
        return [(f"{d['op']}:authorised", authorised(sess))]
    if kind == "store":
        if d["field"] == "current_directory" and d["how"] == "set":
            u = sess.conn.slots.get("user")
            home = u.fut.value.fields["home_path"] if (u is not None and isinstance(u.fut.value, Obj)) else None
            if d["value"] is home and home is not None:
                return []  # reset to the home directory by the login sequence itself
            return [("set-cwd:authorised", authorised(sess))]
        if d["field"] == "data_connection" and d["how"] == "del":
            return [("detach-data-connection:authorised", authorised(sess))]
    if kind == "listen":
        return [("open-data-listener:authorised", authorised(sess))]
    return []


def guard_c02(sess, kind, d):
    """C02: every path handed to the storage backend is (a) the real path Server.get_paths resolved for this request —
    confined to the user's base directory by get_paths' contract —, (b) an entry the backend itself listed below such a
    path, or (c) the pending rename source (resolved the same way by RNFR, invariant I3)"""
    if kind != "backend":
        return []
    out = []
    from pyvc.models_path import PathVal

    for a in d["args"]:
        if not isinstance(a, PathVal):
            continue
        ok = hasattr(a, "resolved_for") or hasattr(a, "listed_from")
        rf = sess.conn.slots.get("rename_from")
        if (rf is not None and rf.fut.value is a) or a is getattr(sess, "rename_from0", None):
            ok = True  # (c): stored by RNFR from a get_paths result (I3); RNTO reads it before deleting the slot
        out.append((f"{d['op']}:path-comes-from-get_paths-or-a-listing-below-it", bool(ok)))
        if getattr(sess, "phase", 1) == 2:
            # a transfer task runs after the 150 reply, while later commands (CWD, ...) may already have changed the
            # session: the location it operates on is the one addressed when the command arrived - the one the
            # existence and permission checks were made for - not a path re-resolved later
            src = a
            while hasattr(src, "listed_from") and not hasattr(src, "resolved_for"):
                src = src.listed_from
            out.append((f"{d['op']}:path-was-resolved-when-the-command-arrived", getattr(src, "resolved_phase", 1) == 1))
    return out


READ_VERBS = {"cwd", "cdup", "list", "mlsd", "mlst", "retr"}
WRITE_VERBS = {"mkd", "rmd", "dele", "rnfr", "rnto", "stor", "appe"}
PROBES = {"exists", "is_dir", "is_file"}
MUTATING = {"mkdir", "rmdir", "unlink", "rename", "write", "seek"}


def latest_permission(sess):
    for e in reversed(sess.ctx.events):
        if e[0] == "get_permissions":
            return e
    return None


def guard_c04(sess, kind, d):
    """C04: the verb table of the property statement (readers need `readable`, modifiers `writable` of the entry that
    governs the request's resolved path); a refused request touches nothing"""
    verb = getattr(sess, "verb", None)
    if verb is None or verb not in READ_VERBS | WRITE_VERBS:
        return []
    flag = "readable" if verb in READ_VERBS else "writable"
    e = latest_permission(sess)
    it = sess.it

    def allowed():
        if e is None:
            return False
        return it.truthy_term(e[3].fields[flag])

    if kind == "backend":
        op = d["op"]
        if op in PROBES and e is None:
            return []  # existence/type probes precede the permission check (they do not change the tree)
        if op in PROBES:
            return [(f"{op}:{flag}-granted", allowed())]
        if op == "_open":
            return [(f"open:{flag}-granted", allowed())]
        return [(f"{op}:{flag}-granted", allowed())]
    if kind == "store" and d["how"] in ("set", "del") and d["field"] in ("current_directory", "rename_from"):
        return [(f"store-{d['field']}:{flag}-granted", allowed())]
    if kind == "reply":
        code = d["args"][0]
        if isinstance(code, str) and code[:1] in "123":
            return [(f"reply-{code}:{flag}-granted", allowed())]
    return []


def perm_pre_is_resolved_path(S):
    """the permission lookup uses the normalised form of the location the request addresses"""
    sess = getattr(S.vars["self"], "session_ref", None)
    return True


# ------------------------------------------------------------------------------------ handler units
def make_handler_setup(meth, mode):
    def setup(u):
        it = u.it
        it.hooks.setdefault("spec_helpers", {}).update(c02_paths.spec_helpers())
        limits = meth in ("user", "greeting")
        sess = Session(u, mode=mode, limits=limits, ports=None if meth in ("pasv", "epsv") else False)
        sess.guards.append(("C03", guard_c03))
        sess.guards.append(("C04", guard_c04))
        sess.guards.append(("C02", guard_c02))
        sess.verb = {v: k for k, v in VERBS.items()}.get(meth)
        sess.rename_from0 = sess.conn.slots["rename_from"].fut.value
        u.sess = sess
        if meth == "user":
            # C15 wiring: the control stream carries the two server-level throttles (dispatcher set-up contract) and,
            # after an earlier login on this session, that user's two
            th = sess.conn.slots["command_connection"].fut.value.fields["throttles"]
            th.update(server_global=sess.server.fields["throttle"], server_per_connection=Opaque("this-session's-clone"))
            # (the entries of an earlier login are present: USER must replace them; with the keys absent the same
            #  dict.update call adds them - not forked, it would double every path of the unit)
            th.update(user_global=Opaque("previous-user's-shared-throttle"), user_per_connection=Opaque("previous-user's-connection-throttle"))
            sess.throttles0 = dict(th)
        rest = fresh("str", "rest")
        # what parse_command hands over: a decoded line without trailing whitespace (rstrip'ed)
        f = it.getattr_(sess.server, meth)
        return f, [sess.conn, rest], {}, {"self": sess.server, "connection": sess.conn, "rest": rest, "sess": sess}

    return setup


def codes(sess):
    return [r[0] for r in sess.replies]


def handler_exit(S, outcome):
    sess = S.vars["sess"]
    it = S.it
    sess.check_inv("exit")
    if outcome[0] == "raise":
        exc = outcome[1]
        ok = {"PathIOError", "CancelledError"}
        name = exc.cls.name
        if sess.verb in ("pasv", "epsv") and name == "OSError":
            return  # the OS refused to bind the listener (not EADDRINUSE): environment fault outside C05's quantifier
        if name == "PathIOError":
            # C13(a): the dispatcher answers 451; the handler must not have announced success for this command
            cs = codes(sess)
            it.ctx.check(f"{S.contract.qualname}/raises:PathIOError:no-success-reply-before-451", z3.BoolVal(not any(c[:1] in "123" for c in cs)), info={"props": ["C13", "C05"]})
        if name not in ok:
            it.ctx.check(f"{S.contract.qualname}/raises:unexpected-{name}", z3.BoolVal(False), info={"props": ["C05", "C19"], "exc": name})


def replies(sess):
    return sess.replies


def codes(sess):
    return [r[0] for r in sess.replies]


def pasv_exit(S, outcome):
    """C11 at PASV/EPSV: exhaustion is answered 421 (and only then the handler ends the session);
    the port ledger I7 is checked by handler_exit -> check_inv"""
    handler_exit(S, outcome)
    sess = S.vars["sess"]
    ctx = S.it.ctx
    name = S.contract.qualname
    exhausted = any(e[0] == "exhausted" for e in ctx.events)
    if outcome[0] == "return":
        cs = codes(sess)
        if exhausted:
            ctx.check(f"{name}/exit:exhaustion-answered-421", z3.BoolVal(cs[-1:] == ["421"] and outcome[1] is False), info={"props": ["C11", "C05"]})
        else:
            ctx.check(f"{name}/exit:no-421-without-exhaustion", z3.BoolVal("421" not in cs), info={"props": ["C11"]})


def greeting_exit(S, outcome):
    """C10 at session start: beyond the limit -> 421, not counted; otherwise 220 and exactly one slot"""
    handler_exit(S, outcome)
    sess = S.vars["sess"]
    it = S.it
    ctx = it.ctx
    if outcome[0] != "return":
        return
    res = outcome[1]
    cs = codes(sess)
    acq = sess.conn.slots["acquired"].fut.value
    acq_t = it.truthy_term(acq)
    ac = sess.server.fields["available_connections"]
    v0 = S.vars["value0"]
    v1 = it.unbox(ac.fields["value"])
    tag = {"props": ["C10"]}
    if res is False:
        ctx.check("Server.greeting/exit:refused-is-421-and-not-counted", tt(b_and(cs == ["421"], b_not(acq_t), True if v0 is None else v1.t == v0.t)), info=tag)
        ctx.check("Server.greeting/exit:refused-only-when-full", tt(False if v0 is None else v0.t == 0), info=tag)
    else:
        ctx.check("Server.greeting/exit:admitted-is-220-and-counted-once", tt(b_and(cs == ["220"], acq_t, True if v0 is None else v1.t == v0.t - 1)), info=tag)
        ctx.check("Server.greeting/exit:admitted-only-when-a-slot-is-free", tt(True if v0 is None else v0.t > 0), info=tag)


def define_handler_units():
    c = contract(SERVER, "Server.greeting", props=["C10", "C05"], name="Server.greeting#SEQ")

    def setup_greeting(u):
        f, args, kw, vars = make_handler_setup("greeting", "SEQ")(u)
        sess = vars["sess"]
        # session start: the slot has not been taken yet
        u.assume(z3.Not(tt(u.it.truthy_term(sess.conn.slots["acquired"].fut.value))))
        vars["value0"] = u.it.unbox(sess.server.fields["available_connections"].fields["value"])
        return f, args, kw, vars

    c.setup = setup_greeting
    c.uses = [(SERVER, "AvailableConnections.locked"), (SERVER, "AvailableConnections.acquire")]
    c.exit_hook = greeting_exit
    c.raises = {"PathIOError": [], "CancelledError": [], "Exception": []}
    for verb, meth in VERBS.items():
        for mode in ("SEQ", "PIPE"):
            if mode == "PIPE":
                if meth in ("user", "pass_", "quit", "syst", "rest", "pasv", "epsv"):
                    continue
                # same handler, arbitrary same-session interference at every suspension point: only the C03 effect guards
                c = contract(SERVER, f"Server.{meth}", props=["C03"], name=f"Server.{meth}#PIPE")
                c.setup = make_handler_setup(meth, "PIPE")
                c.uses = [(SERVER, "Server.get_paths"), (SERVER, "User.get_permissions#summary"), (SERVER, "Server._start_passive_server")]
                c.exit_hook = lambda S, outcome: None
                c.raises = {"BaseException": []}
                c.mode = "PIPE"
                c.pipe_only_c03 = True
                continue
            c = contract(SERVER, f"Server.{meth}", props=["C02", "C03", "C04", "C05", "C11", "C13", "C16", "C17", "C19"] + (["C10", "C15"] if meth == "user" else []) + (["C14"] if meth == "abor" else []) + (["C20"] if meth == "pass_" else []) + (["C08"] if meth == "pwd" else []), name=f"Server.{meth}#{mode}")
            c.setup = make_handler_setup(meth, mode)
            c.uses = [(SERVER, "Server.get_paths"), (SERVER, "User.get_permissions#summary"), (SERVER, "Server._start_passive_server")]
            c.exit_hook = pasv_exit if meth in ("pasv", "epsv") else handler_exit
            c.raises = {"PathIOError": [], "CancelledError": [], "Exception": []}
            c.mode = mode



# ------------------------------------------------------------------------------------ C05: sequential reference model
# per verb: reply codes allowed on a normal return, and the session fields the command may write
GUARD = {"503"}
PATH = {"550"}
MODEL = {
    "abor": ({"226", None} | GUARD, set()),
    "appe": ({"150", "550"} | GUARD, {"extra_workers"}),
    "cdup": ({"250"} | GUARD | PATH, {"current_directory"}),
    "cwd": ({"250"} | GUARD | PATH, {"current_directory"}),
    "dele": ({"250"} | GUARD | PATH, set()),
    "epsv": ({"229", "421", "522"} | GUARD, {"passive_server", "passive_server_port", "data_connection"}),
    "list": ({"150"} | GUARD | PATH, {"extra_workers"}),
    "mkd": ({"257"} | GUARD | PATH, set()),
    "mlsd": ({"150"} | GUARD | PATH, {"extra_workers"}),
    "mlst": ({"250"} | GUARD | PATH, set()),
    "pass": ({"230", "530"} | GUARD, {"logged"}),
    "pasv": ({"227", "421"} | GUARD, {"passive_server", "passive_server_port", "data_connection"}),
    "pbsz": ({"200"} | GUARD, set()),
    "prot": ({"200", "502"} | GUARD, set()),
    "pwd": ({"257"} | GUARD, set()),
    "quit": ({"221"}, set()),
    "rest": ({"350", "501"}, {"restart_offset"}),
    "retr": ({"150"} | GUARD | PATH, {"extra_workers"}),
    "rmd": ({"250"} | GUARD | PATH, set()),
    "rnfr": ({"350"} | GUARD | PATH, {"rename_from"}),
    "rnto": ({"250"} | GUARD | PATH, {"rename_from"}),
    "stor": ({"150", "550"} | GUARD, {"extra_workers"}),
    "syst": ({"215"}, set()),
    "type": ({"200", "502"} | GUARD, {"transfer_type"}),
    "user": ({"230", "331", "530"}, {"user", "logged", "current_directory", "rename_from"}),
}
ENDS_SESSION = {"221", "421"}
T5 = {"props": ["C05"]}


def c05_exit(S, outcome):
    sess = S.vars["sess"]
    verb = sess.verb
    if verb is None or verb not in MODEL:
        return
    it = S.it
    ctx = it.ctx
    name = S.contract.qualname
    cs = codes(sess)
    allowed, may_store = MODEL[verb]
    conn = sess.conn
    d = conn.done_term
    stores = [(e[1], e[2]) for e in ctx.events if e[0] == "store"]
    written = {f for f, how in stores if how != "create-pending"}
    ctx.check(f"{name}/exit:writes-only-the-session-fields-of-its-model", z3.BoolVal(written <= may_store), info={"props": ["C05", "C17"], "written": sorted(written)})
    # C16: guards that do not wait use a zero timeout; waiting guards use the session's wait_future_timeout
    wft = it.unbox(conn.slots["wait_future_timeout"].fut.value)
    for e in ctx.events:
        if e[0] == "wait_for":
            ok = (isinstance(e[1], int) and e[1] == 0) or e[1] is wft
            ctx.check(f"{name}/exit:guard-timeouts-are-zero-or-wait_future_timeout", z3.BoolVal(bool(ok)), info={"props": ["C16"]})
    if outcome[0] != "return":
        if verb == "rnto" and any(e[0] == "backend" and e[1] == "rename" for e in ctx.events):
            # the pending rename is consumed by any RNTO that reached the backend, also when the backend fails (451)
            ctx.check(f"{name}/raises:rename-consumed-once-the-backend-was-asked", tt(b_not(d("rename_from"))), info=T5)
        return
    res = outcome[1]
    # R1: exactly one final reply (ABOR with a running transfer: the replies come from the cancelled worker)
    one = len(cs) == 1 or (verb == "abor" and len(cs) == 0)
    ctx.check(f"{name}/exit:exactly-one-reply", z3.BoolVal(one), info=T5)
    code = cs[-1] if cs else None
    ctx.check(f"{name}/exit:reply-code-is-one-the-model-allows", z3.BoolVal(code in allowed), info=dict(T5, code=code))
    # R5: the handler ends the session only after a reply that announces it
    ctx.check(f"{name}/exit:ends-the-session-only-after-221-or-421", z3.BoolVal(res is not False or code in ENDS_SESSION), info=dict(T5, code=code))
    ctx.check(f"{name}/exit:221-421-end-the-session", z3.BoolVal(code not in ENDS_SESSION or res is False), info=T5)
    # R4: state of the reference model
    if verb == "user":
        st = {"230": b_and(d("logged"), d("user")), "331": b_and(d("user"), b_not(d("logged"))), "530": b_and(b_not(d("user")), b_not(d("logged")))}.get(code, False)
        ctx.check(f"{name}/exit:login-state-matches-the-reply", tt(st), info=T5)
        ctx.check(f"{name}/exit:pending-rename-does-not-survive-USER", tt(b_not(d("rename_from"))), info={"props": ["C05", "C02"]})
        u = conn.slots["user"]
        if code in ("230", "331") and isinstance(u.fut.value, Obj):
            cwd = conn.slots["current_directory"]
            ctx.check(f"{name}/exit:working-directory-reset-to-home", z3.BoolVal(cwd.fut.value is u.fut.value.fields["home_path"]), info=T5)
        c15_user_exit(S, code)
    if verb == "pass":
        # C20: what PASS answers (and therefore what write_line logs) does not depend on the password text
        from contracts.c20_logs import depends_on

        rest_t = S.vars["rest"].t
        indep = all(not depends_on(a, rest_t) for r in sess.replies for a in r)
        ctx.check(f"{name}/exit:replies-to-PASS-do-not-contain-the-password", z3.BoolVal(indep), info={"props": ["C20"]})
        ctx.check(f"{name}/exit:PASS-handler-logs-nothing", z3.BoolVal(not [e for e in ctx.events if e[0] == "log"]), info={"props": ["C20"]})
        ctx.check(f"{name}/exit:230-iff-logged-in-now", tt(b_implies(code == "230", d("logged"))), info=T5)
        if code == "530":
            ctx.check(f"{name}/exit:530-leaves-not-logged-in", tt(b_not(d("logged"))), info=T5)
    if verb == "pwd" and code == "257":
        from contracts.c08_names import pwd_reply_quotes_doubled

        ctx.check(f"{name}/exit:257-quotes-the-directory-with-embedded-quotes-doubled", tt(pwd_reply_quotes_doubled(S)), info={"props": ["C08"]})
    if verb in ("cwd", "cdup"):
        ctx.check(f"{name}/exit:cwd-changes-only-on-250", z3.BoolVal(("current_directory" in written) == (code == "250")), info=T5)
    if verb == "rnfr":
        ctx.check(f"{name}/exit:rename-pending-iff-350", z3.BoolVal(("rename_from" in written) == (code == "350")), info=T5)
    if verb == "rnto" and code == "250":
        ctx.check(f"{name}/exit:rename-consumed-on-250", tt(b_not(d("rename_from"))), info=T5)
    if verb == "type":
        ctx.check(f"{name}/exit:type-set-only-on-200", z3.BoolVal(("transfer_type" in written) == (code == "200")), info=T5)
    if verb == "rest":
        ro = conn.slots["restart_offset"].fut.value
        if code == "501":
            ctx.check(f"{name}/exit:501-clears-the-offset", tt(it.eq_term(ro, 0)), info=T5)
    if verb in ("list", "mlsd", "retr", "stor", "appe"):
        spawned = [e for e in ctx.events if e[0] == "spawn"]
        ctx.check(f"{name}/exit:transfer-task-started-iff-150", z3.BoolVal((len(spawned) == 1) == (code == "150")), info=T5)


def c15_user_exit(S, code):
    """C15 wiring at USER: the per-user throttle is the one object the server keeps for that user (shared by all of the
    user's sessions, created from the user's limits on first use); the per-user-connection throttle is a fresh object
    with the user's per-connection limits; the server-level throttles of the stream stay as they were"""
    sess, it = S.vars["sess"], S.it
    ctx = it.ctx
    name = S.contract.qualname
    T15 = {"props": ["C15"]}
    conn = sess.conn
    th = conn.slots["command_connection"].fut.value.fields["throttles"]
    th0 = sess.throttles0
    keep = all(th.get(k) is th0[k] for k in ("server_global", "server_per_connection"))
    ctx.check(f"{name}/exit:server-level-throttles-untouched", z3.BoolVal(bool(keep and set(th) <= {"server_global", "server_per_connection", "user_global", "user_per_connection"})), info=T15)
    if code not in ("230", "331"):
        return
    user = conn.slots["user"].fut.value
    tpu = sess.server.fields["throttle_per_user"]
    shared = tpu.vals.get(id(user))
    ctx.check(f"{name}/exit:per-user-throttle-is-the-server's-one-object-for-this-user", z3.BoolVal(shared is not None and tpu.member.get(id(user)) is True and th.get("user_global") is shared), info=T15)

    def same(a, b):
        return it.unbox(a) is it.unbox(b) or it.eq_term(it.unbox(a), it.unbox(b)) is True

    def built_from(st, rl, wl):
        return isinstance(st, Obj) and st.cls.name == "StreamThrottle" and all(isinstance(st.fields[s], Obj) and st.fields[s].cls.name == "Throttle" for s in ("read", "write")) and st.fields["read"] is not st.fields["write"] and same(st.fields["read"].fields["_limit"], user.fields[rl]) and same(st.fields["write"].fields["_limit"], user.fields[wl])

    created = [e for e in ctx.events if e[0] == "map.set" and e[1] == "throttle_per_user"]
    if created:
        ctx.check(f"{name}/exit:first-login-creates-the-user-throttle-from-the-user's-limits", z3.BoolVal(bool(len(created) == 1 and created[0][2] is user and built_from(shared, "read_speed_limit", "write_speed_limit"))), info=T15)
    else:
        ctx.check(f"{name}/exit:later-logins-reuse-the-user-throttle", z3.BoolVal(isinstance(shared, Opaque)), info=T15)
    upc = th.get("user_per_connection")
    fresh_upc = upc is not th0.get("user_per_connection") and upc is not shared and built_from(upc, "read_speed_limit_per_connection", "write_speed_limit_per_connection")
    if fresh_upc:
        fresh_upc = upc.fields["read"] is not getattr(shared, "fields", {}).get("read") and upc.fields["write"] is not getattr(shared, "fields", {}).get("write")
    ctx.check(f"{name}/exit:per-user-connection-throttle-is-fresh-with-the-user's-per-connection-limits", z3.BoolVal(bool(fresh_upc)), info=T15)


_orig_handler_exit = handler_exit


def handler_exit(S, outcome):  # noqa: F811
    _orig_handler_exit(S, outcome)
    c05_exit(S, outcome)


define_handler_units()
