"""C04 — nearest-ancestor permission lookup: Permission.is_parent and User.get_permissions."""
import z3

from pyvc import models_path
from pyvc.core import SV, PathEnd, fresh
from pyvc.models_path import PathVal, fresh_seq
from pyvc.unit import contract
from pyvc.values import Obj

SERVER = "aioftp.server"
MAX_PERMS = 3


def mk_perm(u, i):
    cls = u.cls(SERVER, "Permission")
    o = Obj(cls, tag=f"perm{i}")
    ps = fresh_seq(f"perm{i}")
    o.fields["path"] = PathVal("posix", "/", ps, abs_known=True)
    o.fields["readable"] = fresh("bool", f"readable{i}")
    o.fields["writable"] = fresh("bool", f"writable{i}")
    return o


def is_prefix(p, q):
    """lexical ancestor-or-self on absolute posix paths"""
    return z3.And(p.anchor_t() == q.anchor_t(), z3.PrefixOf(p.parts, q.parts))


def setup_is_parent(u):
    perm = mk_perm(u, 0)
    other = PathVal("posix", "/", fresh_seq("other"), abs_known=True)
    f = u.it.getattr_(perm, "is_parent")
    return f, [other], {}, {"self": perm, "other": other}


c = contract(SERVER, "Permission.is_parent", props=["C04"])
c.setup = setup_is_parent
c.ensures(lambda S: S.it.eq_term(S.result, S.it.mk_bool(is_prefix(S.vars["self"].fields["path"], S.vars["other"]))), "true-iff-lexical-ancestor-or-self")


def setup_get_permissions(u):
    it = u.it
    n = u.choose(MAX_PERMS + 1, "permission-table-size")
    perms = [mk_perm(u, i) for i in range(n)]
    user = Obj(u.cls(SERVER, "User"), tag="user")
    user.fields["permissions"] = perms
    # the argument is a resolved virtual path (canonical, absolute) — what PathPermissions passes
    path = PathVal("posix", "/", fresh_seq("vpath"), abs_known=True)
    f = it.getattr_(user, "get_permissions")
    return f, [path], {}, {"self": user, "path": path, "perms": perms}


c = contract(SERVER, "User.get_permissions", props=["C04"])
c.setup = setup_get_permissions
c.assumptions.append(f"B-perms: permission tables of 0..{MAX_PERMS} entries (bounded stand-in for the iteration inside min/filter; entry paths and flags symbolic, duplicates and nesting included)")


def post_member_or_default(S):
    res, perms = S.result, S.vars["perms"]
    if any(res is p for p in perms):
        return is_prefix(res.fields["path"], S.vars["path"])
    # default entry: fresh Permission("/") readable and writable — only when no listed entry is an ancestor
    it = S.it
    none_is_parent = z3.And(*[z3.Not(is_prefix(p.fields["path"], S.vars["path"])) for p in perms]) if perms else True
    flags = z3.And(z3.BoolVal(True) if it.truthy_term(res.fields["readable"]) is True else it.truthy_term(res.fields["readable"]),
                   z3.BoolVal(True) if it.truthy_term(res.fields["writable"]) is True else it.truthy_term(res.fields["writable"]))
    return z3.And(none_is_parent, flags)


def post_nearest(S):
    res, perms = S.result, S.vars["perms"]
    if not any(res is p for p in perms):
        return True
    conj = []
    n = z3.Length(res.fields["path"].parts)
    for q in perms:
        conj.append(z3.Implies(is_prefix(q.fields["path"], S.vars["path"]), z3.Length(q.fields["path"].parts) <= n))
    return z3.And(*conj)


def post_first_on_ties(S):
    res, perms = S.result, S.vars["perms"]
    if not any(res is p for p in perms):
        return True
    idx = [i for i, p in enumerate(perms) if p is res][0]
    n = z3.Length(res.fields["path"].parts)
    conj = [z3.BoolVal(True)]
    for q in perms[:idx]:
        conj.append(z3.Not(z3.And(is_prefix(q.fields["path"], S.vars["path"]), z3.Length(q.fields["path"].parts) == n)))
    return z3.And(*conj)


c.ensures(post_member_or_default, "an-ancestor-entry-or-the-allow-all-default-when-none")
c.ensures(post_nearest, "no-listed-ancestor-is-nearer")
c.ensures(post_first_on_ties, "first-listed-on-ties")


# ------------------------------------------------------------------------------------ permission tables of ANY length
from pyvc.objseq import ObjSeq  # noqa: E402

SS = models_path.SS
PARTS = z3.Array("perm_parts", z3.IntSort(), SS)
READ = z3.Array("perm_readable", z3.IntSort(), z3.BoolSort())
WRITE = z3.Array("perm_writable", z3.IntSort(), z3.BoolSort())

# Permission.is_parent through its contract (proved above): the boolean "lexical ancestor-or-self"
cs = contract(SERVER, "Permission.is_parent", props=[], name="Permission.is_parent#summary")
cs.self_check = False
cs.pure = True
cs.result_shape = lambda S: S.it.mk_bool(is_prefix(S.vars["self"].fields["path"], S.it.call(S.it.model_modules["pathlib"].attrs["PurePosixPath"], [S.vars["other"]], {}) if not isinstance(S.vars["other"], PathVal) else S.vars["other"]))


def setup_get_permissions_any(u):
    it = u.it
    cls = u.cls(SERVER, "Permission")

    def make(it_, idx):
        o = Obj(cls, tag="perm[i]")
        o.fields["path"] = PathVal("posix", "/", PARTS[idx], abs_known=True)
        o.fields["readable"] = SV("bool", READ[idx])
        o.fields["writable"] = SV("bool", WRITE[idx])
        return o

    table = ObjSeq("permissions", make)
    user = Obj(u.cls(SERVER, "User"), tag="user")
    user.fields["permissions"] = table
    path = PathVal("posix", "/", fresh_seq("vpath"), abs_known=True)
    return it.getattr_(user, "get_permissions"), [path], {}, {"self": user, "path": path, "table": table}


c = contract(SERVER, "User.get_permissions", props=["C04"], name="User.get_permissions#any-table")
c.setup = setup_get_permissions_any
c.uses = [(SERVER, "Permission.is_parent#summary")]
c.assumptions.append("T-py filter/min: filter keeps exactly the elements satisfying the predicate, in order; min(key=, default=) returns the default for an empty iterable and otherwise the FIRST element with the smallest key (pyvc/objseq.py); the table is a list of any length whose entries are Permission objects with absolute posix paths")
c.opts = {"solve_budget_s": 60}


def _pref(i, path):
    return z3.PrefixOf(PARTS[i], path.parts)


def any_post(S):
    """nearest-ancestor rule for a table of any length: the result is the first listed entry among the deepest listed
    ancestors-or-self of the path; without any, the allow-all default"""
    it = S.it
    res, table, path = S.result, S.vars["table"], S.vars["path"]
    i = z3.Int("i!post")
    rng = z3.And(i >= 0, i < table.n)
    if getattr(res, "seq_of", None) is table:
        j = res.seq_index
        lj = z3.Length(PARTS[j])
        return z3.And(
            j >= 0,
            j < table.n,
            _pref(j, path),
            z3.ForAll([i], z3.Implies(z3.And(rng, _pref(i, path)), z3.And(z3.Length(PARTS[i]) <= lj, z3.Implies(i < j, z3.Length(PARTS[i]) < lj)))),
        )
    flags = z3.And(tt(it.truthy_term(res.fields["readable"])), tt(it.truthy_term(res.fields["writable"])))
    root = z3.Length(res.fields["path"].parts) == 0
    return z3.And(z3.ForAll([i], z3.Implies(rng, z3.Not(_pref(i, path)))), flags, root)


def tt(x):
    return z3.BoolVal(x) if isinstance(x, bool) else (x.t if isinstance(x, SV) else x)


c.ensures(any_post, "deepest-listed-ancestor-first-on-ties-or-the-allow-all-default-when-none")
