"""C13 — pathio.universal_exception: whatever a backend coroutine raises reaches the server as PathIOError
(or one of the three documented pass-through classes)."""
import z3

from pyvc.core import PathEnd, PyRaise, fresh
from pyvc.unit import contract
from pyvc.values import Builtin, ClassVal, Closure, Coro

PATHIO = "aioftp.pathio"
PASS = ("CancelledError", "NotImplementedError", "StopAsyncIteration")


def setup_ue(u):
    it = u.it
    ue = it.modules[PATHIO].attrs["universal_exception"]
    # every exception class of the executor's builtin hierarchy, plus a fresh subclass of each (user-defined errors):
    # `except` matching only depends on the class hierarchy, so this enumeration is complete for isinstance-based handlers
    names = sorted(it.exc_classes)
    classes = [it.exc_classes[n] for n in names]
    classes += [ClassVal("Custom" + n, [it.exc_classes[n]], {}) for n in names]
    classes.append(it.modules["aioftp.errors"].attrs["PathIOError"])
    k = u.choose(len(classes) + 1, "inner-outcome")
    result = fresh("int", "inner_result")

    def inner(i, a, kw):
        def run():
            i.suspend("backend-coroutine")
            if k == len(classes):
                return result
            raise PyRaise(i.make_exc(classes[k]))

        return Coro(run, "inner")

    wrapped = it.call(ue, [Builtin("inner", inner)], {})
    u.inner_class = classes[k] if k < len(classes) else None
    return wrapped, [], {}, {"inner_class": u.inner_class, "inner_result": result}


c = contract(PATHIO, "universal_exception", props=["C13"], name="universal_exception.<locals>.wrapper")
c.setup = setup_ue
c.raises = {"BaseException": []}
c.ensures(lambda S: S.vars["inner_class"] is None and S.it.eq_term(S.result, S.vars["inner_result"]), "result-passed-through")


def ue_exit(S, outcome):
    it = S.it
    if outcome[0] != "raise":
        return
    exc = outcome[1]
    inner = S.vars["inner_class"]
    name = exc.cls.name
    passthrough = inner is not None and any(inner.is_subclass(it.exc_classes[p]) for p in PASS)
    is_exception = inner is not None and inner.is_subclass(it.exc_classes["Exception"])
    pio = it.modules["aioftp.errors"].attrs["PathIOError"]
    if passthrough:
        ok = exc.cls is inner
    elif is_exception:
        ok = exc.cls.is_subclass(pio)
    else:
        ok = exc.cls is inner  # non-Exception BaseExceptions (KeyboardInterrupt, ...) are not backend failures
    it.ctx.check("universal_exception/raises:only-PathIOError-or-documented-pass-through", z3.BoolVal(ok), info={"props": ["C13"], "inner": inner.name if inner else None, "got": name})


c.exit_hook = ue_exit


API = ["exists", "is_dir", "is_file", "mkdir", "rmdir", "unlink", "stat", "_open", "seek", "write", "read", "close", "rename"]


def structure_check(tier, seed):
    """every backend coroutine of the three shipped backends (and each Lister.__anext__) is wrapped, outermost, by the
    real universal_exception wrapper — decided by executing the real decorator stacks, not by reading names"""
    import os

    from pyvc.core import Ctx
    from pyvc.interp import Interp
    from pyvc.values import Closure

    it = Interp(Ctx(), os.environ.get("AIOFTP_REPO", "/repo"))
    mod = it.load_module(PATHIO)
    out = {"summary": "", "violations": [], "undecided": [], "evaluations": 0}
    n = 0
    for cname in ("PathIO", "AsyncPathIO", "MemoryPathIO"):
        cls = mod.attrs[cname]
        for m in API:
            n += 1
            f, owner = cls.lookup(m)
            # (the wrapper is recognised as "a closure made by universal_exception", whatever its own name)
            ok = isinstance(f, Closure) and f.qualname.startswith("universal_exception.<locals>.") and owner is cls
            if not ok:
                out["violations"].append({"name": f"aioftp.pathio:{cname}.{m}::outermost-decorator-is-universal_exception", "input": {"class": cname, "method": m, "found": getattr(f, "qualname", repr(f))}})
    out["evaluations"] = n
    out["summary"] = f"decorator-stack structure: {n} backend methods inspected through the executed decorator stacks"
    out["bounded"] = {"checker": "contracts.c13_pathio.structure_check", "what": "outermost wrapper of each backend coroutine", "cases": n, "label": "exhaustive over the 3 shipped backends x 13 API methods (finite)"}
    return out
