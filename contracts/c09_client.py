"""C09 — client tree operations: placement computation of Client.upload / Client.download (pure path arithmetic over an
arbitrary destination), as lemmas over the real expressions of the two functions."""
import ast

import z3

from pyvc import models_path
from pyvc.core import SV, PathEnd, PyRaise, Unsupported, fresh
from pyvc.models_path import PathVal, fresh_seq
from pyvc.unit import contract
from pyvc.values import Builtin, Coro, Env, Obj

CLIENT = "aioftp.client"
T9 = {"props": ["C09"]}


def find_fn(it, name):
    mod = it.modules[CLIENT]
    for n in ast.walk(mod.tree):
        if isinstance(n, ast.AsyncFunctionDef) and n.name == name:
            return n
    raise Unsupported(f"Client.{name} not found")


def assigned_expr(fn, var):
    """the right-hand sides assigned to `var` inside fn (in source order)"""
    out = []
    for n in ast.walk(fn):
        if isinstance(n, ast.Assign) and len(n.targets) == 1 and isinstance(n.targets[0], ast.Name) and n.targets[0].id == var:
            out.append(n)
    out.sort(key=lambda n: n.lineno)
    return out


def recursive_call_names(fn, method):
    """names of the locals that the directory walk of Client.<method> hands to its recursive call
    `self.<method>(<entry>, <place>, write_into=True, ...)` - read from the AST, so that renaming them is harmless"""
    for n in ast.walk(fn):
        if isinstance(n, ast.Call) and isinstance(n.func, ast.Attribute) and n.func.attr == method and isinstance(n.func.value, ast.Name) and n.func.value.id == "self" and len(n.args) >= 2:
            if isinstance(n.args[0], ast.Name) and isinstance(n.args[1], ast.Name):
                return n.args[0].id, n.args[1].id
    raise Unsupported(f"Client.{method}: recursive call `self.{method}(<entry>, <place>, ...)` with two plain names not found")


def mk_path(u, tag, anchor):
    ps = fresh_seq(tag)
    u.assume(models_path.all_clean(u.it, ps, tag))
    return PathVal("posix", anchor, ps, abs_known=(anchor != ""))


def setup_upload_placement(u):
    """Client.upload, directory walk: the expressions that compute `relative` (both write_into settings), evaluated on
    an arbitrary source directory, an arbitrary entry `path` below it and an arbitrary destination"""
    it = u.it
    fn = find_fn(it, "upload")
    ENTRY, PLACE = recursive_call_names(fn, "upload")
    rel_assigns = assigned_expr(fn, PLACE)
    if len(rel_assigns) not in (1, 2):
        raise Unsupported(f"Client.upload: expected one or two assignments to `{PLACE}` in the directory walk")
    write_into = u.choose(2, "write_into") == 1
    source = mk_path(u, "source", "/")
    u.assume(z3.Length(source.parts) >= 1)
    below = fresh_seq("below")
    u.assume(models_path.all_clean(it, below, "below"))
    u.assume(z3.Length(below) >= 1)
    path = PathVal("posix", "/", z3.Concat(source.parts, below), abs_known=True)
    dest_in = mk_path(u, "dest", ["", "/"][u.choose(2, "destination-absolute")])
    # the real prologue: `if not write_into: destination = destination / source.name`
    env = Env(it.modules[CLIENT].env)
    env.vars.update(source=source, destination=dest_in, write_into=write_into)
    env.vars[ENTRY] = path
    dest_assigns = [n for n in assigned_expr(fn, "destination") if isinstance(n.value, ast.BinOp)]
    if len(dest_assigns) != 1:
        raise Unsupported("Client.upload: expected `destination = destination / source.name`")
    if not write_into:
        env.vars["destination"] = it.eval(dest_assigns[0].value, env)
    D = env.vars["destination"]
    node = rel_assigns[0] if (write_into or len(rel_assigns) == 1) else rel_assigns[1]
    # which assignment belongs to which branch is read from the enclosing `if write_into:`
    for n in ast.walk(fn) if len(rel_assigns) == 2 else []:
        if isinstance(n, ast.If) and isinstance(n.test, ast.Name) and n.test.id == "write_into" and any(a in ast.walk(n) for a in rel_assigns):
            node = [a for a in rel_assigns if a in n.body][0] if write_into else [a for a in rel_assigns if a in n.orelse][0]

    def run(i, a, k):
        return i.eval(node.value, env)

    return Builtin("Client.upload/relative", run), [], {}, {"D": D, "source": source, "path": path, "below": below}


c = contract(CLIENT, "Client.upload", props=["C09"], name="Client.upload/placement-of-directory-entries")
c.setup = setup_upload_placement
c.raises = {}
c.assumptions.append("block contract: the two expressions assigned to `relative` in Client.upload's directory walk (and the prologue `destination = destination / source.name`) are extracted from the AST of the real function and evaluated symbolically")


def upload_placement_post(S):
    """documented placement: entry `path` of the source tree goes to D / path.relative_to(source)"""
    r = S.result
    D, below = S.vars["D"], S.vars["below"]
    return z3.And(r.anchor_t() == D.anchor_t(), r.parts == z3.Concat(D.parts, below))


c.ensures(upload_placement_post, "entry-is-placed-at-destination-joined-with-its-path-relative-to-the-source")


def setup_download_placement(u):
    it = u.it
    fn = find_fn(it, "download")
    ENTRY, PLACE = recursive_call_names(fn, "download")
    full_assigns = assigned_expr(fn, PLACE)
    if len(full_assigns) != 1:
        raise Unsupported(f"Client.download: expected one assignment to `{PLACE}`")
    write_into = u.choose(2, "write_into") == 1
    source = mk_path(u, "source", ["", "/"][u.choose(2, "source-absolute")])
    u.assume(z3.Length(source.parts) >= 1)
    below = fresh_seq("below")
    u.assume(models_path.all_clean(it, below, "below"))
    u.assume(z3.Length(below) >= 1)
    name = PathVal("posix", source.anchor, z3.Concat(source.parts, below), abs_known=source.abs_known)
    dest_in = mk_path(u, "dest", ["", "/"][u.choose(2, "destination-absolute")])
    env = Env(it.modules[CLIENT].env)
    env.vars.update(source=source, destination=dest_in, write_into=write_into)
    env.vars[ENTRY] = name
    dest_assigns = [n for n in assigned_expr(fn, "destination") if isinstance(n.value, ast.BinOp)]
    if not write_into:
        env.vars["destination"] = it.eval(dest_assigns[0].value, env)
    D = env.vars["destination"]

    def run(i, a, k):
        return i.eval(full_assigns[0].value, env)

    return Builtin("Client.download/full", run), [], {}, {"D": D, "below": below}


c = contract(CLIENT, "Client.download", props=["C09"], name="Client.download/placement-of-directory-entries")
c.setup = setup_download_placement
c.raises = {}
c.ensures(upload_placement_post, "entry-is-placed-at-destination-joined-with-its-path-relative-to-the-source")


# ------------------------------------------------------------------------------------ AsyncLister.__anext__ (recursive listing)
from pyvc import strmodel  # noqa: E402
from pyvc.models_lib import DequeModel  # noqa: E402
from pyvc.session import Reader, Writer  # noqa: E402
from pyvc.unit import LoopSpec, SpecInterp  # noqa: E402
from pyvc.values import Model  # noqa: E402

COMMON = "aioftp.common"


class ListStream(Model):
    """the data stream of one directory listing: readline() yields a line or b"" at the end; finish() completes it"""

    model_name = "liststream"

    def __init__(self, tag):
        super().__init__()
        self.tag = tag
        self.finished = False

    def getattr(self, it, name):
        if name == "readline":

            def rl(i, a, k):
                def run():
                    i.suspend("readline")
                    if i.ctx.choose(2, "listing-line-or-eof") == 1:
                        i.ctx.event("eof", self)
                        return b""
                    line = fresh("bytes", "listing_line")
                    i.ctx.assume(z3.Length(line.t) > 0)
                    i.ctx.event("line", self, line)
                    return line

                return Coro(run, "readline")

            return Builtin("liststream.readline", rl)
        if name == "finish":

            def fin(i, a, k):
                def run():
                    self.finished = True
                    i.ctx.event("finish", self)

                return Coro(run, "finish")

            return Builtin("liststream.finish", fin)
        raise Unsupported("stream." + name)


def _lister_client(u, forking_get_stream):
    """a Client whose get_stream (the data connection of one MLSD/LIST) and line parsers are stand-ins that record
    what they are asked: get_stream may be refused with 502 (not implemented) or 550 when `forking_get_stream`"""
    it = u.it
    cl = Obj(u.cls(CLIENT, "Client"), tag="client")
    cl.fields["encoding"] = "utf-8"
    streams = []

    def get_stream(i, a, k):
        def run():
            i.suspend("get_stream")
            oc = i.ctx.choose(3, "listing-command-outcome") if forking_get_stream else 0
            if oc:
                code = i.call(u.cls(CLIENT, "Code"), [["502", "550"][oc - 1]], {})
                i.ctx.event("refused", a[1], ["502", "550"][oc - 1])
                raise PyRaise(i.call(u.cls("aioftp.errors", "StatusCodeError"), [i.call(u.cls(CLIENT, "Code"), ["1xx"], {}), code, ["refused"]], {}))
            s = ListStream(f"stream{len(streams)}")
            streams.append((s, a[1]))
            i.ctx.event("new-stream", s, a[1], a[2] if len(a) > 2 else None)
            return s

        return Coro(run, "get_stream")

    b = Builtin("Client.get_stream", get_stream)
    b.is_method = True
    cl.cls = type(cl.cls)(cl.cls.name, [cl.cls], {"get_stream": b})
    parsed = []

    def parse_line(i, a, k, who):
        c = i.ctx.choose(3, "parsed-entry")  # a proper entry, '.', '..'   (or the documented ValueError)
        name = [None, ".", ".."][c]
        if name is None:
            nm = fresh("str", "entry_name")
            i.ctx.assume(models_path.clean_part(nm.t))
            i.ctx.assume(nm.t != z3.StringVal(".."))
            p = PathVal("posix", "", z3.Unit(nm.t))
        else:
            p = PathVal("posix", "", z3.Empty(models_path.SS)) if name == "." else PathVal("posix", "", z3.Unit(z3.StringVal("..")))
            p.dot = name
        typ = ["dir", "file"][i.ctx.choose(2, "entry-type")]
        info = {"type": typ}
        parsed.append((p, info, a[-1], who))
        return (p, info)

    for nm in ("parse_mlsx_line", "parse_list_line"):
        pb = Builtin("Client." + nm, lambda i, a, k, nm=nm: parse_line(i, a, k, nm))
        pb.is_method = True
        cl.cls.attrs[nm] = pb
    return cl, streams, parsed, parse_line


def setup_lister(u):
    it = u.it
    cl, streams, parsed, parse_line = _lister_client(u, False)
    recursive = u.choose(2, "recursive") == 1
    root = mk_path(u, "listed", "/")
    lister = it.call(it.getattr_(cl, "list"), [root], {"recursive": recursive})
    it.call(it.getattr_(lister, "__aiter__"), [], {})
    u.parse_line = parse_line
    # an arbitrary moment of the iteration: some stream is open (or none yet), some directories are queued
    started = u.choose(2, "already-started") == 1
    if started:
        cur = ListStream("current")
        lister.fields["stream"] = cur
        lister.fields["path"] = mk_path(u, "curdir", root.anchor)
        # whichever parser the _new_stream call that opened `cur` installed
        lister.fields["parse_line"] = Builtin("parser-of-current", lambda i, a, k: parse_line(i, a, k, cur))
        q = lister.fields["directories"]
        nq = u.choose(2, "queued-directories")
        for j in range(nq):
            q.items.append((mk_path(u, f"queued{j}", root.anchor), {"type": "dir"}))
    f = it.getattr_(lister, "__anext__")
    return f, [], {}, {"lister": lister, "recursive": recursive, "parsed": parsed, "streams": streams, "root": root, "queue0": list(lister.fields["directories"].items)}


# summary of AsyncLister._new_stream (proved below against the real code): sets the directory being listed, opens its
# listing stream and installs the parser that belongs to the command which opened it - or passes the refusal on
_ns = contract(CLIENT, "Client.list.<locals>.AsyncLister._new_stream", props=[], name="Client.list.<locals>.AsyncLister._new_stream#summary")
_ns.self_check = False
_ns.may_suspend = True
_ns.raises_("StatusCodeError")


def _ns_apply(S):
    S.vars["cls"].fields["path"] = S.vars["local_path"]


def _ns_result(S):
    it = S.it
    s = ListStream(f"stream-of-{len([e for e in it.ctx.events if e[0] == 'new-stream'])}")
    S.vars["cls"].fields["parse_line"] = Builtin("parser-of-" + s.tag, lambda i, a, k: it.ctx.ghost["parse_line"](i, a, k, s))
    it.ctx.event("new-stream", s, S.vars["local_path"], None)
    return s


_ns.apply_hook = _ns_apply
_ns.result_shape = _ns_result


c = contract(CLIENT, "Client.list.<locals>.AsyncLister.__anext__", props=["C09", "C19", "C07"], name="Client.list.<locals>.AsyncLister.__anext__")


def _setup_lister_with_ghost(u):
    r = setup_lister(u)
    u.it.ctx.ghost["parse_line"] = u.parse_line
    return r


c.setup = _setup_lister_with_ghost
c.uses = [(CLIENT, "Client.list.<locals>.AsyncLister._new_stream#summary")]
c.raises_("StopAsyncIteration", lambda S: lister_stop_ok(S), "stops-only-when-the-last-queued-directory-is-exhausted")
c.raises_("CancelledError")
c.raises_("ValueError")
c.raises_("StatusCodeError")
c.opts = {"feas_timeout_ms": 300, "no_covers": True}
c.env_hooks = {"unroll_limit": 2, "unroll_exceed": "end"}
c.assumptions.append("B-unroll: the two while loops of __anext__ are unrolled twice (up to 2 consecutive '.'/'..' entries and up to 2 consecutive exhausted directories before an entry is returned) — bounded in that dimension, symbolic in names, paths and queue contents")


def lister_stop_ok(S):
    lister = S.vars["lister"]
    return len(lister.fields["directories"].items) == 0 and lister.fields["stream"].finished


def lister_post(S):
    """the item returned is (directory being listed / name, info) of the line just parsed; '.' and '..' are never
    returned or queued; a directory entry is queued for later listing iff recursive"""
    it = S.it
    lister, parsed = S.vars["lister"], S.vars["parsed"]
    if not parsed:
        return False
    p, info, _line, _who = parsed[-1]
    if getattr(p, "dot", None):
        return False  # a dot entry must be skipped, never returned
    path, rinfo = S.result
    cur = lister.fields["path"]
    ok_path = z3.And(path.anchor_t() == cur.anchor_t(), path.parts == z3.Concat(cur.parts, p.parts))
    q = lister.fields["directories"].items
    newly = [x for x in q if x not in S.vars["queue0"]]
    want_q = info["type"] == "dir" and S.vars["recursive"]
    ok_q = (len(newly) == 1 and newly[0][0] is path and newly[0][1] is info) if want_q else (len(newly) == 0)
    # every dot entry seen on the way was skipped: none of them is in the queue
    dots_q = any(getattr(x[0], "dot", None) for x in q)
    return z3.And(ok_path, z3.BoolVal(bool(ok_q and rinfo is info and not dots_q)))


c.ensures(lister_post, "yields-directory-joined-with-the-entry-name-skips-dots-queues-directories-iff-recursive")


def lister_lines_post(S):
    """C07 (client side of a listing): every line read from a listing stream during this call is handed exactly once,
    in order, to the parser installed for that very stream; only '.'/'..' entries are dropped; the entry returned is
    the one parsed from the last line read, and it is reported under the directory whose stream it came from"""
    it = S.it
    ev = it.ctx.events
    lines = [(e[1], e[2]) for e in ev if e[0] == "line"]
    parsed = S.vars["parsed"]
    if len(lines) != len(parsed) or not parsed:
        return False
    for (p, info, arg, who), (stream, line) in zip(parsed, lines):
        if isinstance(who, str):
            # the parser that ran was installed by the real _new_stream, not by its summary: the summary was not applied
            # (e.g. the nested class was renamed) and this clause, which speaks through the summary's ghost, does not apply
            raise Unsupported("AsyncLister.__anext__: the _new_stream summary was not applied; the line-accounting clause is undecided")
        if arg is not line or who is not stream:
            return False
    if S.vars["lister"].fields["stream"] is not lines[-1][0]:
        return False
    opened = [e for e in ev if e[0] == "new-stream" and e[1] is lines[-1][0]]
    if opened and S.vars["lister"].fields["path"] is not opened[0][2]:
        return False
    return all(getattr(p[0], "dot", None) for p in parsed[:-1]) and not getattr(parsed[-1][0], "dot", None) and S.result[1] is parsed[-1][1]


c.ensures(lister_lines_post, "every-line-read-is-parsed-once-in-order-by-its-stream's-parser-only-dot-entries-are-dropped", props=["C07"])


# ---- AsyncLister._new_stream against the real code
def setup_new_stream(u):
    it = u.it
    cl, streams, parsed, parse_line = _lister_client(u, True)
    raw = [None, "MLSD", "LIST", "NLST"][u.choose(4, "raw_command")]
    root = mk_path(u, "listed", "/")
    lister = it.call(it.getattr_(cl, "list"), [root], {"raw_command": raw})
    it.call(it.getattr_(lister, "__aiter__"), [], {})
    local = mk_path(u, "directory", root.anchor)
    f = it.getattr_(lister, "_new_stream")
    return f, [local], {}, {"lister": lister, "local_path": local, "raw": raw, "streams": streams, "client": cl}


c = contract(CLIENT, "Client.list.<locals>.AsyncLister._new_stream", props=["C07", "C09"])
c.setup = setup_new_stream
c.raises_("CancelledError")


def _attempts(S):
    return [e for e in S.it.ctx.events if e[0] in ("new-stream", "refused")]


def _cmd_for(S, verb):
    sp = SpecInterp(S.it)
    return sp.value(f'("{verb} " + str(local_path)).strip()', S)


def new_stream_post(S):
    """the stream returned is the data stream of `MLSD <dir>` with the MLSx parser installed, or - only when raw_command
    allows it and MLSD was refused with 50x, or LIST was asked for - of `LIST <dir>` with the LIST parser installed;
    every listing command expects a 1xx reply; the lister's current directory is the one asked for"""
    it = S.it
    at = _attempts(S)
    lister, raw = S.vars["lister"], S.vars["raw"]
    if not at or at[-1][0] != "new-stream" or S.result is not at[-1][1] or at[-1][3] != "1xx":
        return False
    if lister.fields["path"] is not S.vars["local_path"]:
        return False
    pl = lister.fields["parse_line"]
    cmd = it.unbox(at[-1][2])
    name = getattr(getattr(pl, "func", None), "name", "")
    if len(at) == 1 and raw in (None, "MLSD"):
        return z3.And(cmd.t == _cmd_for(S, "MLSD").t, z3.BoolVal(name == "Client.parse_mlsx_line"))
    if len(at) == 1 and raw == "LIST":
        return z3.And(cmd.t == _cmd_for(S, "LIST").t, z3.BoolVal(name == "Client.parse_list_line"))
    if len(at) == 2 and raw is None and at[0][0] == "refused" and at[0][2] == "502":
        return z3.And(it.unbox(at[0][1]).t == _cmd_for(S, "MLSD").t, cmd.t == _cmd_for(S, "LIST").t, z3.BoolVal(name == "Client.parse_list_line"))
    return False


c.ensures(new_stream_post, "MLSD-with-the-MLSx-parser-or-LIST-with-the-LIST-parser-as-fallback-for-50x-only")


def new_stream_refused(S):
    """a refusal is passed on unless it is the 50x answer to an MLSD that was not explicitly asked for"""
    at = _attempts(S)
    raw = S.vars["raw"]
    if not at or at[-1][0] != "refused":
        return False
    if len(at) == 1:
        return (raw in (None, "MLSD") and (at[0][2] != "502" or raw == "MLSD")) or raw == "LIST"
    return len(at) == 2 and raw is None and at[0][0] == "refused" and at[0][2] == "502"


c.raises_("StatusCodeError", new_stream_refused, "refusals-are-passed-on-except-50x-to-the-default-MLSD")
c.raises_("ValueError", lambda S: S.vars["raw"] == "NLST" and not _attempts(S), "unknown-raw_command-is-rejected-before-anything-is-sent")


# ------------------------------------------------------------------------------------ make_directory / remove
def _client_with(u, overrides):
    it = u.it
    cl = Obj(u.cls(CLIENT, "Client"), tag="client")
    cl.fields["encoding"] = "utf-8"
    attrs = {}
    for name, fn in overrides.items():
        b = Builtin("Client." + name, fn)
        b.is_method = True
        attrs[name] = b
    cl.cls = type(cl.cls)(cl.cls.name, [cl.cls], attrs)
    return cl


def setup_make_directory(u):
    it = u.it
    depth = 1 + u.choose(3, "path-depth")
    names = [fresh("str", f"n{i}") for i in range(depth)]
    for n in names:
        u.assume(models_path.clean_part(n.t))
        u.assume(n.t != z3.StringVal(".."))
    absolute = u.choose(2, "absolute") == 1
    path = PathVal("posix", "/" if absolute else "", models_path.seq_of(names), abs_known=absolute)
    parents = u.choose(2, "parents") == 0
    asked, sent = [], []

    def exists(i, a, k):
        def run():
            i.suspend("exists")
            r = i.ctx.choose(2, "exists") == 0
            asked.append((a[1], r))
            return r

        return Coro(run, "exists")

    def command(i, a, k):
        def run():
            i.suspend("command")
            sent.append((a[1], a[2] if len(a) > 2 else None))
            return ("257", ["ok"])

        return Coro(run, "command")

    cl = _client_with(u, {"exists": exists, "command": command})
    f = it.getattr_(cl, "make_directory")
    return f, [path], {"parents": parents}, {"path": path, "names": names, "absolute": absolute, "parents": parents, "asked": asked, "sent": sent, "depth": depth}


c = contract(CLIENT, "Client.make_directory", props=["C09"])
c.setup = setup_make_directory
c.raises_("CancelledError")
c.assumptions.append("B-depth: target paths of 1..3 components (names symbolic); the ancestor loop is unrolled")


def make_directory_post(S):
    """MKD is sent exactly for the innermost run of missing ancestors (all of them with parents=True, only the target
    otherwise), outermost first, each expecting 257"""
    it = S.it
    names, depth, asked, sent = S.vars["names"], S.vars["depth"], S.vars["asked"], S.vars["sent"]
    # what the model prescribes, from the answers the server gave
    missing = 0
    for (p, r) in asked:
        if r:
            break
        missing += 1
        if not S.vars["parents"]:
            break
    want_depths = list(range(depth - missing + 1, depth + 1))  # number of components of each directory to create
    if len(sent) != len(want_depths):
        return False
    conj = []
    for (cmd, exp), d in zip(sent, want_depths):
        if exp != "257":
            return False
        target = PathVal("posix", "/" if S.vars["absolute"] else "", models_path.seq_of(names[:d]), abs_known=S.vars["absolute"])
        want = z3.Concat(z3.StringVal("MKD "), term_of(it, strmodel.to_str(it, target)))
        conj.append(term_of(it, cmd) == want)
    return z3.And(*conj) if conj else True


def term_of(it, v):
    v = it.unbox(v)
    return v.t if isinstance(v, SV) else z3.StringVal(v)


c.ensures(make_directory_post, "creates-exactly-the-missing-ancestors-outermost-first")


def setup_remove(u):
    it = u.it
    path = mk_path(u, "victim", "/")
    u.assume(z3.Length(path.parts) >= 1)
    log = []
    kind = ["missing", "file", "dir", "other"][u.choose(4, "what-is-there")]
    nchildren = u.choose(3, "children") if kind == "dir" else 0
    children = []
    for j in range(nchildren):
        nm = fresh("str", f"child{j}")
        u.assume(models_path.clean_part(nm.t))
        ctype = ["file", "dir", "link"][u.choose(3, f"child{j}-type")]
        children.append((PathVal("posix", "/", z3.Concat(path.parts, z3.Unit(nm.t)), abs_known=True), {"type": ctype}))

    def mk(name, result):
        def fn(i, a, k):
            def run():
                i.suspend(name)
                log.append((name, a[1] if len(a) > 1 else None))
                return result(a) if callable(result) else result

            return Coro(run, name)

        return fn

    state = {"depth": 0}

    def remove_rec(i, a, k):
        def run():
            i.suspend("remove")
            log.append(("remove", a[1]))

        return Coro(run, "remove")

    cl = _client_with(
        u,
        {
            "exists": mk("exists", kind != "missing"),
            "stat": mk("stat", {"type": {"file": "file", "dir": "dir", "other": "link", "missing": "file"}[kind]}),
            "remove_file": mk("remove_file", None),
            "remove_directory": mk("remove_directory", None),
        },
    )

    def list_(i, a, k):
        log.append(("list", a[1]))
        return Coro(lambda: list(children), "list")

    lb = Builtin("Client.list", list_)
    lb.is_method = True
    cl.cls.attrs["list"] = lb
    real_remove = it.getattr_(cl, "remove")
    # recursive calls go through the summary, the outer call runs the real body
    calls = {"n": 0}
    orig = cl.cls.lookup("remove")[0]

    def remove_dispatch(i, a, k):
        calls["n"] += 1
        if calls["n"] == 1:
            return i.call(orig, a, k)
        return remove_rec(i, a, k)

    rb = Builtin("Client.remove", remove_dispatch)
    rb.is_method = True
    cl.cls.attrs["remove"] = rb
    return it.getattr_(cl, "remove"), [path], {}, {"path": path, "kind": kind, "children": children, "log": log}


c = contract(CLIENT, "Client.remove", props=["C09"])
c.setup = setup_remove
c.raises_("CancelledError")
c.assumptions.append("B-fanout: directories with 0..2 listed children; the recursive call is used through its own contract (a summary that records the call)")


def remove_post(S):
    """missing: nothing is sent; file: one DELE of the path; directory: remove() of each listed file/dir child (others are
    left alone), then RMD of the path — nothing outside path and its listed children is named"""
    log, kind, path, children = S.vars["log"], S.vars["kind"], S.vars["path"], S.vars["children"]
    acts = [(n, p) for n, p in log if n in ("remove_file", "remove_directory", "remove")]
    if kind == "missing" or kind == "other":
        return not acts
    if kind == "file":
        return len(acts) == 1 and acts[0][0] == "remove_file" and acts[0][1] is path
    want = [("remove", ch[0]) for ch in children if ch[1]["type"] in ("dir", "file")] + [("remove_directory", path)]
    return len(acts) == len(want) and all(a[0] == w[0] and a[1] is w[1] for a, w in zip(acts, want))


c.ensures(remove_post, "removes-the-subtree-and-names-nothing-else")


# ------------------------------------------------------------------------------------ Client.stat (MLST, LIST fallback on 50x)
def setup_stat(u):
    it = u.it
    names = [fresh("str", f"n{i}") for i in range(1 + u.choose(2, "path-depth"))]
    for n in names:
        u.assume(models_path.clean_part(n.t))
        u.assume(n.t != z3.StringVal(".."))
    path = PathVal("posix", "/", models_path.seq_of(names), abs_known=True)
    sent, listed, parsed = [], [], []
    nent = u.choose(3, "entries-in-the-parent-listing")
    entries = []
    for j in range(nent):
        nm = fresh("str", f"entry{j}")
        u.assume(models_path.clean_part(nm.t))
        entries.append((PathVal("posix", "/", z3.Concat(models_path.seq_of(names[:-1]), z3.Unit(nm.t)), abs_known=True), {"type": ["file", "dir"][j % 2], "n": j}))
    line2 = fresh("str", "mlst_fact_line")

    def command(i, a, k):
        def run():
            i.suspend("command")
            sent.append((a[1], a[2] if len(a) > 2 else None))
            oc = i.ctx.choose(3, "MLST-outcome")
            if oc:
                code = i.call(u.cls(CLIENT, "Code"), [["502", "550"][oc - 1]], {})
                i.ctx.event("refused", a[1], ["502", "550"][oc - 1])
                raise PyRaise(i.call(u.cls("aioftp.errors", "StatusCodeError"), [i.call(u.cls(CLIENT, "Code"), ["2xx"], {}), code, ["refused"]], {}))
            return (i.call(u.cls(CLIENT, "Code"), ["250"], {}), ["start", line2, "end"])

        return Coro(run, "command")

    def parse_mlsx_line(i, a, k):
        info = {"type": "file", "from": "mlst"}
        parsed.append((a[1], info))
        return (PathVal("posix", "", z3.Unit(fresh("str", "mlst_name").t)), info)

    def list_(i, a, k):
        def run():
            i.suspend("list")
            listed.append((a[1], k))
            return list(entries)

        return Coro(run, "list")

    cl = _client_with(u, {"command": command, "parse_mlsx_line": parse_mlsx_line, "list": list_})
    return it.getattr_(cl, "stat"), [path], {}, {"path": path, "names": names, "sent": sent, "listed": listed, "parsed": parsed, "entries": entries, "line2": line2}


c = contract(CLIENT, "Client.stat", props=["C07"])
c.setup = setup_stat
c.raises_("CancelledError")
c.assumptions.append("B-entries: the parent listing used by the LIST fallback has 0..2 entries (names symbolic); paths of 1..2 components")


def _stat_cmd_ok(S):
    it = S.it
    sent = S.vars["sent"]
    if len(sent) != 1 or sent[0][1] != "2xx":
        return False
    sp = SpecInterp(it)
    return it.unbox(sent[0][0]).t == sp.value('"MLST " + str(path)', S).t


def stat_post(S):
    """MLST answered: the facts of the reply's fact line (leading blanks removed), as parsed by the MLSx parser; MLST
    refused with 50x: the info of the first entry of the parent directory's listing whose name is the path's name"""
    it = S.it
    parsed, listed, entries = S.vars["parsed"], S.vars["listed"], S.vars["entries"]
    ref = [e for e in it.ctx.events if e[0] == "refused"]
    cmd = _stat_cmd_ok(S)
    if cmd is False:
        return False
    if not ref:
        if len(parsed) != 1 or listed or S.result is not parsed[0][1]:
            return False
        from pyvc import strmodel

        return z3.And(cmd, it.unbox(parsed[0][0]).t == strmodel.f_lstrip(S.vars["line2"].t))
    if ref[-1][2] != "502" or parsed or len(listed) != 1:
        return False
    parent = listed[0][0]
    names = S.vars["names"]
    par_ok = z3.And(parent.anchor_t() == z3.StringVal("/"), parent.parts == models_path.seq_of(names[:-1]))
    hit = [j for j, (p, info) in enumerate(entries) if S.result is info]
    if len(hit) != 1:
        return False
    j = hit[0]
    last = names[-1].t
    nm = lambda p: p.parts[z3.Length(p.parts) - 1]  # noqa: E731
    conj = [cmd, par_ok, nm(entries[j][0]) == last] + [nm(entries[i][0]) != last for i in range(j)]
    return z3.And(*conj)


c.ensures(stat_post, "MLST-facts-or-on-50x-the-matching-entry-of-the-parent-listing")


def stat_refused(S):
    """550 for a missing entry (fallback found no entry of that name); any non-50x refusal of MLST is passed on"""
    it = S.it
    ref = [e for e in it.ctx.events if e[0] == "refused"]
    entries, names, listed = S.vars["entries"], S.vars["names"], S.vars["listed"]
    if ref and ref[-1][2] == "550":
        return not listed
    if not ref or len(listed) != 1:
        return False
    last = names[-1].t
    nm = lambda p: p.parts[z3.Length(p.parts) - 1]  # noqa: E731
    return z3.And(*[nm(p) != last for p, _ in entries]) if entries else True


c.raises_("StatusCodeError", stat_refused, "refusal-passed-on-or-550-only-when-no-entry-of-that-name-is-listed")


# ---- Client.stat with a parent listing of ANY length (LIST fallback)
from pyvc.objseq import ObjSeq  # noqa: E402

ENTRY_NAME = z3.Array("listing_entry_name", z3.IntSort(), z3.StringSort())


def setup_stat_any(u):
    it = u.it
    names = [fresh("str", f"n{i}") for i in range(1 + u.choose(2, "path-depth"))]
    for n in names:
        u.assume(models_path.clean_part(n.t))
        u.assume(n.t != z3.StringVal(".."))
    path = PathVal("posix", "/", models_path.seq_of(names), abs_known=True)
    listed = []

    def make(it_, idx):
        info = Obj(u.cls(CLIENT, "Client").__class__("info", [], {}), tag="info[i]")
        info.entry_index = idx
        return (PathVal("posix", "/", z3.Concat(models_path.seq_of(names[:-1]), z3.Unit(ENTRY_NAME[idx])), abs_known=True), info)

    table = ObjSeq("listing", make)

    def command(i, a, k):
        def run():
            i.suspend("command")
            # this unit is about the fallback: MLST is refused as not implemented
            code = i.call(u.cls(CLIENT, "Code"), ["502"], {})
            raise PyRaise(i.call(u.cls("aioftp.errors", "StatusCodeError"), [i.call(u.cls(CLIENT, "Code"), ["2xx"], {}), code, ["refused"]], {}))

        return Coro(run, "command")

    def list_(i, a, k):
        def run():
            i.suspend("list")
            listed.append((a[1], k))
            return table

        return Coro(run, "list")

    cl = _client_with(u, {"command": command, "list": list_})
    return it.getattr_(cl, "stat"), [path], {}, {"path": path, "names": names, "listed": listed, "table": table}


c = contract(CLIENT, "Client.stat", props=["C07"], name="Client.stat#any-listing")
c.setup = setup_stat_any
c.raises_("CancelledError")
c.assumptions.append("the parent listing is a list of any length (entry names symbolic); MLST is refused with 502 (the MLST branch and the other refusals are the bounded unit's)")


def stat_any_inv(S):
    k = S.vars["_i"]
    k = k.t if isinstance(k, SV) else z3.IntVal(k)
    last = S.vars["names"][-1].t
    i = z3.Int("i!stat")
    return z3.ForAll([i], z3.Implies(z3.And(i >= 0, i < k), ENTRY_NAME[i] != last))


c.loops = {("Client.stat", 0): LoopSpec(invariants=[("no-entry-of-that-name-so-far", stat_any_inv)])}


def stat_any_post(S):
    table = S.vars["table"]
    last = S.vars["names"][-1].t
    j = getattr(S.result, "entry_index", None)
    if j is None:
        return False
    i = z3.Int("i!statpost")
    return z3.And(j >= 0, j < table.n, ENTRY_NAME[j] == last, z3.ForAll([i], z3.Implies(z3.And(i >= 0, i < j), ENTRY_NAME[i] != last)))


c.ensures(stat_any_post, "info-of-the-first-listed-entry-with-that-name")


def stat_any_missing(S):
    table = S.vars["table"]
    last = S.vars["names"][-1].t
    i = z3.Int("i!statmiss")
    return z3.ForAll([i], z3.Implies(z3.And(i >= 0, i < table.n), ENTRY_NAME[i] != last))


c.raises_("StatusCodeError", stat_any_missing, "550-only-when-no-listed-entry-has-that-name")
