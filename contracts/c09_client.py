"""C09 — client tree operations: placement computation of Client.upload / Client.download (pure path arithmetic over an
arbitrary destination), as lemmas over the real expressions of the two functions."""
import ast

import z3

from pyvc import models_path
from pyvc.core import SV, PathEnd, PyRaise, Unsupported, fresh
from pyvc.models_path import PathVal, fresh_seq
from pyvc.unit import contract
from pyvc.values import Builtin, Coro, Env, Obj

CLIENT = "aioftp.client"
T9 = {"props": ["C09"]}


def find_fn(it, name):
    mod = it.modules[CLIENT]
    for n in ast.walk(mod.tree):
        if isinstance(n, ast.AsyncFunctionDef) and n.name == name:
            return n
    raise Unsupported(f"Client.{name} not found")


def assigned_expr(fn, var):
    """the right-hand sides assigned to `var` inside fn (in source order)"""
    out = []
    for n in ast.walk(fn):
        if isinstance(n, ast.Assign) and len(n.targets) == 1 and isinstance(n.targets[0], ast.Name) and n.targets[0].id == var:
            out.append(n)
    out.sort(key=lambda n: n.lineno)
    return out


def mk_path(u, tag, anchor):
    ps = fresh_seq(tag)
    u.assume(models_path.all_clean(u.it, ps, tag))
    return PathVal("posix", anchor, ps, abs_known=(anchor != ""))


def setup_upload_placement(u):
    """Client.upload, directory walk: the expressions that compute `relative` (both write_into settings), evaluated on
    an arbitrary source directory, an arbitrary entry `path` below it and an arbitrary destination"""
    it = u.it
    fn = find_fn(it, "upload")
    rel_assigns = assigned_expr(fn, "relative")
    if len(rel_assigns) not in (1, 2):
        raise Unsupported("Client.upload: expected one or two assignments to `relative` in the directory walk")
    write_into = u.choose(2, "write_into") == 1
    source = mk_path(u, "source", "/")
    u.assume(z3.Length(source.parts) >= 1)
    below = fresh_seq("below")
    u.assume(models_path.all_clean(it, below, "below"))
    u.assume(z3.Length(below) >= 1)
    path = PathVal("posix", "/", z3.Concat(source.parts, below), abs_known=True)
    dest_in = mk_path(u, "dest", ["", "/"][u.choose(2, "destination-absolute")])
    # the real prologue: `if not write_into: destination = destination / source.name`
    env = Env(it.modules[CLIENT].env)
    env.vars.update(source=source, destination=dest_in, write_into=write_into, path=path)
    dest_assigns = [n for n in assigned_expr(fn, "destination") if isinstance(n.value, ast.BinOp)]
    if len(dest_assigns) != 1:
        raise Unsupported("Client.upload: expected `destination = destination / source.name`")
    if not write_into:
        env.vars["destination"] = it.eval(dest_assigns[0].value, env)
    D = env.vars["destination"]
    node = rel_assigns[0] if (write_into or len(rel_assigns) == 1) else rel_assigns[1]
    # which assignment belongs to which branch is read from the enclosing `if write_into:`
    for n in ast.walk(fn) if len(rel_assigns) == 2 else []:
        if isinstance(n, ast.If) and isinstance(n.test, ast.Name) and n.test.id == "write_into" and any(a in ast.walk(n) for a in rel_assigns):
            node = [a for a in rel_assigns if a in n.body][0] if write_into else [a for a in rel_assigns if a in n.orelse][0]

    def run(i, a, k):
        return i.eval(node.value, env)

    return Builtin("Client.upload/relative", run), [], {}, {"D": D, "source": source, "path": path, "below": below}


c = contract(CLIENT, "Client.upload", props=["C09"], name="Client.upload/placement-of-directory-entries")
c.setup = setup_upload_placement
c.raises = {}
c.assumptions.append("block contract: the two expressions assigned to `relative` in Client.upload's directory walk (and the prologue `destination = destination / source.name`) are extracted from the AST of the real function and evaluated symbolically")


def upload_placement_post(S):
    """documented placement: entry `path` of the source tree goes to D / path.relative_to(source)"""
    r = S.result
    D, below = S.vars["D"], S.vars["below"]
    return z3.And(r.anchor_t() == D.anchor_t(), r.parts == z3.Concat(D.parts, below))


c.ensures(upload_placement_post, "entry-is-placed-at-destination-joined-with-its-path-relative-to-the-source")


def setup_download_placement(u):
    it = u.it
    fn = find_fn(it, "download")
    full_assigns = assigned_expr(fn, "full")
    if len(full_assigns) != 1:
        raise Unsupported("Client.download: expected one assignment to `full`")
    write_into = u.choose(2, "write_into") == 1
    source = mk_path(u, "source", ["", "/"][u.choose(2, "source-absolute")])
    u.assume(z3.Length(source.parts) >= 1)
    below = fresh_seq("below")
    u.assume(models_path.all_clean(it, below, "below"))
    u.assume(z3.Length(below) >= 1)
    name = PathVal("posix", source.anchor, z3.Concat(source.parts, below), abs_known=source.abs_known)
    dest_in = mk_path(u, "dest", ["", "/"][u.choose(2, "destination-absolute")])
    env = Env(it.modules[CLIENT].env)
    env.vars.update(source=source, destination=dest_in, write_into=write_into, name=name)
    dest_assigns = [n for n in assigned_expr(fn, "destination") if isinstance(n.value, ast.BinOp)]
    if not write_into:
        env.vars["destination"] = it.eval(dest_assigns[0].value, env)
    D = env.vars["destination"]

    def run(i, a, k):
        return i.eval(full_assigns[0].value, env)

    return Builtin("Client.download/full", run), [], {}, {"D": D, "below": below}


c = contract(CLIENT, "Client.download", props=["C09"], name="Client.download/placement-of-directory-entries")
c.setup = setup_download_placement
c.raises = {}
c.ensures(upload_placement_post, "entry-is-placed-at-destination-joined-with-its-path-relative-to-the-source")
