"""C18 — the two file-system backends agree at the backend API: for each API method PathIO and AsyncPathIO, run on the
same arguments against the same scripted pathlib outcomes, make the same pathlib calls in the same order, return the
same result and fail with the same wrapped exception (AsyncPathIO additionally maps an expired timeout to PathIOError)."""
import z3

from pyvc import models_path
from pyvc.core import SV, PathEnd, PyRaise, Unsupported, fresh
from pyvc.interp import LazyOpt
from pyvc.models_path import PathVal
from pyvc.unit import contract
from pyvc.values import Builtin, Coro, Model, Obj

PATHIO = "aioftp.pathio"
T18 = {"props": ["C18"]}

# method -> (extra positional args builder, kwargs builder)
API = {
    "exists": (lambda u: [], lambda u: {}),
    "is_dir": (lambda u: [], lambda u: {}),
    "is_file": (lambda u: [], lambda u: {}),
    "mkdir": (lambda u: [], lambda u: {"parents": u.bool("parents"), "exist_ok": u.bool("exist_ok")}),
    "rmdir": (lambda u: [], lambda u: {}),
    "unlink": (lambda u: [], lambda u: {}),
    "stat": (lambda u: [], lambda u: {}),
    "_open": (lambda u: [fresh("str", "mode")], lambda u: {}),
    "rename": (lambda u: ["DEST"], lambda u: {}),
    "seek": (lambda u: [fresh("int", "offset")], lambda u: {}),
    "write": (lambda u: [fresh("bytes", "data")], lambda u: {}),
    "read": (lambda u: [fresh("int", "count")], lambda u: {}),
    "close": (lambda u: [], lambda u: {}),
}
FILE_METHODS = {"seek", "write", "read", "close"}


class FileObj(Model):
    """an open python file object: method calls are recorded like pathlib calls"""

    model_name = "fileobj"

    def __init__(self, script):
        super().__init__()
        self.script = script

    def getattr(self, it, name):
        if name in ("seek", "write", "read", "close"):
            return Builtin("file." + name, lambda i, a, k: self.script(i, self, name, a, k))
        raise Unsupported("file." + name)


def make_setup(meth):
    def setup(u):
        it = u.it
        mod = it.modules[PATHIO]
        timeout = LazyOpt(it, "real", "path_timeout", lambda v: v.t > 0)
        sync = it.call(mod.attrs["PathIO"], [], {"timeout": timeout})
        asyn = it.call(mod.attrs["AsyncPathIO"], [], {"timeout": timeout})
        outcome = u.choose(2, "os-outcome")  # what the operating system does with this call: succeeds / fails
        result = fresh("int", "os_result")
        traces = {"cur": []}

        def script(i, target, name, a, k):
            traces["cur"].append((id(target), name, tuple(a), tuple(sorted(k.items()))))
            if outcome == 1:
                raise PyRaise(i.make_exc("OSError"))
            return result

        it.hooks["fs_call"] = script
        path = PathVal("any", None, None, opaque=z3.Const("p!arg", models_path.OP))
        dest = PathVal("any", None, None, opaque=z3.Const("p!dest", models_path.OP))
        fobj = FileObj(script)
        first = fobj if meth in FILE_METHODS else path
        extra = [dest if x == "DEST" else x for x in API[meth][0](u)]
        kwargs = API[meth][1](u)
        res = {}

        def run(i, a, k):
            def body():
                for label, obj in (("sync", sync), ("async", asyn)):
                    traces["cur"] = []
                    try:
                        r = i.await_(i.call(i.getattr_(obj, meth), [first] + extra, dict(kwargs)))
                        res[label] = ("return", r, traces["cur"])
                    except PyRaise as pr:
                        res[label] = ("raise", pr.exc, traces["cur"])
                return None

            return Coro(body, "both-backends")

        return Builtin("PathIO-vs-AsyncPathIO:" + meth, run), [], {}, {"res": res, "result": result, "outcome": outcome, "timeout": timeout}

    return setup


def make_exit(meth):
    def exit_(S, outcome):
        it = S.it
        ctx = it.ctx
        res = S.vars["res"]
        name = f"PathIO-vs-AsyncPathIO.{meth}"
        if outcome[0] == "raise" or "sync" not in res or "async" not in res:
            ctx.check(f"{name}/harness", z3.BoolVal(False), info=T18)
            return
        s, a = res["sync"], res["async"]
        cause = a[1].fields.get("__cause__") if a[0] == "raise" else None
        timed_out = cause is not None and getattr(cause, "cls", None) is it.exc_classes["TimeoutError"]
        pio = it.modules["aioftp.errors"].attrs["PathIOError"]
        if timed_out:
            # the executor-based backend gave up after path_timeout: allowed only with a configured timeout, reported as
            # PathIOError, and without having issued a *different* call
            ok = a[1].cls is pio and it.unbox(S.vars["timeout"]) is not None and (a[2] == [] or a[2] == s[2])
            ctx.check(f"{name}/exit:an-expired-path_timeout-is-a-PathIOError", z3.BoolVal(bool(ok)), info=T18)
            return
        # same pathlib calls, same order, same arguments
        ctx.check(f"{name}/exit:same-file-system-calls", z3.BoolVal(s[2] == a[2] and len(s[2]) == 1), info=T18)
        if s[0] == "return" and a[0] == "return":
            ctx.check(f"{name}/exit:same-result", z3.BoolVal(s[1] is a[1] and s[1] is S.vars["result"]), info=T18)
        elif s[0] == "raise" and a[0] == "raise":
            ctx.check(f"{name}/exit:same-wrapped-failure", z3.BoolVal(s[1].cls is pio and a[1].cls is pio), info=T18)
        else:
            # the only admissible difference: the executor-based backend gives up after path_timeout (PathIOError)
            ok = a[0] == "raise" and a[1].cls is pio and it.unbox(S.vars["timeout"]) is not None and any(e[0] == "wait_for" for e in ctx.events)
            ctx.check(f"{name}/exit:outcomes-differ-only-by-an-expired-path_timeout", z3.BoolVal(bool(ok)), info=T18)

    return exit_


for _m in API:
    c = contract(PATHIO, "PathIO." + _m, props=["C18"], name=f"PathIO-vs-AsyncPathIO.{_m}")
    c.setup = make_setup(_m)
    c.raises = {"BaseException": []}
    c.exit_hook = make_exit(_m)
    c.assumptions.append("T-aio: loop.run_in_executor(executor, fn) runs fn once and returns / raises what fn does; T-os: equal call traces on an equal file system give equal outcomes")


# ------------------------------------------------------------------------------------ the Lister classes
class GlobIter(Model):
    """what path.glob("*") returns: a lazy iterator; the OS is consulted by next()"""

    model_name = "globiter"

    def __init__(self, script):
        super().__init__()
        self.script = script

    def m___next__(self, it):
        return self.script(it, self, "next", [], {})


def setup_lister(u):
    it = u.it
    mod = it.modules[PATHIO]
    timeout = LazyOpt(it, "real", "path_timeout", lambda v: v.t > 0)
    sync = it.call(mod.attrs["PathIO"], [], {"timeout": timeout})
    asyn = it.call(mod.attrs["AsyncPathIO"], [], {"timeout": timeout})
    # what the directory scan does at its 1st and 2nd step: an entry / exhausted / an OS error
    plan = [u.choose(3, "scan-step-1"), u.choose(3, "scan-step-2")]
    entries = [PathVal("any", None, None, opaque=z3.Const(f"p!entry{j}", models_path.OP)) for j in range(2)]
    traces = {"cur": [], "n": 0}

    def script(i, target, name, a, k):
        traces["cur"].append((name, tuple(a)))
        if name == "glob":
            traces["n"] = 0
            return GlobIter(script)
        if name == "next":
            step = plan[min(traces["n"], 1)]
            traces["n"] += 1
            if step == 0:
                return entries[traces["n"] - 1]
            if step == 1:
                i.throw("StopIteration")
            raise PyRaise(i.make_exc("OSError"))
        raise Unsupported("fs." + name)

    it.hooks["fs_call"] = script
    path = PathVal("any", None, None, opaque=z3.Const("p!arg", models_path.OP))
    res = {}

    def run(i, a, k):
        def body():
            for label, obj in (("sync", sync), ("async", asyn)):
                traces["cur"] = []
                out = []
                lister = i.call(i.getattr_(obj, "list"), [path], {})
                for _ in range(2):
                    try:
                        out.append(("item", i.await_(i.call(i.getattr_(lister, "__anext__"), [], {}))))
                    except PyRaise as pr:
                        out.append(("raise", pr.exc))
                        break
                res[label] = (out, list(traces["cur"]))
            return None

        return Coro(body, "both-listers")

    return Builtin("PathIO-vs-AsyncPathIO:list", run), [], {}, {"res": res, "entries": entries, "plan": plan, "timeout": timeout}


def lister_exit(S, outcome):
    it = S.it
    ctx = it.ctx
    res, plan, entries = S.vars["res"], S.vars["plan"], S.vars["entries"]
    name = "PathIO-vs-AsyncPathIO.list"
    if outcome[0] == "raise" or "sync" not in res or "async" not in res:
        ctx.check(f"{name}/harness", z3.BoolVal(False), info=T18)
        return
    pio = it.modules["aioftp.errors"].attrs["PathIOError"]
    stop = it.exc_classes["StopAsyncIteration"]

    def view(out):
        v = []
        for kind, x in out:
            if kind == "item":
                v.append(("item", x))
            else:
                cause = x.fields.get("__cause__")
                to = cause is not None and getattr(cause, "cls", None) is it.exc_classes["TimeoutError"]
                v.append(("timeout",) if to else ("raise", x.cls))
        return v

    s, a = view(res["sync"][0]), view(res["async"][0])
    # expected from the plan: entries in scan order, then StopAsyncIteration at exhaustion, PathIOError for an OS error
    want = []
    for j, step in enumerate(plan):
        if step == 0:
            want.append(("item", entries[j]))
        else:
            want.append(("raise", stop if step == 1 else pio))
            break
    ctx.check(f"{name}/exit:sync-lister-yields-the-scan-in-order-then-stops-and-wraps-os-errors", z3.BoolVal(s == want), info=T18)
    if any(x == ("timeout",) for x in a):
        ok = it.unbox(S.vars["timeout"]) is not None and a[: len(a) - 1] == want[: len(a) - 1] and res["async"][0][-1][1].cls is pio
        ctx.check(f"{name}/exit:an-expired-path_timeout-is-a-PathIOError", z3.BoolVal(bool(ok)), info=T18)
        return
    ctx.check(f"{name}/exit:async-lister-yields-the-same-as-the-sync-one", z3.BoolVal(a == s), info=T18)
    ctx.check(f"{name}/exit:same-file-system-calls", z3.BoolVal(res["sync"][1] == res["async"][1] and res["sync"][1][:1] == [("glob", ("*",))]), info=T18)


c = contract(PATHIO, "PathIO.list", props=["C18"], name="PathIO-vs-AsyncPathIO.list")
c.setup = setup_lister
c.raises = {"BaseException": []}
c.exit_hook = lister_exit
c.assumptions.append("B-scan: the first two steps of the directory scan (entry / exhausted / OS error each); T-aio run_in_executor as for the other methods")
