"""C20 — passwords never reach the logs.

Non-interference is established structurally per log sink: every log record emitted while the secret is in scope is a
function of (public data, len(secret)) — the secret occurs in the payload only as "*" * len(secret)."""
import ast
import os

import z3

from contracts import server_units  # noqa: F401
from pyvc import strmodel
from pyvc.core import SV, PathEnd, PyRaise, as_int, fresh
from pyvc.session import Reader, Writer
from pyvc.strmodel import f_lower, f_rstrip, f_stars
from pyvc.unit import LoopSpec, contract
from pyvc.values import Builtin, Coro, Obj

SERVER = "aioftp.server"
CLIENT = "aioftp.client"
T20 = {"props": ["C20"]}


def logs(ctx):
    return [e for e in ctx.events if e[0] == "log"]


def depends_on(term_or_val, sym):
    """does the z3 term syntactically mention the constant `sym`?"""
    if isinstance(term_or_val, SV):
        t = term_or_val.t
    elif z3.is_expr(term_or_val):
        t = term_or_val
    else:
        return False
    seen, stack = set(), [t]
    while stack:
        x = stack.pop()
        if x.get_id() in seen:
            continue
        seen.add(x.get_id())
        if x.eq(sym):
            return True
        stack.extend(x.children())
    return False


# ------------------------------------------------------------------------------------ Server.parse_command
def setup_parse_command(u):
    it = u.it
    srv = Obj(u.cls(SERVER, "Server"), tag="server")
    srv.fields["encoding"] = "utf-8"
    verb = fresh("str", "verb")  # any spelling
    secret = fresh("str", "secret")
    A = u.assume
    A(z3.Not(z3.Contains(verb.t, z3.StringVal(" "))))
    A(z3.Length(verb.t) > 0)
    A(f_rstrip(verb.t) == verb.t)
    # the line a client sends: VERB SP argument CRLF — the argument is the secret when the verb is PASS
    sep = u.choose(2, "has-argument") == 0
    line = z3.Concat(verb.t, z3.StringVal(" "), secret.t) if sep else verb.t
    if sep:
        A(f_rstrip(secret.t) == secret.t)  # carrier: a password the line protocol can carry (no trailing whitespace)
        A(z3.Length(secret.t) > 0)
    # T-str (rstrip lemma): rstrip(a ++ b ++ CRLF) == a ++ b for b without trailing whitespace, b != ""
    A(f_rstrip(z3.Concat(line, z3.StringVal("\r\n"))) == line)
    r = Reader("control", incoming=z3.Concat(strmodel.f_encode(z3.Concat(line, z3.StringVal("\r\n"))), fresh("bytes", "later").t))
    A(strmodel.f_decode(strmodel.f_encode(z3.Concat(line, z3.StringVal("\r\n")))) == z3.Concat(line, z3.StringVal("\r\n")))
    A(strmodel.f_decodable(strmodel.f_encode(z3.Concat(line, z3.StringVal("\r\n")))))
    stream = Obj(u.cls("aioftp.common", "StreamIO"), tag="stream")
    stream.fields.update(reader=r, writer=Writer("control"), read_timeout=None, write_timeout=None)
    # the reader hands over exactly that line (T-aio readline)
    orig = r.getattr

    def getattr_(i, name):
        if name == "readline":

            def rl(i2, a, k):
                def run():
                    i2.suspend("readline")
                    return SV("bytes", strmodel.f_encode(z3.Concat(line, z3.StringVal("\r\n"))))

                return Coro(run, "readline")

            return Builtin("readline", rl)
        return orig(i, name)

    r.getattr = getattr_
    f = it.getattr_(srv, "parse_command")
    return f, [stream], {}, {"self": srv, "verb": verb, "secret": secret, "sep": sep, "line": line}


c = contract(SERVER, "Server.parse_command", props=["C20", "C08"])
c.setup = setup_parse_command
c.opts = {"feas_timeout_ms": 500, "solve_budget_s": 60}
c.assumptions.append("T-str: rstrip lemma for the terminator; lower() is uninterpreted (any spelling of the verb is covered because the censoring test is on lower(cmd))")
c.raises_("ConnectionResetError")


def pc_post_split(S):
    """C08 lemma 1: the argument survives verbatim (first-space split; leading spaces of the argument are kept)"""
    it = S.it
    cmd, rest = S.result
    verb, secret = S.vars["verb"].t, S.vars["secret"].t
    want_rest = secret if S.vars["sep"] else z3.StringVal("")
    return z3.And(it.unbox(cmd).t == f_lower(verb) if isinstance(it.unbox(cmd), SV) else False, (it.unbox(rest).t if isinstance(it.unbox(rest), SV) else z3.StringVal(it.unbox(rest))) == want_rest)


def pc_post_logs(S):
    """exactly one record; when lower(verb) == 'pass' its arguments are (fmt, verb, '*' * len(secret))"""
    it = S.it
    L = logs(it.ctx)
    if len(L) != 1:
        return False
    args = L[0][2]
    verb, secret = S.vars["verb"].t, S.vars["secret"].t
    is_pass = f_lower(verb) == z3.StringVal("pass")
    if len(args) != 3 or args[0] != "%s %s":
        return False
    a1 = it.unbox(args[1])
    a2 = it.unbox(args[2])
    a1t = a1.t if isinstance(a1, SV) else z3.StringVal(a1)
    a2t = a2.t if isinstance(a2, SV) else z3.StringVal(a2)
    if not S.vars["sep"]:
        return z3.And(a1t == verb, a2t == z3.StringVal(""))  # no argument: nothing to hide, nothing logged
    return z3.And(a1t == verb, z3.Implies(is_pass, a2t == f_stars(z3.Length(secret))))


c.ensures(pc_post_split, "splits-at-the-first-space-and-lowercases-only-the-verb", props=["C08", "C20"])
c.ensures(pc_post_logs, "PASS-argument-is-logged-only-as-stars-of-its-length", props=["C20"])


# ------------------------------------------------------------------------------------ BaseClient.command
def setup_command(u):
    it = u.it
    cl = Obj(u.cls(CLIENT, "BaseClient"), tag="client")
    cl.fields["encoding"] = "utf-8"
    w = Writer("control")
    stream = Obj(u.cls("aioftp.common", "StreamIO"), tag="stream")
    stream.fields.update(reader=Reader("control"), writer=w, read_timeout=None, write_timeout=None)
    cl.fields["stream"] = stream
    public = fresh("str", "public_prefix")
    secret = fresh("str", "secret")
    k = fresh("int", "censor_after")
    u.assume(z3.And(k.t == z3.Length(public.t), k.t > 0))
    cmd = SV("str", z3.Concat(public.t, secret.t))
    f = it.getattr_(cl, "command")
    # no reply is awaited: expected_codes / wait_codes empty (the reply path is C06)
    return f, [cmd], {"censor_after": k}, {"self": cl, "public": public, "secret": secret, "k": k, "writer": w}


c = contract(CLIENT, "BaseClient.command", props=["C20"])
c.setup = setup_command
c.raises_("OSError")


def cmd_post_logs(S):
    it = S.it
    L = logs(it.ctx)
    if len(L) != 1:
        return False
    args = L[0][2]
    if len(args) != 3 or args[0] != "%s%s":
        return False
    a1, a2 = it.unbox(args[1]).t, it.unbox(args[2]).t
    return z3.And(a1 == S.vars["public"].t, a2 == f_stars(z3.Length(S.vars["secret"].t)))


c.ensures(cmd_post_logs, "logs-the-public-prefix-and-stars-for-the-rest")
c.ensures(lambda S: S.vars["writer"].written == strmodel.f_encode(z3.Concat(S.vars["public"].t, S.vars["secret"].t, z3.StringVal("\r\n"))), "sends-the-command-unaltered")

# summary of command for Client.login: records (command, censor_after)
cs_ = contract(CLIENT, "BaseClient.command", props=[], name="BaseClient.command#summary")
cs_.self_check = False


def command_summary_result(S):
    it = S.it
    it.ctx.event("command", S.vars["command"], S.vars["censor_after"])
    code = fresh("str", "reply_code")
    it.ctx.assume(z3.InRe(code.t, z3.Loop(z3.Range("0", "9"), 3, 3)))
    it.ctx.assume(z3.Length(code.t) == 3)
    co = Obj(it.modules[CLIENT].attrs["Code"])
    co.fields["__value__"] = code
    return (co, ["info"])


cs_.result_shape = command_summary_result
cs_.may_suspend = True
cs_.raises_("StatusCodeError")


def setup_login(u):
    it = u.it
    cl = Obj(u.cls(CLIENT, "Client"), tag="client")
    user, password, account = fresh("str", "user"), fresh("str", "password"), fresh("str", "account")
    f = it.getattr_(cl, "login")
    return f, [user, password, account], {}, {"self": cl, "password": password}


c = contract(CLIENT, "Client.login", props=["C20"])
from contracts.c06_framing import code_info_locals  # noqa: E402

c.alias_resolver = code_info_locals("command")
c.setup = setup_login
c.uses = [(CLIENT, "BaseClient.command#summary")]
c.raises_("StatusCodeError")
c.loop(0, LoopSpec(invariants=[("every-command-carrying-the-password-so-far-was-censored", lambda S: login_all_censored(S))], shapes={"code": lambda it: command_summary_result_code(it), "info": lambda it: ["info"]}))


def command_summary_result_code(it):
    code = fresh("str", "reply_code")
    it.ctx.assume(z3.Length(code.t) == 3)
    co = Obj(it.modules[CLIENT].attrs["Code"])
    co.fields["__value__"] = code
    return co


def login_all_censored(S):
    it = S.it
    us = it.ctx.unit_state
    pw = us.vars["password"].t
    ok = []
    for e in it.ctx.events:
        if e[0] != "command":
            continue
        cmd, k = it.unbox(e[1]), it.unbox(e[2])
        if not depends_on(cmd, pw):
            continue
        if k is None:
            return False
        kt = as_int(k)
        # the uncensored prefix is a constant: it cannot carry any part of the password
        ok.append(z3.And(kt > 0, z3.SubString(cmd.t, 0, kt) == z3.StringVal("PASS "), cmd.t == z3.Concat(z3.StringVal("PASS "), pw)))
    return z3.And(*ok) if ok else True


c.ensures(login_all_censored, "every-command-carrying-the-password-is-sent-with-the-password-censored")


# ------------------------------------------------------------------------------------ sink audit
AUDITED = {
    ("client.py", "BaseClient.parse_line"): "logs the received reply line (server text; C20 server side keeps replies password-free)",
    ("client.py", "BaseClient.command"): "under contract (BaseClient.command)",
    ("server.py", "Server.start"): "host/port only",
    ("server.py", "Server.close"): "a count",
    ("server.py", "Server.write_line"): "reply lines: constants or public data (handler units: PASS replies are constant texts)",
    ("server.py", "Server.parse_command"): "under contract (Server.parse_command)",
    ("server.py", "Server.dispatcher"): "peer address; 'dispatcher caught exception' with traceback (exception text: see not_decided)",
    ("server.py", "Server.list.<locals>.list_worker"): "a path",
}


def sink_audit(tier, seed):
    """every logger.* call site of the package lies in an audited function (a new sink is an undischarged obligation)"""
    repo = os.environ.get("AIOFTP_REPO", "/repo")
    out = {"summary": "", "violations": [], "undecided": [], "evaluations": 0}
    found = {}
    for fn in ("server.py", "client.py", "common.py", "pathio.py", "errors.py"):
        src = open(os.path.join(repo, "src", "aioftp", fn)).read()
        tree = ast.parse(src)

        def walk(node, qual):
            for ch in ast.iter_child_nodes(node):
                if isinstance(ch, (ast.FunctionDef, ast.AsyncFunctionDef)):
                    q = (qual + ("." if qual and not qual.endswith(".") else "") + ch.name) if qual else ch.name
                    walk(ch, q + ".<locals>")
                elif isinstance(ch, ast.ClassDef):
                    walk(ch, (qual + "." if qual else "") + ch.name)
                else:
                    if isinstance(ch, ast.Call) and isinstance(ch.func, ast.Attribute) and isinstance(ch.func.value, ast.Name) and ch.func.value.id in ("logger", "logging") and ch.func.attr in ("debug", "info", "warning", "error", "exception", "critical", "log"):
                        q = qual[: -len(".<locals>")] if qual.endswith(".<locals>") else qual
                        found.setdefault((fn, q), []).append(ch.lineno)
                    walk(ch, qual)

        walk(tree, "")
        # any other way to reach the logging module
        for n in ast.walk(tree):
            if isinstance(n, ast.Call) and isinstance(n.func, ast.Name) and n.func.id == "print":
                found.setdefault((fn, "<print>"), []).append(n.lineno)
    out["evaluations"] = sum(len(v) for v in found.values())
    for key, lines in sorted(found.items()):
        if key not in AUDITED:
            # not a violation: a log call in a function the audit table does not know (new, moved or renamed) has simply
            # not been decided - the check is then undecided (exit 2) until the function is put under the audit
            out["undecided"].append(f"log sink not audited: {key[0]}:{key[1]} (lines {lines}) - a logging call in a function that is not under the C20 audit")
    out["summary"] = f"log sinks: {out['evaluations']} call sites in {len(found)} functions, all audited={not out['violations']}"
    out["bounded"] = {"checker": "contracts.c20_logs.sink_audit", "what": "enumeration of logging call sites from the AST", "cases": out["evaluations"], "label": "exhaustive (finite)"}
    return out


# ------------------------------------------------------------------------------------ parse_command on undecodable PASS lines
def setup_parse_command_raw(u):
    """PASS followed by bytes that are not valid in the server's encoding (e.g. a Latin-1 client): whatever the
    server does with such a line, no log record may depend on those bytes"""
    it = u.it
    srv = Obj(u.cls(SERVER, "Server"), tag="server")
    srv.fields["encoding"] = "utf-8"
    verb = fresh("str", "verb")
    junk = fresh("bytes", "secret_bytes")
    u.assume(f_lower(verb.t) == z3.StringVal("pass"))
    raw = z3.Concat(strmodel.f_encode(z3.Concat(verb.t, z3.StringVal(" "))), junk.t, z3.StringVal("\r\n"))
    u.assume(z3.Not(strmodel.f_decodable(raw)))
    r = Reader("control")
    stream = Obj(u.cls("aioftp.common", "StreamIO"), tag="stream")
    stream.fields.update(reader=r, writer=Writer("control"), read_timeout=None, write_timeout=None)
    orig = r.getattr

    def getattr_(i, name):
        if name == "readline":

            def rl(i2, a, k):
                def run():
                    i2.suspend("readline")
                    return SV("bytes", raw)

                return Coro(run, "readline")

            return Builtin("readline", rl)
        return orig(i, name)

    r.getattr = getattr_
    return it.getattr_(srv, "parse_command"), [stream], {}, {"self": srv, "junk": junk}


c = contract(SERVER, "Server.parse_command", props=["C20", "C19"], name="Server.parse_command#undecodable-PASS")
c.setup = setup_parse_command_raw
c.raises = {"Exception": []}


def raw_exit(S, outcome):
    it = S.it
    j = S.vars["junk"].t
    bad = [e for e in logs(it.ctx) if any(depends_on(a, j) for a in e[2])]
    it.ctx.check("Server.parse_command/exit:no-log-record-depends-on-undecodable-PASS-bytes", z3.BoolVal(not bad), info=T20)


c.exit_hook = raw_exit
