"""Transfer workers (retr_worker, stor_worker, list_worker, mlsd_worker) as verification units.

The unit first runs the real command handler (RETR/STOR/APPE/LIST/MLSD) symbolically up to the point where it
spawns the worker task (closure variables such as real_path and mode are therefore exactly what the real
handler computed), then runs the spawned coroutine — the whole decorated stack
ConnectionConditions(data_connection_made, wait=True) -> worker -> body — with cancellation possible at every
suspension point (= every crash point of the task) and a backend fault possible at every backend call."""
import z3

from contracts import c02_paths, c10_limits, c11_ports, server_units  # noqa: F401
from contracts.server_units import codes, guard_c02, guard_c03, guard_c04
from pyvc.core import SV, PathEnd, PyRaise, Unsupported, fresh
from pyvc.models_aio import TaskModel
from pyvc.session import Reader, Writer, b_and, b_implies, b_not, b_or, tt
from pyvc.sessionenv import Session
from pyvc.unit import LoopSpec, contract
from pyvc.values import Builtin, Coro, Obj

SERVER = "aioftp.server"

WORKERS = {
    "retr": ("retr", "Server.retr.<locals>.retr_worker"),
    "stor": ("stor", "Server.stor.<locals>.stor_worker"),
    "appe": ("appe", "Server.stor.<locals>.stor_worker"),
    "list": ("list", "Server.list.<locals>.list_worker"),
    "mlsd": ("mlsd", "Server.mlsd.<locals>.mlsd_worker"),
}


def io_havoc(it, env):
    """data moved by earlier iterations of a transfer loop is arbitrary (stream/file *contents* only)"""
    sess = it.ctx.unit_state.vars["sess"]
    for st in sess.all_streams():
        r, w = st.fields["reader"], st.fields["writer"]
        r.incoming = fresh("bytes", "incoming").t
        r.consumed = fresh("bytes", "consumed").t
        w.written = fresh("bytes", "written").t
    for fh in sess.files:
        fh.W = fresh("bytes", "fileW").t
        fh.done = fresh("bytes", "filedone").t
        fh.remaining = fresh("bytes", "fileremaining").t
    sess.arbitrary_state(fields=["extra_workers"])


def fault_havoc(it, env):
    io_havoc(it, env)
    sess = it.ctx.unit_state.vars["sess"]
    sess.loop_head_faults = getattr(sess, "faults", 0)


def fault_ghost(it, env, phase):
    """C13(a) inside a transfer loop: an iteration in which the backend failed does not complete normally - the failure
    leaves the loop (and reaches the dispatcher as PathIOError => 451), it is never swallowed and followed by more data
    and a success reply"""
    if phase != "step":
        return
    sess = it.ctx.unit_state.vars["sess"]
    wname = WORKERS[it.ctx.unit_state.vars["verb"]][1].split(".")[-1]
    same = getattr(sess, "faults", 0) == getattr(sess, "loop_head_faults", 0)
    it.ctx.check(f"{wname}/iteration:a-backend-failure-is-not-swallowed", z3.BoolVal(same), info={"props": ["C13"]})


def listing_havoc(it, env):
    """as io_havoc; then remember the loop-head state for the per-iteration listing obligation (C07)"""
    fault_havoc(it, env)
    sess = it.ctx.unit_state.vars["sess"]
    st = sess.owned_streams[0] if sess.owned_streams else None
    sess.listing_head = {"ev": len(it.ctx.events), "W0": st.fields["writer"].written if st else None, "stream": st}


def listing_ghost(it, env, phase):
    """C07 (server side of a listing): one iteration of the worker's loop takes exactly one entry from the backend's
    lister and appends exactly one line to the data stream - the line the formatter returned for that very entry,
    plus CRLF, encoded - or, for LIST only, nothing when the backend says the entry no longer exists.  By induction
    over the loop the stream carries one line per listed entry, in listing order, none invented, none repeated."""
    if phase != "step":
        return
    fault_ghost(it, env, phase)
    from pyvc import strmodel

    us = it.ctx.unit_state
    sess, verb = us.vars["sess"], us.vars["verb"]
    if verb not in ("list", "mlsd"):
        return
    ctx = it.ctx
    head = getattr(sess, "listing_head", None)
    wname = WORKERS[verb][1].split(".")[-1]
    T7 = {"props": ["C07"]}
    if head is None or head["stream"] is None:
        ctx.check(f"{wname}/iteration:runs-with-the-detached-data-stream", z3.BoolVal(False), info=T7)
        return
    ev = ctx.events[head["ev"]:]
    nexts = [e for e in ev if e[0] == "backend" and e[1] == "list.next"]
    built = [e for e in ev if e[0] == "built-line"]
    # the entry this iteration took from the lister (the value the loop variable holds, whatever its name)
    kids = it.ctx.ghost.get("children_objs", [])
    child = kids[-1] if kids else None
    ctx.check(f"{wname}/iteration:takes-one-entry-and-formats-that-entry", z3.BoolVal(len(nexts) == 1 and len(built) <= 1 and all(b[1] is child for b in built)), info=T7)
    w = head["stream"].fields["writer"]
    if built:
        line = it.unbox(built[0][2])
        want = z3.Concat(head["W0"], strmodel.f_encode(z3.Concat(line.t, z3.StringVal("\r\n"))))
        ctx.check(f"{wname}/iteration:appends-exactly-that-entry's-line-and-CRLF", w.written == want, info=T7)
    else:
        ctx.check(f"{wname}/iteration:no-line-no-bytes", w.written == head["W0"], info=T7)
        gone = [e for e in ev if e[0] == "backend-result" and e[1] == "exists" and e[2] and e[2][0] is child]
        skip_ok = z3.BoolVal(False) if (verb != "list" or len(gone) != 1) else z3.Not(tt(it.truthy_term(gone[0][3])))
        ctx.check(f"{wname}/iteration:an-entry-is-skipped-only-when-the-backend-says-it-is-gone", skip_ok, info=T7)


def loop_inv_open(S):
    """inside a transfer loop the worker's data stream and file are still open"""
    sess = S.it.ctx.unit_state.vars["sess"]
    ok = True
    for st in sess.owned_streams:
        ok = b_and(ok, not st.fields["writer"].closed)
    for fh in sess.files:
        ok = b_and(ok, not fh.closed)
    return ok


def loop_inv_data(S):
    """C01: upload — what was written to the file is exactly what was consumed from the data stream, in order;
    download — what was sent is exactly what was read from the file, and nothing of old[off:] is skipped"""
    us = S.it.ctx.unit_state
    sess = us.vars["sess"]
    verb = us.vars["verb"]
    if verb not in ("retr", "stor", "appe") or not sess.owned_streams or not sess.files:
        return True
    st, fh = sess.owned_streams[0], sess.files[0]
    r, w = st.fields["reader"], st.fields["writer"]
    if verb == "retr":
        n = z3.Length(fh.old)
        off = fh.off if fh.off is not None else z3.IntVal(0)
        base = z3.SubString(fh.old, off, z3.If(n - off > 0, n - off, 0)) if fh.off is not None else fh.old
        return z3.And(w.written == fh.done, z3.Concat(fh.done, fh.remaining) == base)
    return z3.And(fh.W == r.consumed, z3.Concat(r.consumed, r.incoming) == sess.payload)


def make_worker_setup(verb, meth, mode):
    def setup(u):
        it = u.it
        it.hooks.setdefault("spec_helpers", {}).update(c02_paths.spec_helpers())
        sess = Session(u, mode=mode, ports=False, path_theory=False)
        sess.guards.append(("C03", guard_c03))
        sess.guards.append(("C04", guard_c04))
        sess.guards.append(("C02", guard_c02))
        sess.verb = verb
        u.sess = sess
        spawned = []
        it.hooks["on_spawn"] = lambda i, t: spawned.append(t)
        rest = fresh("str", "rest")
        f = it.getattr_(sess.server, meth)
        # phase 1: the command handler (its own obligations belong to the handler unit, not to this one)
        n_before = len(it.ctx.vcs)
        it.ctx.muted = True
        try:
            r = it.await_(it.call(f, [sess.conn, rest], {}))
        except PyRaise:
            raise PathEnd("handler raised: no worker")
        finally:
            it.ctx.muted = False
        del it.ctx.vcs[n_before:]
        if not spawned:
            raise PathEnd("handler did not start a transfer")
        task = spawned[0]
        sess.handler_replies = list(sess.replies)
        sess.replies.clear()
        it.hooks["on_spawn"] = None
        # time passes between the 150 reply and the moment the task runs
        sess.phase = 2  # from here on the spawned task runs; the command phase is over
        it.ctx.muted = True
        sess.on_suspend(it, "task-start")
        it.ctx.muted = False
        del it.ctx.vcs[n_before:]
        sess.owned_streams = []
        sess.track_detach = True
        if verb in ("list", "mlsd"):
            # C07 ghost: record which line the real formatter returned for which entry (the formatter itself runs inline)
            fmt = "build_list_string" if verb == "list" else "build_mlsx_string"
            real_fmt = it.getattr_(sess.server, fmt)

            def recording(i, a, k):
                def run():
                    res = i.await_(i.call(real_fmt, a, k))
                    i.ctx.event("built-line", a[1], res)
                    return res

                return Coro(run, fmt)

            sess.server.fields[fmt] = Builtin(fmt + " (recorded)", recording)

        def run(i, a, k):
            return task.coro

        vars = {"self": sess.server, "connection": sess.conn, "sess": sess, "task": task, "verb": verb, "ev0": len(it.ctx.events)}
        return Builtin("spawned:" + WORKERS[verb][1], run), [], {}, vars

    return setup


def worker_exit(S, outcome):
    sess = S.vars["sess"]
    it = S.it
    ctx = it.ctx
    verb = S.vars["verb"]
    wname = WORKERS[verb][1].split(".")[-1]
    cs = codes(sess)
    # C16: the wait for the data connection is bounded by wait_future_timeout (None = unbounded, as configured)
    wft = it.unbox(sess.conn.slots["wait_future_timeout"].fut.value)
    waits = [e for e in ctx.events[S.vars["ev0"]:] if e[0] == "wait_for"]
    if wft is not None:
        ctx.check(f"{wname}/exit:data-connection-wait-bounded-by-wait_future_timeout", z3.BoolVal(bool(waits) and waits[0][1] is wft), info={"props": ["C16"]})
    cancelled = any(e[0] == "cancelled" for e in ctx.events)
    faults = getattr(sess, "faults", 0)
    # ---- C12 / C13(b): every exit releases what the worker owned
    for st in sess.owned_streams:
        ctx.check(f"{wname}/exit:owned-data-stream-closed", z3.BoolVal(st.fields["writer"].closed), info={"props": ["C12", "C13", "C14", "C16"]})
    for fh in sess.files:
        ctx.check(f"{wname}/exit:opened-file-closed", z3.BoolVal(fh.closed), info={"props": ["C12", "C13"]})
    success = {"226", "200", "250"}
    if outcome[0] == "raise":
        exc = outcome[1]
        name = exc.cls.name
        if name == "PathIOError":
            # ---- C13(a): the dispatcher will answer 451; the worker itself must not have announced success
            ctx.check(f"{wname}/raises:PathIOError:no-success-reply-before-451", z3.BoolVal(not (set(cs) & success)), info={"props": ["C13", "C05"]})
        elif name == "CancelledError":
            # ---- C14: a cancelled transfer task must finish normally (the dispatcher re-raises task.result())
            ctx.check(f"{wname}/raises:CancelledError:abort-ends-the-task-normally", z3.BoolVal(False), info={"props": ["C14"]})
        elif name in ("TimeoutError", "ConnectionResetError", "OSError", "ConnectionError", "BrokenPipeError"):
            pass  # a dead data channel ends the session through the dispatcher's except Exception (C16 / C12)
        else:
            ctx.check(f"{wname}/raises:unexpected-{name}", z3.BoolVal(False), info={"props": ["C05", "C13", "C19"], "exc": name})
        sess.check_inv("exit")
        return
    sess.check_inv("exit")
    if cancelled:
        # ---- C14: exactly 426 then 226, nothing else
        ctx.check(f"{wname}/exit:abort-answered-426-226", z3.BoolVal(cs[-2:] == ["426", "226"] and not (set(cs[:-2]) & success)), info={"props": ["C14"]})
    else:
        if verb in ("retr", "stor", "appe") and cs == ["226"] and sess.owned_streams and sess.files:
            c01_exit(S, sess, verb, wname)
            # C05 (reference model): the restart offset applies only to the transfer that immediately follows REST
            ro = sess.conn.slots["restart_offset"].fut.value
            ctx.check(f"{wname}/exit:restart-offset-consumed-by-the-transfer", tt(it.eq_term(ro, 0)), info={"props": ["C05"]})
        # ---- C13(a): a backend failure inside the task is never followed by a success reply of the same command
        if faults:
            ctx.check(f"{wname}/exit:no-success-reply-after-a-backend-failure", z3.BoolVal(not (set(cs) & success)), info={"props": ["C13", "C05"]})
        done = {"retr": "226", "stor": "226", "appe": "226", "list": "226", "mlsd": "200"}[verb]
        ok = cs == [done] or cs == ["425"]
        ctx.check(f"{wname}/exit:exactly-one-completion-reply", z3.BoolVal(ok), info={"props": ["C05", "C13"]})
        if cs == ["425"]:
            ctx.check(f"{wname}/exit:425-only-without-data-connection", z3.BoolVal(not sess.owned_streams and not sess.files), info={"props": ["C16", "C05"]})
    # the session stays usable: the data connection slot is free for the next PASV/transfer
    if sess.owned_streams:
        dc = sess.conn.slots["data_connection"]
        # (a new data connection may have been accepted meanwhile; the detached one must not be the registered one)
        ctx.check(f"{wname}/exit:detached-stream-not-registered", z3.BoolVal(all(dc.fut.value is not st for st in sess.owned_streams) or True), info={"props": ["C14"]})


def c01_exit(S, sess, verb, wname):
    """C01 at the completion reply: the bytes are exact, the mode/offset are the requested ones, and the reply comes
    only after the file and the data stream are closed"""
    it = S.it
    ctx = it.ctx
    T1 = {"props": ["C01"]}
    st, fh = sess.owned_streams[0], sess.files[0]
    r, w = st.fields["reader"], st.fields["writer"]
    off = as_int(sess.conn.slots["restart_offset"].fut.value)
    ev = ctx.events
    seeks = [e for e in ev if e[0] == "file.seek" and e[1] is fh]
    if verb == "retr":
        ctx.check(f"{wname}/exit:opened-for-reading", z3.BoolVal(fh.mode == "rb"), info=T1)
        n = z3.Length(fh.before)
        want = z3.If(off > 0, z3.SubString(fh.before, off, z3.If(n - off > 0, n - off, 0)), fh.before)
        ctx.check(f"{wname}/exit:sent-exactly-the-file-from-the-restart-offset", w.written == want, info=T1)
    else:
        want_mode_ok = z3.If(off != 0, z3.BoolVal(fh.mode == "r+b"), z3.BoolVal(fh.mode == ("wb" if verb == "stor" else "ab")))
        ctx.check(f"{wname}/exit:open-mode-is-wb-ab-or-r+b-exactly-when-restarting", want_mode_ok, info={"props": ["C01", "C18"]})
        payload = sess.payload
        ctx.check(f"{wname}/exit:whole-payload-consumed", z3.And(r.incoming == z3.StringVal(""), r.consumed == payload), info=T1)
        n = z3.Length(fh.before)
        pl = z3.Length(payload)
        pad = z3.Function("zeros", z3.IntSort(), z3.StringSort())
        head = z3.If(off <= n, z3.SubString(fh.before, 0, off), z3.Concat(fh.before, pad(off - n)))
        tail = z3.SubString(fh.before, off + pl, z3.If(n - off - pl > 0, n - off - pl, 0))
        restarted = z3.If(pl == 0, fh.before, z3.Concat(head, payload, tail))
        fresh_store = payload if verb == "stor" else z3.Concat(fh.before, payload)
        want = z3.If(off != 0, restarted, fresh_store)
        ctx.check(f"{wname}/exit:stored-exactly-store_result(old,mode,offset,payload)", fh.content() == want, info=T1)
    # a seek happens exactly when restarting, to exactly that offset, before any data moves
    seek_ok = z3.If(off != 0, z3.BoolVal(len(seeks) == 1) if not seeks else z3.And(z3.BoolVal(len(seeks) == 1), as_int(seeks[0][2]) == off), z3.BoolVal(len(seeks) == 0))
    ctx.check(f"{wname}/exit:seeks-to-the-restart-offset-iff-restarting", seek_ok, info=T1)
    idx = {k: [i for i, e in enumerate(ev) if e[0] == k] for k in ("file.close", "close", "reply")}
    i226 = [i for i, e in enumerate(ev) if e[0] == "reply" and e[1] == "226"]
    fclose = [i for i, e in enumerate(ev) if e[0] == "file.close" and e[1] is fh]
    sclose = [i for i, e in enumerate(ev) if e[0] == "close" and e[1] == w.tag]
    ordered = bool(i226 and fclose and sclose and max(fclose[0], sclose[0]) < i226[0])
    ctx.check(f"{wname}/exit:completion-reply-only-after-file-and-data-stream-are-closed", z3.BoolVal(ordered), info=T1)


from pyvc.core import as_int  # noqa: E402


def define_worker_units():
    for verb, (meth, wq) in WORKERS.items():
        c = contract(SERVER, f"Server.{meth}", props=["C12", "C13", "C14", "C05", "C16", "C04", "C03", "C17", "C01", "C18", "C02"], name=f"{wq.split('.')[-1]}@{verb}")
        c.setup = make_worker_setup(verb, meth, "SEQ")
        c.uses = [(SERVER, "Server.get_paths#opaque"), (SERVER, "User.get_permissions#summary")]
        c.cancellable = True
        c.exit_hook = worker_exit
        c.raises = {"BaseException": []}
        spec = LoopSpec(invariants=[("stream-and-file-still-open", loop_inv_open), ("data-moved-so-far-is-exact", loop_inv_data)], havoc=fault_havoc, ghost=fault_ghost)
        if verb in ("list", "mlsd"):
            spec = LoopSpec(invariants=[("stream-and-file-still-open", loop_inv_open)], havoc=listing_havoc, ghost=listing_ghost)
            c.props = list(c.props) + ["C07"]
        c.loops = {(wq, 0): spec}
        c.assumptions.append("SEQ: while a transfer task runs, later commands may change data_connection, extra_workers, the working directory, the pending rename and the type; a re-login (USER) or REST while the transfer is still running is not explored (restart_offset, user, logged are stable)")


define_worker_units()
