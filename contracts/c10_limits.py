"""C10 — connection limits: AvailableConnections, greeting, MemoryUserManager, user(), dispatcher finally."""
import z3

from pyvc.core import SV, fresh
from pyvc.unit import LoopSpec, contract

SERVER = "aioftp.server"


def ac_state(u, hint="ac"):
    """an AvailableConnections object in an arbitrary state satisfying its class invariant:
    value is None <=> maximum_value is None;  0 <= value <= maximum_value otherwise"""
    from pyvc.interp import LazyLinked, LazyOpt

    cls = u.cls(SERVER, "AvailableConnections")
    m = u.int(hint + "_max")
    v = LazyOpt(u.it, "int", hint + "_value", constraint=lambda x: z3.And(x.t >= 0, x.t <= m.t))
    return u.new(cls, value=v, maximum_value=LazyLinked(v, m))


AC_INV = "self.value is None and self.maximum_value is None or (self.value is not None and self.maximum_value is not None and 0 <= self.value <= self.maximum_value)"


def _setup_method(name):
    def setup(u):
        ac = ac_state(u)
        f = u.it.getattr_(ac, name)
        return f, [], {}, {"self": ac}

    return setup


# ---- locked()
c = contract(SERVER, "AvailableConnections.locked", props=["C10"])
c.setup = _setup_method("locked")
c.pure = True
c.result_shape = lambda S: fresh("bool", "locked")
c.ensures("result == (self.value is not None and self.value == 0)", "locked-iff-zero")
c.ensures(AC_INV, "inv")

# ---- acquire()
c = contract(SERVER, "AvailableConnections.acquire", props=["C10"])
c.setup = _setup_method("acquire")
c.requires(AC_INV, "inv")
c.old("value", "self.value")
c.modifies = lambda S: [(S.self, "value", "int")] if S.it.unbox(S.self.fields["value"]) is not None else []
# the slot is taken iff one was free; the counter never goes below 0 on a normal return
c.ensures("self.value is None if old_value is None else (old_value > 0 and self.value == old_value - 1)", "takes-exactly-one")
c.ensures(AC_INV, "inv")
c.ensures("self.maximum_value is old_max if old_max is None else self.maximum_value == old_max", "max-unchanged")
c.old("max", "self.maximum_value")
# refused exactly when full (a refusal leaves the object unusable: value == -1, see greeting/get_user which
# must test locked() first — their contracts carry that obligation as acquire's call-site precondition)
c.raises_("ValueError", "old_value is not None and old_value == 0", "only-when-full")

# ---- release()
c = contract(SERVER, "AvailableConnections.release", props=["C10"])
c.setup = _setup_method("release")
c.requires(AC_INV, "inv")
c.old("value", "self.value")
c.old("max", "self.maximum_value")
c.modifies = lambda S: [(S.self, "value", "int")] if S.it.unbox(S.self.fields["value"]) is not None else []
c.ensures("self.value is None if old_value is None else (old_value < old_max and self.value == old_value + 1)", "returns-exactly-one")
c.ensures(AC_INV, "inv")
c.raises_("ValueError", "old_value is not None and old_value == old_max", "only-when-nothing-taken")
