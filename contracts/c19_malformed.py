"""C19 — malformed input is contained: exception-set contracts of Server.parse_command (any bytes) and of the
client's passive-reply parsers."""
import z3

from pyvc import strmodel
from pyvc.core import SV, fresh
from pyvc.session import Reader, Writer
from pyvc.unit import contract
from pyvc.values import Builtin, Coro, Obj

SERVER = "aioftp.server"
CLIENT = "aioftp.client"
T19 = {"props": ["C19"]}


def setup_parse_command_any(u):
    it = u.it
    srv = Obj(u.cls(SERVER, "Server"), tag="server")
    srv.fields["encoding"] = "utf-8"
    stream = Obj(u.cls("aioftp.common", "StreamIO"), tag="stream")
    stream.fields.update(reader=Reader("control"), writer=Writer("control"), read_timeout=None, write_timeout=None)
    return it.getattr_(srv, "parse_command"), [stream], {}, {"self": srv}


c = contract(SERVER, "Server.parse_command", props=["C19"], name="Server.parse_command#any-bytes")
c.setup = setup_parse_command_any
c.raises = {"BaseException": []}
c.opts = {"feas_timeout_ms": 300}


def pc_any_exit(S, outcome):
    it = S.it
    if outcome[0] == "raise":
        en = outcome[1].cls
        # undecodable bytes, an over-long line, a vanished peer: ordinary exceptions that end *this* session through the
        # dispatcher's except Exception / finally; nothing else may come out of the reader
        allowed = ("UnicodeDecodeError", "ValueError", "ConnectionResetError", "OSError", "TimeoutError")
        ok = any(en.is_subclass(it.exc_classes[a]) for a in allowed)
        it.ctx.check("Server.parse_command/raises:only-decode-limit-or-connection-errors", z3.BoolVal(ok), info=dict(T19, exc=en.name))
    else:
        cmd, rest = outcome[1]
        it.ctx.check("Server.parse_command/exit:returns-a-pair-of-strings", z3.BoolVal(it._is_pytype(it.unbox(cmd), ("str",)) and it._is_pytype(it.unbox(rest), ("str",))), info=T19)


c.exit_hook = pc_any_exit


def make_resp_setup(name):
    def setup(u):
        cls = u.cls(CLIENT, "BaseClient")
        s = fresh("str", "reply_text")
        return u.it.getattr_(cls, name), [s], {}, {"s": s}

    return setup


def resp_exit(S, outcome):
    it = S.it
    name = S.contract.qualname
    if outcome[0] == "raise":
        en = outcome[1].cls
        ok = any(en.is_subclass(it.exc_classes[a]) for a in ("ValueError", "IndexError"))
        it.ctx.check(f"{name}/raises:only-ValueError-or-IndexError", z3.BoolVal(ok), info=dict(T19, exc=en.name))
    else:
        ip, port = outcome[1]
        it.ctx.check(f"{name}/exit:port-is-an-int", z3.BoolVal(it._is_pytype(it.unbox(port), ("int",))), info=T19)


for _n in ("parse_epsv_response", "parse_pasv_response"):
    c = contract(CLIENT, f"BaseClient.{_n}", props=["C19"])
    c.setup = make_resp_setup(_n)
    c.raises = {"BaseException": []}
    c.exit_hook = resp_exit
    c.opts = {"feas_timeout_ms": 300, "no_covers": True}
