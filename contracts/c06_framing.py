"""C06 — reply framing: Server.write_response / write_line (encoder), BaseClient.parse_line / parse_response
(decoder), Code.matches / check_codes (masks).  The round trip is the decoder's contract under the encoder's
postcondition as its precondition (DESIGN.md 4, C06)."""
import z3

from pyvc import strmodel
from pyvc.core import SV, PathEnd, PyRaise, as_int, fresh
from pyvc.session import Reader, Writer
from pyvc.strmodel import GhostSeq, f_rstrip
from pyvc.unit import LoopSpec, contract
from pyvc.values import Builtin, Coro, Obj, SymSeq

SERVER = "aioftp.server"
CLIENT = "aioftp.client"
S_ = z3.StringSort()
A_ = z3.ArraySort(z3.IntSort(), S_)
CRLF = z3.StringVal("\r\n")


def sv(t):
    return SV("str", t)


def three_digits(c):
    return z3.InRe(c, z3.Loop(z3.Range("0", "9"), 3, 3))


def enc_line(code, lines, n, j, list_mode):
    """the j-th wire line of enc_reply(code, lines, list)  (0 <= j < n)"""
    dash = z3.Concat(code, z3.StringVal("-"), lines[j])
    last = z3.Concat(code, z3.StringVal(" "), lines[j])
    if list_mode:
        inner = z3.Concat(z3.StringVal(" "), lines[j])
        return z3.If(j == n - 1, last, z3.If(j == 0, dash, inner))
    return z3.If(j == n - 1, last, dash)


# ------------------------------------------------------------------------------------ write_line
def setup_write_line(u):
    it = u.it
    srv = Obj(u.cls(SERVER, "Server"), tag="server")
    srv.fields["encoding"] = "utf-8"
    w = Writer("control")
    stream = Obj(u.cls("aioftp.common", "StreamIO"), tag="stream")
    stream.fields.update(reader=Reader("control"), writer=w, read_timeout=None, write_timeout=None)
    line = fresh("str", "line")
    f = it.getattr_(srv, "write_line")
    return f, [stream, line], {}, {"self": srv, "stream": stream, "line": line, "writer": w}


c = contract(SERVER, "Server.write_line", props=["C06"])
c.setup = setup_write_line
c.ensures(lambda S: S.vars["writer"].written == strmodel.f_encode(z3.Concat(S.vars["line"].t, CRLF)), "writes-exactly-the-encoded-line-plus-CRLF")
c.raises_("OSError")
c.assumptions.append("T-enc: str.encode / bytes.decode are inverse on encodable text and distribute over concatenation; 0x0A occurs in the encoded form only as '\\n'")

# summary used by write_response: ghost `wire` (sequence of lines accepted by the stream) grows by exactly `line`
cw = contract(SERVER, "Server.write_line", props=[], name="Server.write_line#summary")
cw.self_check = False
cw.may_suspend = False
cw.apply_hook = lambda S: S.it.ctx.ghost["wire"].append(S.it, S.vars["line"])
cw.raises_("OSError")


# ------------------------------------------------------------------------------------ write_response
def setup_write_response(u):
    it = u.it
    srv = Obj(u.cls(SERVER, "Server"), tag="server")
    srv.fields["encoding"] = "utf-8"
    stream = Obj(u.cls("aioftp.common", "StreamIO"), tag="stream")
    code = fresh("str", "code")
    u.assume(three_digits(code.t))
    wire = GhostSeq("str", "wire")
    u.assume(wire.len >= 0)
    it.ctx.ghost["wire"] = wire
    list_mode = u.choose(2, "list-mode") == 1
    single = (not list_mode) and u.choose(2, "lines-is-a-str") == 1
    if single:
        line0 = fresh("str", "line0")
        arr = z3.Store(z3.K(z3.IntSort(), z3.StringVal("")), 0, line0.t)
        lines_v, n, arr_t = line0, z3.IntVal(1), arr
    else:
        arr_t = z3.Const("lines", A_)
        n = z3.Int("nlines")
        u.assume(n >= (2 if list_mode else 1))  # what the handlers pass (list mode: head and tail at least)
        lines_v = SymSeq("str", arr_t, n, kind="list")
    f = it.getattr_(srv, "write_response")
    vars = {"self": srv, "stream": stream, "code": code, "lines": arr_t, "n": n, "list_mode": list_mode, "wire0": wire.arr, "len0": wire.len}
    return f, [stream, code, lines_v, list_mode], {}, vars


c = contract(SERVER, "Server.write_response", props=["C06"])
c.setup = setup_write_response
c.uses = [(SERVER, "Server.write_line#summary")]
c.raises_("OSError")


def wr_loop_inv(S):
    """after i body lines: wire == wire0 ++ enc[0 .. off+i)"""
    us = S.it.ctx.unit_state
    wire = S.it.ctx.ghost["wire"]
    code, lines, n, lm = us.vars["code"].t, us.vars["lines"], us.vars["n"], us.vars["list_mode"]
    i = as_int(S.vars["_i"])
    off = 1 if lm else 0
    j = z3.Int("j!inv")
    len0 = us.vars["len0"]
    return z3.And(
        wire.len == len0 + off + i,
        strmodel.forall([j], z3.Implies(z3.And(j >= len0, j < len0 + off + i), wire.arr[j] == enc_line(code, lines, n, j - len0, lm)), wire.arr[j]),
        strmodel.forall([j], z3.Implies(z3.And(j >= 0, j < len0), wire.arr[j] == us.vars["wire0"][j]), wire.arr[j]),
    )


def wr_havoc(it, env):
    it.ctx.ghost["wire"].havoc(it)


c.loop(0, LoopSpec(invariants=[("wire-is-the-encoding-of-the-lines-so-far", wr_loop_inv)], havoc=wr_havoc))
c.loop(1, LoopSpec(invariants=[("wire-is-the-encoding-of-the-lines-so-far", wr_loop_inv)], havoc=wr_havoc))


def wr_post(S):
    wire = S.it.ctx.ghost["wire"]
    code, lines, n, lm = S.vars["code"].t, S.vars["lines"], S.vars["n"], S.vars["list_mode"]
    len0 = S.vars["len0"]
    j = z3.Int("j!post")
    return z3.And(
        wire.len == len0 + n,
        z3.ForAll([j], z3.Implies(z3.And(j >= len0, j < len0 + n), wire.arr[j] == enc_line(code, lines, n, j - len0, lm))),
        z3.ForAll([j], z3.Implies(z3.And(j >= 0, j < len0), wire.arr[j] == S.vars["wire0"][j])),
    )


c.ensures(wr_post, "wire-grows-by-exactly-enc_reply(code,lines,list)")


# ------------------------------------------------------------------------------------ parse_line
def mk_client(u):
    cl = Obj(u.cls(CLIENT, "BaseClient"), tag="client")
    cl.fields["encoding"] = "utf-8"
    return cl


def setup_parse_line(u):
    it = u.it
    cl = mk_client(u)
    r, w = Reader("control"), Writer("control")
    stream = Obj(u.cls("aioftp.common", "StreamIO"), tag="stream")
    stream.fields.update(reader=r, writer=w, read_timeout=None, write_timeout=None)
    cl.fields["stream"] = stream
    f = it.getattr_(cl, "parse_line")
    return f, [], {}, {"self": cl, "reader": r, "writer": w, "incoming0": r.incoming}


c = contract(CLIENT, "BaseClient.parse_line", props=["C06", "C19"])
c.setup = setup_parse_line


def pl_post(S):
    it = S.it
    r = S.vars["reader"]
    line_b = r.consumed  # exactly one readline() was consumed
    s = f_rstrip(strmodel.f_decode(line_b))
    code, rest = S.result
    code = it.unbox(code)
    n = z3.Length(s)
    return z3.And(
        S.vars["incoming0"] == z3.Concat(r.consumed, r.incoming),
        code.t == z3.SubString(s, 0, z3.If(n < 3, n, 3)),
        it.unbox(rest).t == z3.SubString(s, 3, z3.If(n - 3 < 0, 0, n - 3)),
        z3.Length(line_b) > 0,
    )


c.ensures(pl_post, "consumes-one-line-and-splits-its-rstrip-at-3")
c.raises_("ConnectionResetError", lambda S: S.vars["reader"].consumed == z3.StringVal(""), "only-when-nothing-was-read")
c.raises_("UnicodeDecodeError")
c.raises_("ValueError")
c.raises_("OSError")


# summary of parse_line over a ghost array W of decoded lines (without terminator) and a position
cpl = contract(CLIENT, "BaseClient.parse_line", props=[], name="BaseClient.parse_line#summary")
cpl.self_check = False


def pl_summary_result(S):
    it = S.it
    g = it.ctx.ghost
    W, pos = g["W"], g["pos"]
    w = W[pos]
    g["pos"] = z3.simplify(pos + 1)
    s = f_rstrip(z3.Concat(w, CRLF))
    # T-str: rstrip ignores the line terminator
    it.ctx.assume(s == f_rstrip(w))
    strmodel.ax_rstrip(it, w, f_rstrip(w))
    n = z3.Length(s)
    code_t = z3.SubString(s, 0, z3.If(n < 3, n, 3))
    rest_t = z3.SubString(s, 3, z3.If(n - 3 < 0, 0, n - 3))
    code_cls = it.modules[CLIENT].attrs["Code"]
    co = Obj(code_cls)
    co.fields["__value__"] = sv(code_t)
    return (co, sv(rest_t))


cpl.result_shape = pl_summary_result
cpl.raises_("ConnectionResetError")


# ------------------------------------------------------------------------------------ parse_response
def setup_parse_response(u):
    """precondition = the encoder's postcondition: the next n lines on the stream are enc_reply(code, lines, list),
    for lines without trailing whitespace; what follows (R) is arbitrary"""
    it = u.it
    cl = mk_client(u)
    code = fresh("str", "code")
    u.assume(three_digits(code.t))
    W = z3.Const("W", A_)
    pos0 = z3.Int("pos0")
    lines = z3.Const("lines", A_)
    n = z3.Int("nlines")
    list_mode = u.choose(2, "list-mode") == 1
    u.assume(n >= (2 if list_mode else 1))
    u.assume(pos0 >= 0)
    j = z3.Int("j!pre")
    u.ctx.add_axiom(z3.ForAll([j], z3.Implies(z3.And(j >= pos0, j < pos0 + n), W[j] == enc_line(code.t, lines, n, j - pos0, list_mode)), patterns=[W[j]]))
    # the carrier set of the property: lines without trailing whitespace
    u.ctx.add_axiom(z3.ForAll([j], z3.Implies(z3.And(j >= 0, j < n), f_rstrip(lines[j]) == lines[j]), patterns=[lines[j]]))
    u.assume(z3.Length(code.t) == 3)
    # T-str lemma  rstrip(a ++ b) == (rstrip(a) if rstrip(b) == "" else a ++ rstrip(b)),  rstrip("-") == "-", rstrip(" ") == "",
    # rstrip(d) == d for digit strings — instantiated at the encoded lines (lines[j] carries no trailing whitespace):
    E = z3.StringVal("")
    k = z3.Int("k!rs")
    l = lines[k - pos0]
    dash = z3.Concat(code.t, z3.StringVal("-"), l)
    last = z3.If(l == E, code.t, z3.Concat(code.t, z3.StringVal(" "), l))
    inner = z3.If(l == E, E, z3.Concat(z3.StringVal(" "), l))
    if list_mode:
        R = z3.If(k - pos0 == n - 1, last, z3.If(k == pos0, dash, inner))
    else:
        R = z3.If(k - pos0 == n - 1, last, dash)
    u.ctx.add_axiom(z3.ForAll([k], z3.Implies(z3.And(k >= pos0, k < pos0 + n), f_rstrip(W[k]) == R), patterns=[f_rstrip(W[k])]))
    it.ctx.ghost["W"] = W
    it.ctx.ghost["pos"] = pos0
    f = it.getattr_(cl, "parse_response")
    return f, [], {}, {"self": cl, "code": code, "W": W, "pos0": pos0, "lines": lines, "n": n, "list_mode": list_mode}


def code_info_locals(callee):
    """resolver for loops of the shape `while ...: <code>, <info> = await self.<callee>(...)`"""

    def resolve(fn):
        import ast

        loops = [n for n in ast.walk(fn) if isinstance(n, ast.While)]
        if len(loops) != 1:
            raise KeyError("expected one while loop")
        inner = [n for n in ast.walk(loops[0]) if isinstance(n, ast.Assign) and isinstance(n.targets[0], ast.Tuple) and len(n.targets[0].elts) == 2 and all(isinstance(e, ast.Name) for e in n.targets[0].elts) and ("self." + callee + "(") in ast.unparse(n.value)]
        if len(inner) != 1:
            raise KeyError(f"expected one `<code>, <info> = await self.{callee}(...)` in the loop")
        return {"code": inner[0].targets[0].elts[0].id, "info": inner[0].targets[0].elts[1].id}

    return resolve


def parse_response_locals(fn):
    """logical names of the loop contracts of parse_response -> the locals of the real function (read from its AST):
    `return <code>, <info>`;  `<curr_code>, <rest> = await self.parse_line()` inside the loop"""
    import ast

    rets = [n for n in ast.walk(fn) if isinstance(n, ast.Return) and isinstance(n.value, ast.Tuple) and len(n.value.elts) == 2 and all(isinstance(e, ast.Name) for e in n.value.elts)]
    loops = [n for n in ast.walk(fn) if isinstance(n, ast.While)]
    if len(rets) != 1 or len(loops) != 1:
        raise KeyError("parse_response: expected `return <code>, <lines>` and one while loop")
    inner = [n for n in ast.walk(loops[0]) if isinstance(n, ast.Assign) and isinstance(n.targets[0], ast.Tuple) and len(n.targets[0].elts) == 2 and all(isinstance(e, ast.Name) for e in n.targets[0].elts) and "parse_line" in ast.unparse(n.value)]
    if len(inner) != 1:
        raise KeyError("parse_response: expected one `<code>, <rest> = await self.parse_line()` in the loop")
    return {"code": rets[0].value.elts[0].id, "info": rets[0].value.elts[1].id, "curr_code": inner[0].targets[0].elts[0].id, "rest": inner[0].targets[0].elts[1].id}


c = contract(CLIENT, "BaseClient.parse_response", props=["C06"])
c.setup = setup_parse_response
c.alias_resolver = parse_response_locals
c.opts = {"feas_timeout_ms": 400, "solve_budget_s": 400, "solve_par": 10}
c.assumptions.append("T-str: rstrip(a ++ b) == (rstrip(a) if rstrip(b) == '' else a ++ rstrip(b)); rstrip('-') == '-'; rstrip(' ') == ''; rstrip(d) == d for digit strings; isdigit(s) implies the first and last characters of s are digits")
c.uses = [(CLIENT, "BaseClient.parse_line#summary")]
c.raises_("ConnectionResetError")


def dec_line(code, lines, n, j, list_mode):
    """what the decoder must report for line j: the text after the 3-character code field"""
    dash = z3.Concat(z3.StringVal("-"), lines[j])
    sp_or_empty = z3.If(lines[j] == z3.StringVal(""), z3.StringVal(""), z3.Concat(z3.StringVal(" "), lines[j]))
    if list_mode:
        return z3.If(j == n - 1, sp_or_empty, z3.If(j == 0, dash, sp_or_empty))
    return z3.If(j == n - 1, sp_or_empty, dash)


def mk_code(it, v):
    co = Obj(it.modules[CLIENT].attrs["Code"])
    co.fields["__value__"] = v
    return co


def pr_inv(S):
    us = S.it.ctx.unit_state
    it = S.it
    g = it.ctx.ghost
    code, lines, n, lm, pos0 = us.vars["code"].t, us.vars["lines"], us.vars["n"], us.vars["list_mode"], us.vars["pos0"]
    info = strmodel.list_to_symseq(it, S.vars["info"])
    i = g["pos"] - pos0  # lines consumed so far
    j = z3.Int("j!inv")
    cur = it.unbox(S.vars["curr_code"]).t
    rest = it.unbox(S.vars["rest"]).t
    c0 = it.unbox(S.vars["code"]).t
    last = f_rstrip(us.vars["W"][g["pos"] - 1])
    return z3.And(
        i >= 1,
        i <= n,
        info.length == i,
        c0 == code,
        strmodel.forall([j], z3.Implies(z3.And(j >= 0, j < i), info.arr[j] == dec_line(code, lines, n, j, lm)), info.arr[j]),
        cur == z3.SubString(last, 0, z3.If(z3.Length(last) < 3, z3.Length(last), 3)),
        rest == z3.SubString(last, 3, z3.If(z3.Length(last) - 3 < 0, 0, z3.Length(last) - 3)),
    )


def pr_havoc(it, env):
    g = it.ctx.ghost
    g["pos"] = z3.Int(f"pos!{next(strmodel._split_ctr)}")


c.loop(
    0,
    LoopSpec(
        invariants=[("decoded-prefix-matches-encoded-lines", pr_inv)],
        shapes={"curr_code": lambda it: mk_code(it, fresh("str", "curr_code")), "info": lambda it: SymSeq("str", z3.Const(f"info!{next(strmodel._split_ctr)}", A_), z3.Int(f"infolen!{next(strmodel._split_ctr)}"), kind="list")},
        havoc=pr_havoc,
    ),
)


def pr_post(S):
    it = S.it
    g = it.ctx.ghost
    code, info = S.result
    info = strmodel.list_to_symseq(it, info)
    n, lines, lm = S.vars["n"], S.vars["lines"], S.vars["list_mode"]
    j = z3.Int("j!post")
    return z3.And(
        it.unbox(code).t == S.vars["code"].t,
        info.length == n,
        z3.ForAll([j], z3.Implies(z3.And(j >= 0, j < n), info.arr[j] == dec_line(S.vars["code"].t, lines, n, j, lm))),
        g["pos"] == S.vars["pos0"] + n,
    )


c.ensures(pr_post, "decodes-the-same-code-and-lines-and-leaves-exactly-the-rest-of-the-stream")


# ------------------------------------------------------------------------------------ Code.matches / check_codes
def setup_matches(u):
    it = u.it
    code = fresh("str", "code")
    u.assume(three_digits(code.t))
    u.assume(z3.Length(code.t) == 3)
    k = 1 + u.choose(3, "mask-length")
    mask = fresh("str", "mask")
    u.assume(z3.Length(mask.t) == k)
    co = mk_code(it, code)
    f = it.getattr_(co, "matches")
    return f, [mask], {}, {"self": co, "code": code, "mask": mask, "k": k}


c = contract(CLIENT, "Code.matches", props=["C06"])
c.setup = setup_matches
c.assumptions.append("masks of 1..3 characters against 3-digit codes (every mask in the tree has 3 characters)")


def matches_post(S):
    it = S.it
    code, mask, k = S.vars["code"].t, S.vars["mask"].t, S.vars["k"]
    conj = []
    for i in range(k):
        m = z3.SubString(mask, i, 1)
        cch = z3.SubString(code, i, 1)
        strmodel._digit_ground(it, m)
        # a single character is a digit string iff it is a digit character
        it.ctx.assume(strmodel.f_isdigit(m) == strmodel.f_isdigit_ch(m))
        conj.append(z3.Or(z3.Not(strmodel.f_isdigit_ch(m)), m == cch))
    want = z3.And(*conj)
    return it.eq_term(S.result, it.mk_bool(want))


c.ensures(matches_post, "accepts-exactly-the-codes-agreeing-digit-for-digit-non-digits-are-wildcards")


# ------------------------------------------------------------------------------------ parse_response on an arbitrary stream
# "a reply whose continuation lines carry a different code is rejected rather than misread"
cpl2 = contract(CLIENT, "BaseClient.parse_line", props=[], name="BaseClient.parse_line#summary-any")
cpl2.self_check = False


def pl_any_result(S):
    it = S.it
    g = it.ctx.ghost
    code_t = fresh("str", "linecode")
    rest_t = fresh("str", "linerest")
    it.ctx.assume(z3.Length(code_t.t) <= 3)
    it.ctx.assume(z3.Implies(z3.Length(code_t.t) < 3, rest_t.t == z3.StringVal("")))
    strmodel.ax_isdigit(it, code_t.t)
    if "c0" not in g:
        g["c0"] = code_t
    else:
        g["all_same"] = z3.And(g["all_same"], z3.Or(z3.Not(strmodel.f_isdigit(code_t.t)), code_t.t == g["c0"].t))
    g["nlines"] = g.get("nlines", 0) + 1
    return (mk_code(it, code_t), rest_t)


cpl2.result_shape = pl_any_result
cpl2.raises_("ConnectionResetError")


def setup_parse_response_any(u):
    it = u.it
    cl = mk_client(u)
    it.ctx.ghost["all_same"] = z3.BoolVal(True)
    f = it.getattr_(cl, "parse_response")
    return f, [], {}, {"self": cl}


c = contract(CLIENT, "BaseClient.parse_response", props=["C06", "C19"], name="BaseClient.parse_response#any-stream")
c.setup = setup_parse_response_any
c.alias_resolver = parse_response_locals
c.uses = [(CLIENT, "BaseClient.parse_line#summary-any")]
c.raises_("ConnectionResetError")
c.raises_("StatusCodeError")


def any_inv(S):
    it = S.it
    g = it.ctx.ghost
    return z3.And(g["all_same"], it.unbox(S.vars["code"]).t == g["c0"].t)


def any_havoc(it, env):
    g = it.ctx.ghost
    g["all_same"] = fresh("bool", "all_same").t


c.loop(
    0,
    LoopSpec(
        invariants=[("every-digit-coded-line-so-far-carries-the-reply-code", any_inv)],
        shapes={"curr_code": lambda it: mk_code(it, fresh("str", "curr_code")), "info": lambda it: SymSeq("str", z3.Const(f"info!{next(strmodel._split_ctr)}", A_), z3.Int(f"infolen!{next(strmodel._split_ctr)}"), kind="list")},
        havoc=any_havoc,
    ),
)
c.ensures(lambda S: S.it.ctx.ghost["all_same"], "a-reply-is-returned-only-if-every-digit-coded-line-carried-its-code")
c.ensures(lambda S: S.it.unbox(S.result[0]).t == S.it.ctx.ghost["c0"].t, "the-reported-code-is-the-first-line's")


# ------------------------------------------------------------------------------------ BaseClient.command / check_codes
f_match = z3.Function("code_matches", S_, S_, z3.BoolSort())

cm_ = contract(CLIENT, "Code.matches", props=[], name="Code.matches#summary")
cm_.self_check = False
cm_.result_shape = lambda S: SV("bool", f_match(S.it.unbox(S.vars["self"]).t, z3.StringVal(S.vars["mask"]) if isinstance(S.vars["mask"], str) else S.it.unbox(S.vars["mask"]).t))

cpr_ = contract(CLIENT, "BaseClient.parse_response", props=[], name="BaseClient.parse_response#summary")
cpr_.self_check = False
cpr_.may_suspend = True


def _pr_summary(S):
    it = S.it
    code = fresh("str", "reply_code")
    it.ctx.ghost["n_replies"] = it.ctx.ghost.get("n_replies", 0) + 1
    return (mk_code(it, code), SymSeq("str", z3.Const(f"info!{next(strmodel._split_ctr)}", A_), z3.Int(f"infolen!{next(strmodel._split_ctr)}"), kind="list"))


cpr_.result_shape = _pr_summary
cpr_.raises_("StatusCodeError")
cpr_.raises_("ConnectionResetError")


def setup_command(u):
    it = u.it
    cl = mk_client(u)
    cl.cls = u.cls(CLIENT, "BaseClient")
    nw = u.choose(3, "n-wait-masks")
    ne = u.choose(3, "n-expected-masks")
    waits = tuple(fresh("str", f"wait{i}") for i in range(nw))
    exps = tuple(fresh("str", f"exp{i}") for i in range(ne))
    f = it.getattr_(cl, "command")
    return f, [None, exps, waits], {}, {"self": cl, "waits": waits, "exps": exps}


c = contract(CLIENT, "BaseClient.command", props=["C06"], name="BaseClient.command#replies")
c.alias_resolver = code_info_locals("parse_response")
c.setup = setup_command
c.uses = [(CLIENT, "Code.matches#summary"), (CLIENT, "BaseClient.parse_response#summary")]
c.raises_("ConnectionResetError")
c.loop(0, LoopSpec(invariants=[], shapes={"code": lambda it: mk_code(it, fresh("str", "reply_code")), "info": lambda it: SymSeq("str", z3.Const(f"info!{next(strmodel._split_ctr)}", A_), z3.Int(f"infolen!{next(strmodel._split_ctr)}"), kind="list")}))
c.assumptions.append("0..2 wait masks and 0..2 expected masks (the tree passes at most two of each); Code.matches and parse_response are used through their contracts")


def cmd_result_is_first_non_wait(S):
    it = S.it
    if S.result is None:
        return z3.BoolVal(not S.vars["waits"] and not S.vars["exps"])
    code = it.unbox(S.result[0]).t
    no_wait = z3.And(*[z3.Not(f_match(code, w.t)) for w in S.vars["waits"]]) if S.vars["waits"] else z3.BoolVal(True)
    exp_ok = z3.Or(*[f_match(code, e.t) for e in S.vars["exps"]]) if S.vars["exps"] else z3.BoolVal(True)
    return z3.And(no_wait, exp_ok)


c.ensures(cmd_result_is_first_non_wait, "returns-a-reply-matching-no-wait-mask-and-some-expected-mask")


def cmd_exit(S, outcome):
    it = S.it
    if outcome[0] == "raise" and outcome[1].cls.name == "StatusCodeError":
        # raised by check_codes: the reply that ended the wait matches none of the expected masks
        rc = outcome[1].fields.get("received_codes")
        from_check = rc is not None
        if from_check and S.vars["exps"]:
            code = it.unbox(rc[0] if isinstance(rc, tuple) else rc)
            if isinstance(code, SV):
                it.ctx.check("BaseClient.command/raises:StatusCodeError-only-when-no-expected-mask-matches", z3.And(*[z3.Not(f_match(code.t, e.t)) for e in S.vars["exps"]]), info={"props": ["C06"]})


c.exit_hook = cmd_exit
c.raises_("StatusCodeError")
