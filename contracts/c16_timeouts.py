"""C16 — timeouts: with_timeout wrapper, StreamIO timeouts, passive-connection handler closures, the 425 path.
(The control-stream wiring is in contracts/dispatcher_units.py: Server.dispatcher/set-up.)"""
import z3

from contracts import c02_paths, c10_limits, c11_ports, server_units  # noqa: F401
from pyvc.core import SV, PathEnd, PyRaise, Unsupported, fresh
from pyvc.interp import LazyOpt
from pyvc.session import Reader, Writer
from pyvc.sessionenv import Session
from pyvc.unit import contract
from pyvc.values import Builtin, Coro, Obj

SERVER = "aioftp.server"
COMMON = "aioftp.common"
T16 = {"props": ["C16"]}


# ------------------------------------------------------------------------------------ StreamIO.__init__ + with_timeout
def setup_streamio(u):
    it = u.it
    cls = u.cls(COMMON, "StreamIO")
    r, w = Reader("r"), Writer("w")
    tmo = {n: LazyOpt(it, "real", n, lambda v: v.t >= 0) for n in ("timeout", "read_timeout", "write_timeout")}
    method = ["readline", "read", "readexactly", "write"][u.choose(4, "method")]

    def run(i, a, k):
        def body():
            st = i.call(cls, [r, w], dict(tmo))
            i.ctx.ghost["stream_obj"] = st
            args = {"readline": [], "read": [fresh("int", "count")], "readexactly": [fresh("int", "count")], "write": [fresh("bytes", "data")]}[method]
            if method == "readexactly":
                raise PathEnd("readexactly is not used by the server or the client transfer paths")
            return i.await_(i.call(i.getattr_(st, method), args, {}))

        return Coro(body, "StreamIO." + method)

    return Builtin("StreamIO-use", run), [], {}, {"tmo": tmo, "method": method}


c = contract(COMMON, "StreamIO", props=["C16"], name="StreamIO.__init__+with_timeout")
c.setup = setup_streamio
c.raises = {"BaseException": []}


def streamio_exit(S, outcome):
    it = S.it
    ctx = it.ctx
    tmo, method = S.vars["tmo"], S.vars["method"]
    side = "write_timeout" if method == "write" else "read_timeout"
    own, gen = it.unbox(tmo[side]), it.unbox(tmo["timeout"])
    # the effective bound: the side's own timeout if set (and non-zero), else the general one
    waits = [e for e in ctx.events if e[0] == "wait_for"]
    name = "StreamIO"
    if own is not None:
        want_some = True
    else:
        want_some = gen is not None
    st = ctx.ghost.get("stream_obj")
    eff = it.unbox(st.fields[side]) if st is not None else None
    if own is None:
        ctx.check(f"{name}/exit:falls-back-to-the-general-timeout", z3.BoolVal(eff is gen), info=T16)
    else:
        ok = eff is own or (eff is gen)
        ctx.check(f"{name}/exit:own-timeout-wins-unless-zero", z3.BoolVal(bool(ok)), info=T16)
        if eff is gen and gen is not own:
            ctx.check(f"{name}/exit:own-timeout-dropped-only-when-zero", own.t == 0, info=T16)
    # the I/O ran under wait_for with exactly that bound (None = unbounded: wait_for(coro, None))
    if eff is None:
        ctx.check(f"{name}/exit:no-timer-when-no-timeout-configured", z3.BoolVal(not waits), info=T16)
    else:
        ctx.check(f"{name}/exit:io-bounded-by-the-effective-timeout", z3.BoolVal(len(waits) == 1 and waits[0][1] is eff), info=T16)
    if outcome[0] == "raise" and outcome[1].cls.name == "TimeoutError":
        ctx.check(f"{name}/raises:TimeoutError-only-with-a-timer", z3.BoolVal(eff is not None), info=T16)


c.exit_hook = streamio_exit


# ------------------------------------------------------------------------------------ passive handler closures
def make_handler_closure_setup(meth):
    def setup(u):
        it = u.it
        it.hooks.setdefault("spec_helpers", {}).update(c02_paths.spec_helpers())
        sess = Session(u, mode="SEQ", ports=False, path_theory=False)
        u.sess = sess
        captured = []
        from pyvc.unit import REGISTRY

        sps = REGISTRY[(SERVER, "Server._start_passive_server")]
        old_hook = sps.apply_hook

        def grab(S):
            captured.append(S.vars["handler_callback"])
            if old_hook:
                old_hook(S)

        sps.apply_hook = grab
        try:
            f = it.getattr_(sess.server, meth)
            n0 = len(it.ctx.vcs)
            it.ctx.muted = True
            try:
                it.await_(it.call(f, [sess.conn, ""], {}))
            except PyRaise:
                raise PathEnd("handler raised")
            finally:
                it.ctx.muted = False
            del it.ctx.vcs[n0:]
        finally:
            sps.apply_hook = old_hook
        if not captured:
            raise PathEnd("no listener started on this path")
        handler = captured[0]
        it.ctx.muted = True
        sess.on_suspend(it, "later: a peer connects to the passive port")
        it.ctx.muted = False
        del it.ctx.vcs[n0:]
        r, w = Reader("data"), Writer("data")
        was_done = sess.conn.done_term("data_connection")
        old_stream = sess.conn.slots["data_connection"].fut.value
        return handler, [r, w], {}, {"sess": sess, "reader": r, "writer": w, "was_done": was_done, "old_stream": old_stream, "conn": sess.conn}

    return setup


def handler_closure_exit(S, outcome):
    it = S.it
    ctx = it.ctx
    sess, conn = S.vars["sess"], S.vars["conn"]
    name = S.contract.qualname
    if outcome[0] == "raise":
        ctx.check(f"{name}/raises:unexpected-{outcome[1].cls.name}", z3.BoolVal(False), info={"props": ["C16", "C12", "C17"]})
        return
    w = S.vars["writer"]
    dc = conn.slots["data_connection"]
    new = dc.fut.value
    is_new = isinstance(new, Obj) and new.fields.get("writer") is w
    wd = S.vars["was_done"]
    from pyvc.session import b_implies, b_not, tt

    # a second connection while one is pending is closed at once and not attached
    ctx.check(f"{name}/exit:extra-connection-closed-at-once", tt(b_implies(wd, w.closed and not is_new)), info={"props": ["C12", "C17"]})
    ctx.check(f"{name}/exit:first-connection-attached-to-this-session", tt(b_implies(b_not(wd), is_new and not w.closed)), info={"props": ["C17", "C12"]})
    if is_new:
        srv = sess.server
        sock = it.unbox(conn.slots["socket_timeout"].fut.value)
        for side in ("read_timeout", "write_timeout"):
            eff = it.unbox(new.fields[side])
            ctx.check(f"{name}/exit:data-{side}-is-socket_timeout", z3.BoolVal(eff is sock or (sock is not None and eff is None)), info=T16)
            if sock is not None and eff is None:
                ctx.check(f"{name}/exit:data-{side}-dropped-only-when-zero", sock.t == 0, info=T16)
        ctrl = conn.slots["command_connection"].fut.value
        ctx.check(f"{name}/exit:data-stream-shares-the-control-stream's-throttles", z3.BoolVal(new.fields["throttles"] is ctrl.fields["throttles"]), info={"props": ["C15", "C17"]})
        ctx.check(f"{name}/exit:data-stream-wraps-the-accepted-socket", z3.BoolVal(new.fields["reader"] is S.vars["reader"]), info={"props": ["C17"]})


for _m in ("pasv", "epsv"):
    c = contract(SERVER, f"Server.{_m}.<locals>.handler", props=["C16", "C17", "C12", "C15"], name=f"Server.{_m}.<locals>.handler")
    c.setup = make_handler_closure_setup(_m)
    c.uses = [(SERVER, "Server.get_paths#opaque"), (SERVER, "User.get_permissions#summary"), (SERVER, "Server._start_passive_server")]
    c.exit_hook = handler_closure_exit
    c.raises = {"BaseException": []}
