"""C02 run-time contract of Server.get_paths (executable form of contracts/c02_paths.py)."""
import pathlib
import sys, os
sys.path.insert(0, os.path.dirname(os.path.abspath(__file__)))
from common import main

import aioftp


def norm(parts):
    acc = []
    for p in parts:
        if p == "..":
            if acc:
                acc.pop()
        else:
            acc.append(p)
    return acc


class Conn:
    def __init__(self, cwd, base):
        self.current_directory = cwd
        self.user = type("U", (), {"base_path": base})()


def check(cwd_parts, path, base, flavour="posix"):
    """returns list of violated clause names"""
    cwd = pathlib.PurePosixPath("/", *cwd_parts)
    basep = {"posix": pathlib.PurePosixPath, "windows": pathlib.PureWindowsPath}[flavour](base)
    conn = Conn(cwd, basep)
    try:
        real, virtual = aioftp.Server.get_paths(conn, path)
    except Exception as e:
        return [f"raises:unexpected-{type(e).__name__}"]
    bad = []
    vp = pathlib.PurePosixPath(path)
    joined = vp if vp.is_absolute() else cwd / vp
    addressed = list(joined.parts[1:])
    if not (virtual.anchor == "/" and ".." not in virtual.parts):
        bad.append("post:virtual-canonical")
    fallback = real == basep and virtual == pathlib.PurePosixPath("/")
    if not (list(virtual.parts[1:]) == norm(addressed) or fallback):
        bad.append("post:virtual-is-norm-of-addressed-location")
    if not real.is_relative_to(basep):
        bad.append("post:real-confined-any-flavour")
    if flavour == "posix" and real != basep.joinpath(*virtual.parts[1:]):
        bad.append("post:real-posix-exact")
    return bad


SEGS = ["a", "b", "..", ".", "", "c d", "..a", "a..", "...", "C:", "C:\\x", "\\", "x\\..\\y", ".hidden", "ü"]


def gen(rnd):
    cwd = [rnd.choice(["a", "b", "c d", ".x"]) for _ in range(rnd.randint(0, 3))]
    k = rnd.randint(0, 6)
    segs = [rnd.choice(SEGS) for _ in range(k)]
    lead = rnd.choice(["", "/", "//", "///"])
    path = lead + "/".join(segs) + rnd.choice(["", "/"])
    flavour = rnd.choice(["posix", "posix", "windows"])
    base = rnd.choice(["/srv/ftp", "rel/base", ".", "/"]) if flavour == "posix" else rnd.choice(["C:\\ftp", "C:\\", "ftp", "\\\\host\\share\\x"])
    return {"cwd": cwd, "path": path, "base": base, "flavour": flavour}


def search(rnd, n):
    tried = 0
    for _ in range(n):
        inp = gen(rnd)
        tried += 1
        bad = check(inp["cwd"], inp["path"], inp["base"], inp["flavour"])
        if bad:
            return {"tried": tried, "failing": inp, "violated": bad}
    return {"tried": tried, "failing": None}


def replay(inp):
    return check(inp["cwd"], inp["path"], inp["base"], inp.get("flavour", "posix"))


if __name__ == "__main__":
    main(search, replay)
