"""C18 run-time differential (bounded): MemoryPathIO against PathIO on a temporary directory, for the backend calls the
server makes, over all operation sequences up to a bound on a small path universe."""
import asyncio, itertools, pathlib, shutil, sys, os, tempfile
sys.path.insert(0, os.path.dirname(os.path.abspath(__file__)))
from common import main

import aioftp

UNIVERSE = ["d", "d/f", "d/e", "d/e/g", "f", "f/x", "m/x", "n"]
OPS = []
for p in UNIVERSE:
    OPS += [("mkdir", p), ("rmdir", p), ("unlink", p), ("wb", p), ("ab", p), ("r+b", p)]
OPS += [("stat-while-reading", "d/f"), ("stat-while-writing", "d/f"), ("stat-while-reading", "f")]
for a in ["d", "d/f", "f", "d/e"]:
    for b in ["n", "f/x", "m/x", "d/e/g", "d/n", "d/f"]:
        if a != b:
            OPS.append(("rename", a, b))


async def apply(pio, root, op):
    P = lambda s: root / s
    try:
        if op[0] == "mkdir":
            if await pio.exists(P(op[1])):
                return "skip"  # the server sends MKD to the backend only for a missing path
            await pio.mkdir(P(op[1]), parents=True)
        elif op[0] == "rmdir":
            if not (await pio.exists(P(op[1])) and await pio.is_dir(P(op[1]))):
                return "skip"
            await pio.rmdir(P(op[1]))
        elif op[0] == "unlink":
            if not (await pio.exists(P(op[1])) and await pio.is_file(P(op[1]))):
                return "skip"
            await pio.unlink(P(op[1]))
        elif op[0] in ("wb", "ab", "r+b"):
            if not await pio.is_dir(P(op[1]).parent):
                return "skip"  # STOR answers 550 itself
            async with pio.open(P(op[1]), mode=op[0]) as f:
                if op[0] == "r+b":
                    await f.seek(2)
                await f.write(b"XY")
        elif op[0] == "stat-while-reading":
            if not await pio.is_file(P(op[1])):
                return "skip"
            async with pio.open(P(op[1]), mode="rb") as f:
                a = await f.read(3)
                st = await pio.stat(P(op[1]))  # e.g. another session's MLST / LIST during this session's RETR
                b = await f.read(100)
            return ("read", a + b, st.st_size)
        elif op[0] == "stat-while-writing":
            if not await pio.is_file(P(op[1])):
                return "skip"
            async with pio.open(P(op[1]), mode="r+b") as f:
                await f.seek(2)
                await f.write(b"X")
                await pio.stat(P(op[1]))
                await f.write(b"Y")
        elif op[0] == "rename":
            if not await pio.exists(P(op[1])) or await pio.exists(P(op[2])):
                return "skip"  # RNFR needs an existing source, RNTO a missing destination
            await pio.rename(P(op[1]), P(op[2]))
        return "ok"
    except aioftp.PathIOError:
        return "error"


async def snapshot(pio, root):
    out = {}

    async def walk(p, rel):
        for child in await pio.list(p):
            name = rel + "/" + child.name if rel else child.name
            if await pio.is_dir(child):
                out[name] = "dir"
                await walk(child, name)
            else:
                async with pio.open(child, mode="rb") as f:
                    out[name] = await f.read(100)

    await walk(root, "")
    return out


async def setup(pio, root):
    await pio.mkdir(root / "d", parents=True)
    for fn, data in (("d/f", b"0123456789"), ("f", b"abc")):
        async with pio.open(root / fn, mode="wb") as f:
            await f.write(data)


def classify(seq, i, existed=True):
    op = seq[i]
    if op[0] == "rename":
        dst_parent = str(pathlib.PurePosixPath(op[2]).parent)
        if dst_parent in ("f", "d/f"):
            return "rename-under-a-file"
        if op[2].startswith(op[1] + "/"):
            return "rename-directory-into-itself"
        if dst_parent in ("m",):
            return "rename-into-a-missing-directory"
    if op[0] == "r+b" and not existed:
        return "r+b-on-a-missing-file"
    return "other"


async def run_seq(seq, snapshots_every_step=True):
    tmp = pathlib.Path(tempfile.mkdtemp(prefix="c18_"))
    try:
        disk = aioftp.PathIO()
        mem = aioftp.MemoryPathIO()
        mroot = pathlib.PurePosixPath("/r")
        await mem.mkdir(mroot)
        await setup(disk, tmp)
        await setup(mem, mroot)
        for i, op in enumerate(seq):
            existed = await disk.exists(tmp / op[1])
            a = await apply(disk, tmp, op)
            b = await apply(mem, mroot, op)
            last = i == len(seq) - 1
            if snapshots_every_step or last:
                # (reading a file back moves MemoryPathIO's shared cursor, so the run without intermediate snapshots
                # is the one that can see cursor-dependent divergences)
                sa, sb = await snapshot(disk, tmp), await snapshot(mem, mroot)
            else:
                sa = sb = None
            if a != b or sa != sb:
                return i, (a, b), (sa, sb), existed
        return None
    finally:
        shutil.rmtree(tmp, ignore_errors=True)


def check(seq):
    r = asyncio.run(run_seq([tuple(x) for x in seq]))
    if r is None and len(seq) > 1:
        r = asyncio.run(run_seq([tuple(x) for x in seq], snapshots_every_step=False))
    if r is None:
        return []
    i, outcomes, trees, existed = r
    return [f"memory-vs-disk/same-outcome-and-tree[{classify([tuple(x) for x in seq], i, existed)}]"]


def search(rnd, n):
    found = {}
    tried = 0
    singles = [[op] for op in OPS]
    # every ordered pair of operations on the same path (exhaustive), then random longer sequences
    same = [[a, b] for a in OPS for b in OPS if a[1] == b[1] and len(a) == 2 and len(b) == 2]
    pool = singles + same + [[rnd.choice(OPS), rnd.choice(OPS)] for _ in range(n)] + [[rnd.choice(OPS) for _ in range(3)] for _ in range(n // 2)]
    for seq in pool:
        tried += 1
        for b in check(seq):
            found.setdefault(b, {"seq": [list(x) for x in seq]})
    if found:
        return {"tried": tried, "failing": found[sorted(found)[0]], "violated": sorted(found), "all": found}
    return {"tried": tried, "failing": None}


def replay(inp):
    return check(inp["seq"])


if __name__ == "__main__":
    main(search, replay)
