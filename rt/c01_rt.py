"""C01 run-time contract (bounded in hosts, EXHAUSTIVE in ports): the address a client derives from the server's
reply to PASV / EPSV is the address the server listens on.  The real decorated handlers Server.pasv / Server.epsv
are called with a real Connection whose passive listener is already started (a stub exposing .sockets), the reply goes
through the real Server.write_response and the real BaseClient.parse_response, then through the real
parse_pasv_response / parse_epsv_response - for every port 0..65535."""
import asyncio, socket, sys, os
sys.path.insert(0, os.path.dirname(os.path.abspath(__file__)))
from common import main

import aioftp
from aioftp.server import Connection


class Sock:
    def __init__(self, family, name):
        self.family, self._name = family, name

    def getsockname(self):
        return self._name


class Listener:
    def __init__(self, socks):
        self.sockets = socks


class Wire:
    """in-memory control channel: what write_response writes is what parse_response reads"""

    def __init__(self):
        self.buf = bytearray()

    async def write(self, data):
        self.buf += data

    async def readline(self):
        i = self.buf.find(b"\n")
        line, self.buf = bytes(self.buf[: i + 1]), self.buf[i + 1 :]
        return line

    def close(self):
        pass


async def one(server, verb, host, port, forced=None):
    replies = []
    conn = Connection(
        client_host="127.0.0.1", client_port=1, server_host=host, passive_server_port=0, server_port=21,
        socket_timeout=None, idle_timeout=None, wait_future_timeout=None, block_size=8192, extra_workers=set(),
        response=lambda *a: replies.append(a), acquired=True, restart_offset=0,
    )
    conn.user = aioftp.User()
    conn.logged = True
    fam = socket.AF_INET if verb == "pasv" else socket.AF_INET6
    name = (host, port) if verb == "pasv" else (host, port, 0, 0)
    conn.passive_server = Listener([Sock(fam, name)])
    server.ipv4_pasv_forced_response_address = forced
    ok = await getattr(server, verb)(conn, "")
    if ok is not True or len(replies) != 1:
        return f"{verb}/answers-once-and-continues", None
    wire = Wire()
    await server.write_response(wire, *replies[0])
    client = aioftp.BaseClient()
    client.stream = wire
    code, info = await client.parse_response()
    want_code = "227" if verb == "pasv" else "229"
    if code != want_code:
        return f"{verb}/reply-code", str(code)
    if verb == "pasv":
        ip, p = client.parse_pasv_response(info[-1])
        if p != port:
            return "pasv/client-decodes-the-listening-port", p
        if ip != (forced or host):
            return "pasv/client-decodes-the-announced-host", ip
    else:
        ip, p = client.parse_epsv_response(info[-1])
        if p != port or ip is not None:
            return "epsv/client-decodes-the-listening-port", p
    return None, None


# ---- end to end: the high-level Client.upload / Client.download and the stream API against a real in-process server
import pathlib, tempfile, shutil  # noqa: E402

BS = 64
PAYLOADS = {"empty": b"", "one": b"\x00", "bs-1": bytes(range(BS - 1)), "bs": bytes(range(BS)), "bs+1": bytes(range(BS + 1)), "multi": bytes(range(256)) * 3 + b"\r\n\xff\xf4tail"}


async def transfer(inp):
    """inp: kind in upload/download/append/restart-up/restart-down, payload name, existing (old content present), offset"""
    kind, payload, existing, off = inp["kind"], PAYLOADS[inp["payload"]], inp.get("existing", False), inp.get("offset", 0)
    old = b"OLD-CONTENT-" * 7
    server = aioftp.Server(path_io_factory=aioftp.MemoryPathIO, block_size=BS)
    await server.start("127.0.0.1", 0)
    tmp = pathlib.Path(tempfile.mkdtemp(prefix="c01_"))
    bad = []
    try:
        async with aioftp.Client.context(*server.address) as c:
            async def put(name, data, **kw):
                async with c.upload_stream(name, **kw) as s:
                    await s.write(data)

            async def get(name, **kw):
                async with c.download_stream(name, **kw) as s:
                    return await s.read()

            if kind == "upload":
                if existing:
                    await put("f", old)
                (tmp / "f").write_bytes(payload)
                await c.upload(tmp / "f", "f", write_into=True, block_size=BS)
                if await get("f") != payload:
                    bad.append("upload/stored-exactly")
            elif kind == "download":
                await put("f", payload)
                if existing:
                    (tmp / "g").write_bytes(old)
                await c.download("f", tmp / "g", write_into=True, block_size=BS)
                if not (tmp / "g").exists() or (tmp / "g").read_bytes() != payload:
                    bad.append("download/delivered-exactly[" + ("empty-payload" if not payload else "other") + "]")
            elif kind == "append":
                await put("f", old)
                async with c.append_stream("f") as s:
                    await s.write(payload)
                if await get("f") != old + payload:
                    bad.append("append/stored-exactly")
            elif kind == "restart-up":
                await put("f", old)
                await put("f", payload, offset=off)
                want = old[:off] + payload + old[off + len(payload):] if off and payload else (old if off else payload)
                if off > len(old) and payload:
                    want = old + bytes(off - len(old)) + payload
                if await get("f") != want:
                    bad.append("restart-upload/stored-exactly")
            elif kind == "restart-down":
                await put("f", payload)
                if await get("f", offset=off) != (payload[off:] if off else payload):
                    bad.append("restart-download/delivered-exactly")
    finally:
        await server.close()
        shutil.rmtree(tmp, ignore_errors=True)
    return bad


def transfer_inputs():
    out = []
    for pl in PAYLOADS:
        for ex in (False, True):
            out.append({"kind": "upload", "payload": pl, "existing": ex})
            out.append({"kind": "download", "payload": pl, "existing": ex})
        out.append({"kind": "append", "payload": pl})
        for off in (0, 1, BS, 84, 100):
            out.append({"kind": "restart-up", "payload": pl, "offset": off})
            out.append({"kind": "restart-down", "payload": pl, "offset": off})
    return out


def check(verb, host, port, forced=None):
    server = aioftp.Server()
    v, got = asyncio.run(one(server, verb, host, port, forced))
    return [v] if v else []


def search(rnd, n):
    found = {}
    tried = 0

    async def sweep():
        nonlocal tried
        server = aioftp.Server()
        # every port, one host per verb
        for port in range(65536):
            for verb, host in (("pasv", "127.0.0.1"), ("epsv", "::1")):
                tried += 1
                v, got = await one(server, verb, host, port)
                if v:
                    found.setdefault(v, {"verb": verb, "host": host, "port": port, "forced": None})
        # hosts: sample, with and without the forced NAT address
        for _ in range(n):
            host = ".".join(str(rnd.choice([0, 1, 9, 10, 99, 100, 127, 192, 255, rnd.randint(0, 255)])) for _ in range(4))
            forced = rnd.choice([None, None, "203.0.113.7", "10.0.0.255"])
            port = rnd.choice([0, 1, 255, 256, 257, 1023, 1024, 65535, rnd.randint(0, 65535)])
            tried += 1
            v, got = await one(server, "pasv", host, port, forced)
            if v:
                found.setdefault(v, {"verb": "pasv", "host": host, "port": port, "forced": forced})

    asyncio.run(sweep())
    for inp in transfer_inputs():
        tried += 1
        for v in asyncio.run(transfer(inp)):
            found.setdefault(v, inp)
    if found:
        first = sorted(found)[0]
        return {"tried": tried, "failing": found[first], "violated": sorted(found), "all": found}
    return {"tried": tried, "failing": None}


def replay(inp):
    if "kind" in inp:
        return asyncio.run(transfer(inp))
    return check(inp["verb"], inp["host"], inp["port"], inp.get("forced"))


if __name__ == "__main__":
    main(search, replay)
