"""C08 run-time contracts (bounded): client-side decoders against the server-side encodings of a name.
 - parse_directory_response undoes RFC 959 quote doubling
 - parse_mlsx_line keeps the name after the first space
 - parse_list_line_unix keeps the name of a line formatted like Server.build_list_string"""
import pathlib, sys, os, stat, time
sys.path.insert(0, os.path.dirname(os.path.abspath(__file__)))
from common import main

import aioftp

ALPHA = ['"', '""', " ", "a", "b", ";", "=", "-", "->", "1", "250", "Type=dir;", "\\", "%", "é", "\U0001f600", "'", " -> ", ".", "=2; ", "; ", "k=v;"]


def gen_name(rnd):
    while True:
        n = "".join(rnd.choice(ALPHA) for _ in range(rnd.randint(1, 5)))
        if n.rstrip() == n and n not in (".", "..") and "/" not in n and n:
            return n


client = aioftp.BaseClient()


def check(kind, name):
    bad = []
    if kind == "pwd":
        reply = '"' + ("/" + name).replace('"', '""') + '" is the current directory'
        got = client.parse_directory_response(reply)
        if got != pathlib.PurePosixPath("/" + name):
            cls = "quote-run-or-trailing-quote" if ('""' in name or name.endswith('"')) else "other"
            bad.append(f"parse_directory_response/undoes-quote-doubling[{cls}]")
    elif kind == "mlsx":
        line = f"Size=3;Create=20200101000000;Modify=20200101000000;Type=file; {name}\r\n".encode()
        p, info = client.parse_mlsx_line(line)
        if str(p) != name and p != pathlib.PurePosixPath(name):
            bad.append("parse_mlsx_line/name-preserved")
    elif kind == "list":
        mtime = aioftp.Server.build_list_mtime(time.time() - 1000)
        line = " ".join((stat.filemode(stat.S_IFREG | 0o644), "1", "none", "none", "3", mtime, name)) + "\r\n"
        try:
            p, info = client.parse_list_line_unix(line.encode())
            if p != pathlib.PurePosixPath(name):
                cls = "leading-whitespace" if name != name.lstrip() else "other"
                bad.append(f"parse_list_line_unix/name-preserved[{cls}]")
        except (ValueError, KeyError, IndexError):
            bad.append("parse_list_line_unix/accepts-the-server's-own-format")
    return bad


CORPUS = [" lead", "  two", 'a"b', 'q""x', 'x"', '""', "a b", "a;b=c", "250 x", "-> y", "é", "rev=2; final"]


def search(rnd, n):
    found = {}
    for i in range(n):
        name = CORPUS[i] if i < len(CORPUS) else gen_name(rnd)
        for kind in ("pwd", "mlsx", "list"):
            for b in check(kind, name):
                found.setdefault(b, {"kind": kind, "name": name})
    if found:
        first = sorted(found)[0]
        return {"tried": n * 3, "failing": found[first], "violated": sorted(found), "all": found}
    return {"tried": n * 3, "failing": None}


def replay(inp):
    return check(inp["kind"], inp["name"])


if __name__ == "__main__":
    main(search, replay)
