"""C07 run-time contracts (bounded): a listing line produced by the real server formatters for given stat values is
decoded by the real client parsers into the same type, size and modification time."""
import asyncio, pathlib, sys, os, stat, time, calendar
sys.path.insert(0, os.path.dirname(os.path.abspath(__file__)))
from common import main

import aioftp

HALF = 15778476
server = aioftp.Server(path_io_factory=aioftp.MemoryPathIO)
client = aioftp.BaseClient()


class FakeIO:
    def __init__(self, st, is_file):
        self.st, self.f = st, is_file

    async def stat(self, p):
        return self.st

    async def exists(self, p):
        return True

    async def is_file(self, p):
        return self.f

    async def is_dir(self, p):
        return not self.f


class Conn:
    pass


def check(inp):
    mode, size, mtime, name, kind = inp["mode"], inp["size"], inp["mtime"], inp["name"], inp["kind"]
    is_file = stat.S_ISREG(mode)
    st = aioftp.MemoryPathIO.Stats(size, mtime, mtime, 1, mode)
    conn = Conn()
    conn.path_io = FakeIO(st, is_file)
    path = pathlib.PurePosixPath("/d") / name
    bad = []
    if kind == "mlsx":
        s = asyncio.run(server.build_mlsx_string(conn, path))
        p, info = client.parse_mlsx_line((s + "\r\n").encode())
        want_t = time.strftime("%Y%m%d%H%M%S", time.gmtime(mtime))
        if info.get("size") != str(size):
            bad.append("mlsx/size")
        if info.get("type") != ("file" if is_file else "dir"):
            bad.append("mlsx/type")
        if info.get("modify") != want_t:
            bad.append("mlsx/modify-utc-seconds")
        if p.name != name:
            bad.append("mlsx/name")
    else:
        now = time.time()
        s = asyncio.run(server.build_list_string(conn, path))
        special = bool(mode & 0o7000) and ((mode & 0o4000 and not mode & 0o100) or (mode & 0o2000 and not mode & 0o010) or (mode & 0o1000 and not mode & 0o001))
        try:
            p, info = client.parse_list_line((s + "\r\n").encode())
        except ValueError:
            return ["list/line-accepted[%s]" % ("setid-or-sticky-without-execute" if special else "other")]
        if info.get("type") != ("file" if is_file else "dir"):
            bad.append("list/type")
        if info.get("size") != str(size):
            bad.append("list/size")
        if p.name != name:
            bad.append("list/name")
        lt = time.localtime(mtime)
        age = now - mtime
        if 0 <= age < HALF - 2 * 86400:
            want = time.strftime("%Y%m%d%H%M00", lt)
            if info.get("modify") != want:
                bad.append("list/modify-to-the-minute")
        elif age < -60 or age > HALF + 2 * 86400:
            want = time.strftime("%Y%m%d000000", lt)
            if info.get("modify") != want:
                bad.append("list/modify-to-the-day")
    return bad


def gen(rnd):
    ftype = rnd.choice([stat.S_IFREG, stat.S_IFDIR])
    perm = rnd.choice([0o644, 0o755, 0o600, 0o777, 0o000, rnd.randrange(0o10000)])
    now = time.time()
    mtime = rnd.choice([
        int(now - rnd.randrange(0, HALF - 3 * 86400)),
        int(now - HALF - rnd.randrange(3 * 86400, 40 * 365 * 86400)),
        int(now + rnd.randrange(120, 3 * 365 * 86400)),
        int(calendar.timegm((rnd.choice([1972, 2000, 2020, 2024]), 2, 29, rnd.randrange(24), rnd.randrange(60), 0))),
    ])
    if mtime < 0:
        mtime = 86400
    if rnd.random() < 0.3:
        mtime = mtime + rnd.choice([0.5, 0.9999997, 0.999999, 0.0000004])  # sub-second mtimes (nanosecond file systems)
    name = rnd.choice(["a", "b c", "x.txt", "é", "-dash", "250 ok", "a;b=c"])
    return {"mode": ftype | perm, "size": rnd.choice([0, 1, 10, 2**31, 2**40, rnd.randrange(10**6)]), "mtime": mtime, "name": name, "kind": rnd.choice(["mlsx", "list"])}


def search(rnd, n):
    found = {}
    for i in range(n):
        inp = gen(rnd)
        for b in check(inp):
            found.setdefault(b, inp)
    if found:
        return {"tried": n, "failing": found[sorted(found)[0]], "violated": sorted(found), "all": found}
    return {"tried": n, "failing": None}


def replay(inp):
    return check(inp)


if __name__ == "__main__":
    main(search, replay)
