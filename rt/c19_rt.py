"""C19 run-time contracts (bounded): mutated listing lines — parse_list_line raises only the documented ValueError,
never drops a line silently (a symbolic-link line without ' -> ' cannot be parsed and must be reported)."""
import pathlib, sys, os
sys.path.insert(0, os.path.dirname(os.path.abspath(__file__)))
from common import main

import aioftp

client = aioftp.BaseClient()
BASE = [
    b"-rw-r--r-- 1 none none 12 Jan 01 12:00 file.txt",
    b"drwxr-xr-x 2 none none 0 Feb 29 2020 dir",
    b"lrwxrwxrwx 1 none none 3 Mar 03 03:03 link -> target",
    b"lrwxrwxrwx 1 none none 3 Mar 03 03:03 link",
    b"01/02/2020 03:04 PM <DIR> folder",
    b"01/02/2020 03:04 PM 1,234 file",
    b"Size=3;Type=file; name",
]


def mutate(rnd, b):
    b = bytearray(b)
    for _ in range(rnd.randint(0, 3)):
        op = rnd.randrange(4)
        if not b:
            break
        i = rnd.randrange(len(b))
        if op == 0:
            del b[i]
        elif op == 1:
            b[i] = rnd.randrange(256)
        elif op == 2:
            b.insert(i, rnd.choice(b" -x>l\xff"))
        else:
            b = b[:i]
    return bytes(b)


def check(line):
    try:
        res = client.parse_list_line(line)
    except ValueError:
        return []
    except Exception as e:
        return ["parse_list_line/raises-only-the-documented-ValueError[%s]" % type(e).__name__]
    bad = []
    try:
        s = line.decode("utf-8")
    except UnicodeDecodeError:
        s = None
    if s is not None and s[:1] == "l" and " -> " not in s and res[1].get("type") != "unknown":
        # a unix line of type link without an arrow has no parsable name: it must be reported, not turned into something
        if len(s) > 10 and s[1:10].replace("-", "").isalpha() or s[1:10] == "---------":
            bad.append("parse_list_line/link-line-without-arrow-is-reported")
    if not (isinstance(res, tuple) and isinstance(res[0], pathlib.PurePosixPath) and isinstance(res[1], dict)):
        bad.append("parse_list_line/well-typed-result")
    return bad


def search(rnd, n):
    found = {}
    for i in range(n):
        line = mutate(rnd, rnd.choice(BASE)) + rnd.choice([b"", b"\r\n"])
        for b in check(line):
            found.setdefault(b, {"line": line.decode("latin-1")})
    if found:
        return {"tried": n, "failing": found[sorted(found)[0]], "violated": sorted(found), "all": found}
    return {"tried": n, "failing": None}


def replay(inp):
    return check(inp["line"].encode("latin-1"))


if __name__ == "__main__":
    main(search, replay)
