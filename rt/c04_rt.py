"""C04 run-time contract of Permission.is_parent / User.get_permissions (nearest-ancestor rule)."""
import asyncio, pathlib, sys, os
sys.path.insert(0, os.path.dirname(os.path.abspath(__file__)))
from common import main

import aioftp

NAMES = ["a", "b", "ab", "a b", "pub", "public", "priv", "private.txt", "x"]


def spec(perms, path):
    parts = pathlib.PurePosixPath(path).parts
    best = None
    for p in perms:
        pp = p.path.parts
        if parts[: len(pp)] == pp:
            if best is None or len(pp) > len(best.path.parts):
                best = p
    return best


def check(table, path):
    perms = [aioftp.Permission(p, readable=r, writable=w) for p, r, w in table]
    user = aioftp.User(permissions=perms) if perms else aioftp.User()
    if not perms:
        perms = user.permissions
    got = asyncio.run(user.get_permissions(pathlib.PurePosixPath(path)))
    want = spec(perms, path)
    bad = []
    if want is None:
        if not (got.readable and got.writable and got not in perms):
            bad.append("post:an-ancestor-entry-or-the-allow-all-default-when-none")
    elif got is not want and not (got in perms and got.path == want.path and perms.index(got) < perms.index(want)):
        if got in perms and len(got.path.parts) == len(want.path.parts) and spec([got], path) is got:
            if perms.index(got) > min(i for i, q in enumerate(perms) if spec([q], path) is q and len(q.path.parts) == len(want.path.parts)):
                bad.append("post:first-listed-on-ties")
        else:
            bad.append("post:no-listed-ancestor-is-nearer")
    for p in perms:
        ip = p.is_parent(pathlib.PurePosixPath(path))
        if ip != (spec([p], path) is p):
            bad.append("Permission.is_parent/post:true-iff-lexical-ancestor-or-self")
            break
    return bad


def gen(rnd):
    def rpath(maxd):
        return "/" + "/".join(rnd.choice(NAMES) for _ in range(rnd.randint(0, maxd)))

    table = [(rpath(3), rnd.random() < 0.5, rnd.random() < 0.5) for _ in range(rnd.randint(0, 4))]
    return {"table": table, "path": rpath(4)}


def search(rnd, n):
    for i in range(n):
        inp = gen(rnd)
        bad = check(inp["table"], inp["path"])
        if bad:
            return {"tried": i + 1, "failing": inp, "violated": bad}
    return {"tried": n, "failing": None}


def replay(inp):
    return check([tuple(t) for t in inp["table"]], inp["path"])


if __name__ == "__main__":
    main(search, replay)
