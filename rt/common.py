"""Run-time side of the contracts: executed by /venv/bin/python against the real aioftp of AIOFTP_REPO.
Used (a) to replay solver counter-models, (b) as a bounded refuter when a proof obligation comes back
`unknown`, (c) as the CPython cross-check of the spec functions.  Never counted as proof."""
import json
import os
import random
import sys

REPO = os.environ.get("AIOFTP_REPO", "/repo")
sys.path.insert(0, os.path.join(REPO, "src"))


def main(search, replay):
    mode = sys.argv[1]
    if mode == "search":
        seed = int(sys.argv[2])
        n = int(sys.argv[3])
        rnd = random.Random(seed)
        res = search(rnd, n)
        print(json.dumps(res))
    elif mode == "replay":
        inp = json.loads(sys.argv[2])
        bad = replay(inp)
        if bad:
            print("REPRODUCED", json.dumps(bad))
        else:
            print("NOT-REPRODUCED")
