"""C09 run-time contracts (bounded): the real Client against a real in-process Server (MemoryPathIO), small trees.
upload / download placement (destination/source-name/... or destination/... with write_into), recursive list, remove."""
import asyncio, itertools, pathlib, shutil, sys, os, tempfile, io
sys.path.insert(0, os.path.dirname(os.path.abspath(__file__)))
from common import main

import aioftp

TREES = [
    {"f": b"x"},
    {"a": {}, "f": b""},
    {"a": {"f": b"1", "b": {}}, "f": b"2"},
    {"a": {"a": {"f": b"deep"}}, "e": {}},
]
DESTS = ["", "d", "d/e", "/d/e"]


def build_local(root, tree):
    for k, v in tree.items():
        if isinstance(v, dict):
            (root / k).mkdir()
            build_local(root / k, v)
        else:
            (root / k).write_bytes(v)


def flat(tree, prefix=""):
    out = {}
    for k, v in tree.items():
        p = f"{prefix}/{k}" if prefix else k
        if isinstance(v, dict):
            out[p] = "dir"
            out.update(flat(v, p))
        else:
            out[p] = v
    return out


async def remote_tree(client, root):
    out = {}
    for p, info in await client.list(root, recursive=True):
        rel = str(p.relative_to(root)) if root != pathlib.PurePosixPath("") else str(p)
        if info["type"] == "dir":
            out[rel] = "dir"
        else:
            async with client.download_stream(p) as s:
                out[rel] = await s.read()
    return out


async def scenario(inp):
    kind, tree, dest, write_into, cwd = inp["kind"], TREES[inp["tree"]], inp["dest"], inp["write_into"], inp["cwd"]
    server = aioftp.Server(path_io_factory=aioftp.MemoryPathIO)
    if inp.get("fallback"):
        server.commands_mapping.pop("mlsd")  # a server without MLSD/MLST: the client falls back to LIST
        server.commands_mapping.pop("mlst")
    await server.start("127.0.0.1", 0)
    tmp = pathlib.Path(tempfile.mkdtemp(prefix="c09_"))
    bad = []
    try:
        async with aioftp.Client.context(*server.address) as c:
            if cwd:
                await c.make_directory(cwd)
                await c.change_directory(cwd)
            base = pathlib.PurePosixPath("/") / cwd
            if kind == "upload":
                src = tmp / "src"
                src.mkdir()
                build_local(src, tree)
                await c.upload(src, dest, write_into=write_into)
                D = pathlib.PurePosixPath(dest) if write_into else pathlib.PurePosixPath(dest) / "src"
                D = D if D.is_absolute() else base / D
                want = flat(tree)
                try:
                    got = await remote_tree(c, D)
                except aioftp.StatusCodeError:
                    got = None
                if got != want:
                    cls = "directory-upload-with-a-destination" if dest != "" else "other"
                    bad.append(f"upload/places-the-tree-at-the-documented-destination[{cls}]")
                else:
                    # nothing else was created
                    everything = await remote_tree(c, pathlib.PurePosixPath("/"))
                    extra = [k for k in everything if not (("/" + k + "/").startswith(str(D).rstrip("/") + "/") or (str(D) + "/").startswith("/" + k + "/") or k == cwd)]
                    if extra:
                        bad.append("upload/creates-nothing-else")
            elif kind == "download":
                await c.make_directory("rsrc")
                pio = server.path_io_factory()
                for k, v in flat(tree).items():
                    if v == "dir":
                        await c.make_directory("rsrc/" + k)
                    else:
                        async with c.upload_stream("rsrc/" + k) as s:
                            await s.write(v)
                dst = tmp / "out" / dest.lstrip("/") if dest else tmp / "out"
                (tmp / "out").mkdir()
                await c.download("rsrc", dst, write_into=write_into)
                D = dst if write_into else dst / "rsrc"
                got = {}
                if D.exists():
                    for p in sorted(D.rglob("*")):
                        got[str(p.relative_to(D))] = "dir" if p.is_dir() else p.read_bytes()
                if got != flat(tree):
                    bad.append("download/mirrors-the-tree-at-the-documented-destination")
            elif kind == "list-remove-absolute":
                # an absolute one-component path while the working directory is elsewhere
                await c.make_directory("/top")
                for k, v in flat(tree).items():
                    if v == "dir":
                        await c.make_directory("/top/" + k)
                    else:
                        async with c.upload_stream("/top/" + k) as s:
                            await s.write(v)
                if not await c.exists("/top"):
                    bad.append("exists/finds-an-absolute-path-from-any-working-directory")
                await c.remove("/top")
                await c.change_directory("/")
                if await c.exists("top"):
                    bad.append("remove/deletes-the-subtree-and-nothing-else")
            elif kind == "list-remove":
                await c.make_directory("t")
                for k, v in flat(tree).items():
                    if v == "dir":
                        await c.make_directory("t/" + k)
                    else:
                        async with c.upload_stream("t/" + k) as s:
                            await s.write(v)
                await c.make_directory("keep")
                listed = [str(p.relative_to("t")) for p, i in await c.list("t", recursive=True)]
                if sorted(listed) != sorted(flat(tree)) or len(listed) != len(set(listed)):
                    bad.append("list/recursive-listing-returns-every-entry-exactly-once")
                await c.remove("t")
                if await c.exists("t") or not await c.exists("keep"):
                    bad.append("remove/deletes-the-subtree-and-nothing-else")
    finally:
        await server.close()
        shutil.rmtree(tmp, ignore_errors=True)
    return bad


def check(inp):
    try:
        return asyncio.run(asyncio.wait_for(scenario(inp), 30))
    except asyncio.TimeoutError:
        return [f"{inp['kind']}/terminates"]
    except aioftp.StatusCodeError as e:
        cls = "directory-upload-with-a-destination" if inp["kind"] == "upload" and inp["dest"] != "" else "other"
        return [f"{inp['kind']}/completes-without-protocol-error[{cls}]"]


def cases():
    for t in range(len(TREES)):
        for fb in (False, True):
            yield {"kind": "list-remove-absolute", "tree": t, "dest": "", "write_into": False, "cwd": "w", "fallback": fb}
            yield {"kind": "list-remove", "tree": t, "dest": "", "write_into": False, "cwd": "w", "fallback": True}
    for kind in ("upload", "download", "list-remove"):
        for t in range(len(TREES)):
            for dest in DESTS if kind != "list-remove" else [""]:
                for wi in (False, True) if kind != "list-remove" else [False]:
                    for cwd in ("", "w"):
                        if kind == "download" and dest.startswith("/"):
                            continue
                        yield {"kind": kind, "tree": t, "dest": dest, "write_into": wi, "cwd": cwd}


def search(rnd, n):
    allc = list(cases())
    rnd.shuffle(allc)
    found = {}
    tried = 0
    for inp in allc[:n]:
        tried += 1
        for b in check(inp):
            found.setdefault(b, inp)
    if found:
        return {"tried": tried, "failing": found[sorted(found)[0]], "violated": sorted(found), "all": found}
    return {"tried": tried, "failing": None}


def replay(inp):
    return check(inp)


if __name__ == "__main__":
    main(search, replay)
