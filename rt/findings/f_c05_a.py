"""F-C05-a: REST with a non-ASCII digit ('²'.isdigit() is True, int() fails) ends the session without a reply."""
import asyncio, os, sys
sys.path.insert(0, os.path.join(os.environ.get("AIOFTP_REPO", "/repo"), "src"))
import aioftp


async def main():
    server = aioftp.Server(path_io_factory=aioftp.MemoryPathIO)
    await server.start("127.0.0.1", 0)
    try:
        r, w = await asyncio.open_connection(*server.address)
        await r.readline()
        w.write(b"USER anonymous\r\n"); await w.drain(); await r.readline()
        w.write("REST ²\r\n".encode()); await w.drain()
        line = await asyncio.wait_for(r.readline(), 3)
    finally:
        await server.close()
    print("reply to REST \\u00b2:", line)
    print("REPRODUCED" if line == b"" else "NOT-REPRODUCED")


asyncio.run(main())
