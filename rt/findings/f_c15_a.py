"""F-C15-a: the round() in Throttle.append's reset lets the bytes moved (including the block in flight) exceed
limit*(t - t0) + block by up to 1/2 byte per reset period (virtual clock, real Throttle; limit 1 B/s, 5-byte blocks)."""
import os, sys
sys.path.insert(0, os.path.join(os.environ.get("AIOFTP_REPO", "/repo"), "src"))
from aioftp.common import Throttle

t = Throttle(limit=1, reset_rate=10)
clock = 0.0
moved = 0
t0 = None
worst = 0.0
for gap in (0.0, 10.6, 0.0, 0.0, 0.0):
    start_allowed = clock if t._start is None else max(clock, t._start + t._sum / t._limit)  # what wait() enforces
    clock = max(start_allowed, clock + gap)  # the peer may be slower than the throttle (idle gap)
    if t0 is None:
        t0 = clock
    t.append(b"x" * 5, clock)
    moved += 5
    worst = max(worst, moved - (1 * (clock - t0) + 5))
print("largest excess of bytes moved over limit*(t-t0) + one block: %.3f bytes" % worst)
print("REPRODUCED" if worst > 1e-9 else "NOT-REPRODUCED")
