"""F-C13-a: the backend fails to open the file of a RETR: 451 is sent, but the data connection the worker had
already detached is never closed — the peer waits for EOF for ever."""
import asyncio, os, sys
sys.path.insert(0, os.path.join(os.environ.get("AIOFTP_REPO", "/repo"), "src"))
import aioftp


class FailingOpen(aioftp.MemoryPathIO):
    @aioftp.pathio.universal_exception
    async def _open(self, path, *a, **k):
        raise OSError("disk on fire")


async def main():
    server = aioftp.Server(path_io_factory=FailingOpen)
    await server.start("127.0.0.1", 0)
    pio = server.path_io_factory()
    import pathlib, io
    from aioftp.pathio import Node
    pio.fs[0].content.append(Node("file", "f", content=io.BytesIO(b"data")))
    try:
        r, w = await asyncio.open_connection(*server.address)
        await r.readline()
        w.write(b"USER anonymous\r\n"); await w.drain(); await r.readline()
        w.write(b"PASV\r\n"); await w.drain()
        line = (await r.readline()).decode()
        nums = line[line.index("(") + 1: line.index(")")].split(",")
        port = (int(nums[4]) << 8) | int(nums[5])
        dr, dw = await asyncio.open_connection("127.0.0.1", port)
        w.write(b"RETR f\r\n"); await w.drain()
        l1 = await r.readline(); l2 = await r.readline()
        try:
            data = await asyncio.wait_for(dr.read(), 2)
            eof = True
        except asyncio.TimeoutError:
            eof = False
    finally:
        await server.close()
    print(l1, l2, "EOF on data channel:", eof)
    print("REPRODUCED" if (l2.startswith(b"451") and not eof) else "NOT-REPRODUCED")


asyncio.run(main())
