"""F-C11-b: two pipelined PASV commands each take a port; the second listener overwrites the first, whose port
and socket are never returned."""
import asyncio, os, socket, sys
sys.path.insert(0, os.path.join(os.environ.get("AIOFTP_REPO", "/repo"), "src"))
import aioftp


def free_ports(n):
    socks = [socket.socket() for _ in range(n)]
    for s in socks:
        s.bind(("127.0.0.1", 0))
    ports = [s.getsockname()[1] for s in socks]
    for s in socks:
        s.close()
    return ports


async def main():
    ports = free_ports(3)
    server = aioftp.Server(path_io_factory=aioftp.MemoryPathIO, data_ports=ports)
    await server.start("127.0.0.1", 0)
    try:
        r, w = await asyncio.open_connection(*server.address)
        await r.readline()
        w.write(b"USER anonymous\r\n"); await w.drain(); await r.readline()
        w.write(b"PASV\r\nPASV\r\n"); await w.drain()
        await r.readline(); await r.readline()
        w.write(b"QUIT\r\n"); await w.drain(); await r.readline()
        w.close()
        await asyncio.sleep(0.3)
        left = server.available_data_ports.qsize()
    finally:
        await server.close()
    print("ports in pool after the session is gone:", left, "of 3")
    print("REPRODUCED" if left != 3 else "NOT-REPRODUCED")


asyncio.run(main())
