"""F-C02-b: a pending RNFR survives a re-USER: user b's RNTO moves user a's file into b's tree."""
import asyncio, os, sys, io, pathlib
sys.path.insert(0, os.path.join(os.environ.get("AIOFTP_REPO", "/repo"), "src"))
import aioftp
from aioftp.pathio import Node


async def main():
    users = [aioftp.User("a", "pa", base_path="/a"), aioftp.User("b", "pb", base_path="/b")]
    server = aioftp.Server(users, path_io_factory=aioftp.MemoryPathIO)
    await server.start("127.0.0.1", 0)
    pio = server.path_io_factory()
    root = pio.fs[0]
    root.content.append(Node("dir", "a", content=[Node("file", "secret", content=io.BytesIO(b"x"))]))
    root.content.append(Node("dir", "b", content=[]))
    try:
        r, w = await asyncio.open_connection(*server.address)

        async def cmd(line):
            w.write(line.encode() + b"\r\n"); await w.drain()
            return await r.readline()

        await r.readline()
        await cmd("USER a"); await cmd("PASS pa")
        l1 = await cmd("RNFR secret")
        await cmd("USER b"); await cmd("PASS pb")
        l2 = await cmd("RNTO stolen")
        moved = await pio.exists(pathlib.PurePosixPath("/b/stolen")) and not await pio.exists(pathlib.PurePosixPath("/a/secret"))
    finally:
        await server.close()
    print(l1, l2, "a's file now in b's tree:", moved)
    print("REPRODUCED" if moved else "NOT-REPRODUCED")


asyncio.run(main())
