"""F-C05-b: the restart offset set by REST is applied to the next transfer *and* to the one after it
(PASV; REST 5; RETR f; <new data connection to the same listener>; RETR g -> g is sent from byte 5)."""
import asyncio, os, sys, io
sys.path.insert(0, os.path.join(os.environ.get("AIOFTP_REPO", "/repo"), "src"))
import aioftp
from aioftp.pathio import Node


async def main():
    server = aioftp.Server(path_io_factory=aioftp.MemoryPathIO)
    await server.start("127.0.0.1", 0)
    pio = server.path_io_factory()
    pio.fs[0].content.append(Node("file", "f", content=io.BytesIO(b"0123456789")))
    pio.fs[0].content.append(Node("file", "g", content=io.BytesIO(b"abcdefghij")))
    try:
        r, w = await asyncio.open_connection(*server.address)

        async def cmd(line):
            w.write(line.encode() + b"\r\n"); await w.drain()
            return await r.readline()

        await r.readline()
        await cmd("USER anonymous")
        line = (await cmd("PASV")).decode()
        nums = line[line.index("(") + 1: line.index(")")].split(",")
        port = (int(nums[4]) << 8) | int(nums[5])
        await cmd("REST 5")
        dr, dw = await asyncio.open_connection("127.0.0.1", port)
        await cmd("RETR f")
        first = await dr.read(); await r.readline()
        dr2, dw2 = await asyncio.open_connection("127.0.0.1", port)
        await cmd("RETR g")
        second = await dr2.read(); await r.readline()
    finally:
        await server.close()
    print("REST 5, RETR f:", first, " then plain RETR g:", second)
    print("REPRODUCED" if second != b"abcdefghij" else "NOT-REPRODUCED")


asyncio.run(main())
