"""F-C05-b: the restart offset set by REST is applied to the next transfer *and* to the one after it
(REST 5; RETR f; RETR g -> g is sent from byte 5)."""
import asyncio, os, sys, io
sys.path.insert(0, os.path.join(os.environ.get("AIOFTP_REPO", "/repo"), "src"))
import aioftp
from aioftp.pathio import Node


async def main():
    server = aioftp.Server(path_io_factory=aioftp.MemoryPathIO)
    await server.start("127.0.0.1", 0)
    pio = server.path_io_factory()
    pio.fs[0].content.append(Node("file", "f", content=io.BytesIO(b"0123456789")))
    pio.fs[0].content.append(Node("file", "g", content=io.BytesIO(b"abcdefghij")))
    try:
        async with aioftp.Client.context(*server.address) as c:
            async with c.download_stream("f", offset=5) as s:
                first = await s.read()
            async with c.download_stream("g") as s:
                second = await s.read()
    finally:
        await server.close()
    print("RETR f from 5:", first, " then plain RETR g:", second)
    print("REPRODUCED" if second != b"abcdefghij" else "NOT-REPRODUCED")


asyncio.run(main())
