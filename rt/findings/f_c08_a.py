"""F-C08-a: PWD does not double embedded quotes: MKD /q"x, CWD, PWD -> the client sees /q."""
import asyncio, os, sys
sys.path.insert(0, os.path.join(os.environ.get("AIOFTP_REPO", "/repo"), "src"))
import aioftp


async def main():
    server = aioftp.Server(path_io_factory=aioftp.MemoryPathIO)
    await server.start("127.0.0.1", 0)
    try:
        async with aioftp.Client.context(*server.address) as c:
            await c.make_directory('/q"x')
            await c.change_directory('/q"x')
            cwd = await c.get_current_directory()
    finally:
        await server.close()
    print("created and entered /q\"x ; PWD decoded by the client:", cwd)
    print("REPRODUCED" if str(cwd) != '/q"x' else "NOT-REPRODUCED")


asyncio.run(main())
