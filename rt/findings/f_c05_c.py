"""F-C05-c: EPSV with an argument is answered 522 and then the server closes the session (the handler returns False);
likewise PASV on an IPv6-only listener (503).  Neither reply announces the end of the session."""
import asyncio, os, sys
sys.path.insert(0, os.path.join(os.environ.get("AIOFTP_REPO", "/repo"), "src"))
import aioftp


async def main():
    server = aioftp.Server(path_io_factory=aioftp.MemoryPathIO)
    await server.start("127.0.0.1", 0)
    try:
        r, w = await asyncio.open_connection(*server.address)
        await r.readline()
        w.write(b"USER anonymous\r\n"); await w.drain(); await r.readline()
        w.write(b"EPSV 1\r\n"); await w.drain()
        l1 = await r.readline()
        w.write(b"SYST\r\n"); await w.drain()
        l2 = await asyncio.wait_for(r.readline(), 3)
    finally:
        await server.close()
    print(l1, l2)
    print("REPRODUCED" if l1.startswith(b"522") and l2 == b"" else "NOT-REPRODUCED")


asyncio.run(main())
