"""F-C11-a: a session cancelled while its passive listener is being opened loses the port."""
import asyncio, os, sys
sys.path.insert(0, os.path.join(os.environ.get("AIOFTP_REPO", "/repo"), "src"))
import aioftp


async def main():
    server = aioftp.Server(data_ports=[0], path_io_factory=aioftp.MemoryPathIO)
    await server.start("127.0.0.1", 0)
    real = asyncio.start_server
    gate = asyncio.Event()

    async def slow_start_server(cb, host=None, port=None, **kw):
        if cb.__qualname__.startswith("Server.pasv") or cb.__qualname__.startswith("Server.epsv"):
            await gate.wait()  # the listener start-up suspends; the peer disappears meanwhile
        return await real(cb, host, port, **kw)

    import aioftp.server as srv
    srv.asyncio.start_server = slow_start_server
    try:
        r, w = await asyncio.open_connection(*server.address)
        await r.readline()
        w.write(b"USER anonymous\r\n"); await w.drain(); await r.readline()
        w.write(b"PASV\r\n"); await w.drain()
        await asyncio.sleep(0.2)
        w.close()  # disconnect during start-up
        await asyncio.sleep(0.3)
        gate.set()
        await asyncio.sleep(0.2)
        left = server.available_data_ports.qsize()
    finally:
        srv.asyncio.start_server = real
        await server.close()
    print("ports in pool after the session is gone:", left, "of 1")
    print("REPRODUCED" if left != 1 else "NOT-REPRODUCED")


asyncio.run(main())
