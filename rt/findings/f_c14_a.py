"""F-C14-a: ABOR sent after the 150 reply but before the data connection is made: the CancelledError escapes the
data-connection wait (the @worker decorator sits inside it), the dispatcher re-raises it and the session dies
without any reply."""
import asyncio, os, sys
sys.path.insert(0, os.path.join(os.environ.get("AIOFTP_REPO", "/repo"), "src"))
import aioftp, io
from aioftp.pathio import Node


async def main():
    server = aioftp.Server(path_io_factory=aioftp.MemoryPathIO, wait_future_timeout=5)
    await server.start("127.0.0.1", 0)
    pio = server.path_io_factory()
    pio.fs[0].content.append(Node("file", "f", content=io.BytesIO(b"data")))
    try:
        r, w = await asyncio.open_connection(*server.address)
        await r.readline()
        w.write(b"USER anonymous\r\n"); await w.drain(); await r.readline()
        w.write(b"PASV\r\n"); await w.drain(); await r.readline()
        w.write(b"RETR f\r\n"); await w.drain()
        l150 = await r.readline()
        w.write(b"ABOR\r\n"); await w.drain()
        try:
            reply = await asyncio.wait_for(r.readline(), 3)
        except asyncio.TimeoutError:
            reply = None
    finally:
        await server.close()
    print(l150, "reply to ABOR:", reply)
    print("REPRODUCED" if reply == b"" else "NOT-REPRODUCED")


asyncio.run(main())
