"""F-C03-a: pipelined 'RETR secret' + 'USER admin' on a backend that suspends (AsyncPathIO): the guards of RETR pass for
the anonymous login, then paths and permissions are resolved again after a suspension — against user admin, whose
password was never given.  admin's file is served."""
import asyncio, os, sys, pathlib, tempfile, shutil
sys.path.insert(0, os.path.join(os.environ.get("AIOFTP_REPO", "/repo"), "src"))
import aioftp


async def main():
    d = pathlib.Path(tempfile.mkdtemp(prefix="f_c03_a_"))
    wins = 0
    try:
        (d / "adm").mkdir(); (d / "pub").mkdir()
        (d / "adm" / "secret").write_bytes(b"ADMIN-ONLY-DATA"); (d / "pub" / "secret").write_bytes(b"public")
        server = aioftp.Server([aioftp.User("admin", "s3cret", base_path=d / "adm"), aioftp.User(base_path=d / "pub")], path_io_factory=aioftp.AsyncPathIO)
        await server.start("127.0.0.1", 0)
        h, p = server.address
        for attempt in range(20):
            r, w = await asyncio.open_connection(h, p)

            async def cmd(line):
                w.write(line.encode() + b"\r\n"); await w.drain()
                return await r.readline()

            await r.readline()
            await cmd("USER anonymous")
            line = (await cmd("PASV")).decode()
            nums = line[line.index("(") + 1: line.index(")")].split(",")
            port = (int(nums[4]) << 8) | int(nums[5])
            dr, dw = await asyncio.open_connection(h, port)
            await asyncio.sleep(0.02)
            w.write(b"RETR secret\r\nUSER admin\r\n"); await w.drain()
            try:
                data = await asyncio.wait_for(dr.read(), 1)
            except asyncio.TimeoutError:
                data = None
            if data == b"ADMIN-ONLY-DATA":
                wins += 1
            w.close(); dw.close()
        await server.close()
    finally:
        shutil.rmtree(d, ignore_errors=True)
    print("admin's file served to a session that never sent admin's password:", wins, "/ 20 attempts")
    print("REPRODUCED" if wins else "NOT-REPRODUCED")


asyncio.run(main())
