"""F-C02-a: STOR aimed at the virtual root asks the backend about the *parent of the user's base directory*."""
import asyncio, os, sys, pathlib
sys.path.insert(0, os.path.join(os.environ.get("AIOFTP_REPO", "/repo"), "src"))
import aioftp

seen = []


class Spy(aioftp.MemoryPathIO):
    async def is_dir(self, path):
        seen.append(("is_dir", path))
        return await super().is_dir(path)


async def main():
    base = pathlib.PurePosixPath("/jail/user")
    server = aioftp.Server([aioftp.User(base_path=base)], path_io_factory=Spy)
    await server.start("127.0.0.1", 0)
    pio = server.path_io_factory()
    await pio.mkdir(base, parents=True)
    try:
        r, w = await asyncio.open_connection(*server.address)

        async def cmd(line):
            w.write(line.encode() + b"\r\n"); await w.drain()
            return await r.readline()

        await r.readline()
        await cmd("USER anonymous")
        await cmd("PASV")
        reply = await cmd("STOR /")
    finally:
        await server.close()
    outside = [p for op, p in seen if not p.is_relative_to(base)]
    print("reply:", reply, "backend asked about:", [str(p) for op, p in seen])
    print("REPRODUCED" if outside else "NOT-REPRODUCED")


asyncio.run(main())
