"""F-C03-b: a password configured on the anonymous account (login=None) is never asked for."""
import asyncio, os, sys
sys.path.insert(0, os.path.join(os.environ.get("AIOFTP_REPO", "/repo"), "src"))
import aioftp


async def main():
    server = aioftp.Server([aioftp.User(None, "secret")], path_io_factory=aioftp.MemoryPathIO)
    await server.start("127.0.0.1", 0)
    try:
        r, w = await asyncio.open_connection(*server.address)
        await r.readline()
        w.write(b"USER whoever\r\n"); await w.drain()
        line = await r.readline()
        w.write(b"PWD\r\n"); await w.drain()
        line2 = await r.readline()
    finally:
        await server.close()
    print(line, line2)
    print("REPRODUCED" if line.startswith(b"230") and line2.startswith(b"257") else "NOT-REPRODUCED")


asyncio.run(main())
